#!/bin/sh
# usage: try_refactor.sh <patch.diff>  -- apply a behaviour-preserving change to /repo, run every check (quick, no evidence), undo; any report is a FALSE ALARM
patch="$1"
cd /repo || exit 2
git diff --quiet || { echo "/repo is dirty"; exit 2; }
git apply "$patch" || { echo "patch does not apply"; exit 2; }
cd /verif
ids=$(python3 -c "import json;print(' '.join(p['property_id'] for p in json.load(open('MANIFEST.json'))['checks']))")
mkdir -p /tmp/verif-rf; rm -f /tmp/verif-rf/*
for p in $ids; do ( ./check $p --no-evidence > /tmp/verif-rf/$p.out 2>&1 ) & done; wait
grep -h "^  finding" /tmp/verif-rf/*.out | sort | uniq -c | sort -rn
git -C /repo checkout -- .
git -C /repo status --short | head -3

#!/bin/sh
# usage: try_seed.sh <patch.diff> <Cnn>...   -- apply a seeded change to /repo, run the checks, undo it straight afterwards
patch="$1"; shift
cd /repo || exit 2
git diff --quiet || { echo "/repo is dirty"; exit 2; }
git apply "$patch" || { echo "patch does not apply"; exit 2; }
for p in "$@"; do
  (cd /verif && ./check "$p" --no-evidence 2>&1 | grep -E "^  finding|^$p:" | cut -c1-260)
done
git -C /repo checkout -- . 
git -C /repo status --short | head -3

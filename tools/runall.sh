#!/bin/bash
# run every claimed property's check at the given tier in parallel, print non-OK
cd /verif
tier=${1:-quick}
ids=$(python3 -c "import json;print(' '.join(p['property_id'] for p in json.load(open('MANIFEST.json'))['checks']))")
mkdir -p /tmp/verif-runall; rm -f /tmp/verif-runall/*
for p in $ids; do ( ./check $p --tier $tier > /tmp/verif-runall/$p.out 2>&1; echo "$p exit=$?" > /tmp/verif-runall/$p.rc ) & done; wait
cat /tmp/verif-runall/*.rc | grep -v "exit=0" ; grep -h "VIOLATION\|KNOWN-FINDING" /tmp/verif-runall/*.out; echo done

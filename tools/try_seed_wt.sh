#!/bin/sh
# usage: try_seed_wt.sh <patch.diff> <Cnn>...  -- like try_seed.sh but in a throw-away worktree (does not touch /repo's working tree)
patch="$1"; shift
wt=$(mktemp -d /tmp/seedwt.XXXXXX)
git -C /repo worktree add --detach -q "$wt" HEAD || exit 2
git -C "$wt" apply "$patch" || { echo "patch does not apply"; git -C /repo worktree remove --force "$wt"; exit 2; }
for p in "$@"; do
  (cd /verif && ./check "$p" --root "$wt" --no-evidence 2>&1 | grep -E "^  finding|^$p:" | cut -c1-260)
done
git -C /repo worktree remove --force "$wt"

#!/usr/bin/env python3
"""keep_seed.py <seed-id> <property> <worktree> <needs> <detected-by> : copy a confirmed seeded change into /verif/seeded/<seed-id>/"""
import json, os, shutil, subprocess, sys
sid, prop, wt, needs, detected = sys.argv[1:6]
dst = f"/verif/seeded/{sid}"
os.makedirs(dst, exist_ok=True)
seed = os.path.join(wt, "SEED")
for f in os.listdir(seed):
    p = os.path.join(seed, f)
    if os.path.isfile(p):
        shutil.copy(p, os.path.join(dst, f))
    elif os.path.isdir(p) and f != "confirm":
        shutil.copytree(p, os.path.join(dst, f), dirs_exist_ok=True)
conf = os.path.join(seed, "confirm")
ran = {}
for f in ("tests_with.txt", "demo_with.txt", "demo_without.txt"):
    p = os.path.join(conf, f)
    if os.path.exists(p):
        ran[f] = open(p, errors="replace").read()[-1500:]
base = subprocess.run(["git", "-C", wt, "rev-parse", "--short", "HEAD"], capture_output=True, text=True).stdout.strip()
meta = {
    "seed": sid,
    "property": prop,
    "base_commit": base,
    "needs_to_manifest": needs,
    "author": "independent sub-agent given only the property text and a scratch worktree",
    "confirmed_by_me": {
        "how": "tools/confirm_seed.sh in the scratch worktree: patch applied -> cargo build + cargo test --workspace --offline (all pass) + demo; patch reverted -> rebuild + demo; outputs differ",
        "outputs": ran,
    },
    "detected_by": json.loads(detected),
}
json.dump(meta, open(os.path.join(dst, "meta.json"), "w"), indent=1)
print("kept", dst, os.listdir(dst))

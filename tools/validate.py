#!/opt/veriftools/pyvenv/bin/python
"""Dev helper (uses the tooling venv's jsonschema; not needed by registered commands)."""
import json, sys, glob, jsonschema
m=json.load(open('/verif/MANIFEST.json')); s=json.load(open('/root/.vp/MANIFEST.schema.json'))
jsonschema.validate(m,s); print('manifest valid,', len(m['checks']), 'checks')
es=json.load(open('/root/.vp/EVIDENCE.schema.json'))
for f in sorted(glob.glob('/verif/evidence/*.json')):
    jsonschema.validate(json.load(open(f)), es)
print('evidence files valid:', len(glob.glob('/verif/evidence/*.json')))

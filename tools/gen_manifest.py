#!/usr/bin/env python3
"""Regenerate MANIFEST.json from the rule registry + the per-property claim table below."""
import importlib
import json
import os
import pkgutil
import sys

VERIF = os.path.dirname(os.path.dirname(os.path.abspath(__file__)))
sys.path.insert(0, VERIF)
sys.dont_write_bytecode = True
from lib import core  # noqa

import rules  # noqa

for m in pkgutil.iter_modules(rules.__path__):
    importlib.import_module("rules." + m.name)

from tools.claims import CLAIMS, NOT_APPLICABLE  # noqa

props = [json.loads(l) for l in open(os.path.join(VERIF, "properties.jsonl"))]
ids = [p["id"] for p in props]

checks = []
for pid in ids:
    names = [n for n, r in core.RULES.items() if pid in r["props"]]
    if pid not in CLAIMS:
        continue
    if not names:
        raise SystemExit(f"{pid} is claimed but no rule maps to it")
    c = CLAIMS[pid]
    checks.append(
        {
            "property_id": pid,
            "quick_cmd": f"./check {pid} --tier quick",
            "thorough_cmd": f"./check {pid} --tier thorough",
            "evidence_file": f"/verif/evidence/{pid}.json",
            "replay_cmd_template": f"./check {pid} --replay {{path}}",
            "engine": c.get("engine", "absyn+rules"),
            "level_claimed": {
                "category": "other",
                "text": c["text"] + " Rules: " + ", ".join(sorted(names)) + ".",
                "design_ref": f"DESIGN.md §4 {pid}",
            },
            "level_note": c["note"],
            "technique": c.get("technique", "static analysis: custom lints over the syntax tree (syn) with finite ordering-case evaluation"),
        }
    )

na = []
for pid in ids:
    if pid not in CLAIMS:
        if pid not in NOT_APPLICABLE:
            raise SystemExit(f"{pid} neither claimed nor listed not-applicable")
        na.append({"property_id": pid, "reason": NOT_APPLICABLE[pid]})

manifest = {
    "version": 1,
    "setup_cmd": "./setup.sh",
    "hooks": {
        "guard": "abra_verif",
        "enable": "none needed: the checks parse /repo's sources and never build or run instrumented code",
        "baseline_off_cmd": "cd /repo && cargo test --workspace --no-fail-fast --offline",
        "source_commits": [],
        "add_only": True,
    },
    "engines": [
        {"name": "absyn", "path": "engines/absyn", "serves_properties": [c["property_id"] for c in checks],
         "kind_free_text": "Rust (syn 2) parser dumping JSON syntax trees of abra_core/src and utils/src; rules in Python (rules/*.py) over those trees"},
        {"name": "abrasyn", "path": "lib/abrasyn.py", "serves_properties": ["C23", "C24", "C26", "C27", "C28"],
         "kind_free_text": "independent Python lexer+parser for the Abra subset used by modules/prelude.abra and modules/core/{map,set}.abra"},
        {"name": "mirfacts", "path": "engines/mirfacts", "serves_properties": ["C03", "C04", "C06", "C07"],
         "kind_free_text": "rustc_private driver (nightly) emitting resolved-callee / call-graph facts from type-checked MIR"},
    ],
    "checks": checks,
    "notes": "Technique family: static analysis only. Every check parses /repo's current working tree on each run; nothing in /repo is executed. "
    "Known findings (genuine defects recorded, not repaired) are in known_findings.json and matched by exact key.",
    "not_applicable": na,
}
json.dump(manifest, open(os.path.join(VERIF, "MANIFEST.json"), "w"), indent=1)
print("claimed", len(checks), "n/a", len(na))

#!/usr/bin/env python3
"""Rewrite the seeded-changes table in DESIGN.md (between the seed-table markers) from seeded/*/meta.json."""
import glob, json, re
rows = ["| seeded change | needs, to show | outcome | finding key (or why not) |", "|---|---|---|---|"]
n = {"first": 0, "after": 0, "missed": 0}
for d in sorted(glob.glob("/verif/seeded/*/")):
    m = json.load(open(d + "meta.json"))
    db = m["detected_by"]
    if not db.get("caught"):
        out, k = "**missed**", "missed"
    elif "missed at first" in db.get("check", ""):
        out, k = "caught after strengthening", "after"
    else:
        out, k = "caught on first run", "first"
    n[k] += 1
    what = (db.get("finding") or db.get("why", "")).replace("|", "/")
    needs = m.get("needs_to_manifest", "").replace("|", "/").replace("\n", " ")
    rows.append(f"| `{m['seed']}` | {needs} | {out} ({db.get('check','').split(' (')[0]}) | {what} |")
txt = "\n".join(rows) + f"\n\nTotals: {sum(n.values())} kept; {n['first']} caught on the first run, {n['after']} caught after the check was strengthened, {n['missed']} missed.\n"
s = open("/verif/DESIGN.md").read()
s = re.sub(r"(<!-- seed-table:begin -->\n).*?(<!-- seed-table:end -->)", lambda mo: mo.group(1) + txt + mo.group(2), s, flags=re.S)
open("/verif/DESIGN.md", "w").write(s)
print(n)

#!/bin/sh
# usage: try_refactor_wt.sh <patch.diff>  -- like try_refactor.sh but in a throw-away worktree (does not touch /repo's working tree); any line printed is a FALSE ALARM
patch="$1"
wt=$(mktemp -d /tmp/rfwt.XXXXXX)
out=$(mktemp -d /tmp/rfout.XXXXXX)
git -C /repo worktree add --detach -q "$wt" HEAD || exit 2
git -C "$wt" apply "$patch" || { echo "patch does not apply: $patch"; git -C /repo worktree remove --force "$wt"; exit 2; }
cd /verif
ids=$(python3 -c "import json;print(' '.join(p['property_id'] for p in json.load(open('MANIFEST.json'))['checks']))")
for p in $ids; do ( ./check $p --root "$wt" --no-evidence > $out/$p.out 2>&1 ) & done; wait
grep -h "^  finding" $out/*.out | sort | uniq -c | sort -rn
git -C /repo worktree remove --force "$wt"; rm -rf "$out"

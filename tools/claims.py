"""Per-property claim text for MANIFEST.json (what is decided, what is not)."""

PENDING = "check not built yet in this session (planned, DESIGN.md §10); claimed only once its engine passes its controls"

CLAIMS = {
    "C01": {
        "text": "Decides necessary structural conditions of 'no internal VM fault', on every VM arm and every accepted program shape: "
        "each host-panic-capable operation on operand data (index, unwrap of pop) is dominated by a guard whose exact ordering-case table "
        "equals 'operation defined' with a documented error exit on the other branch (OP-PARTIAL); tag/kind dispatch uses the accessor, cast "
        "and deallocator of the matched tag/kind (TAG-DISPATCH). Does not decide the code generator's stack discipline as a whole.",
        "note": "Trusted: syn parser; the arm-signature extractor models the expression forms used in step() and fails closed (ANCHOR-MISSING) on others; "
        "compiler-invariant partial operations (program[pc], call_stack.pop) are listed, not decided.",
    },
    "C02": {
        "text": "Decides the operator pipeline: for every operator of operators.md the composed chain lexer char -> token -> BinaryOperator -> (operand type -> assembly instruction | "
        "interface method) -> VM arm ends in the documented machine operation with operands in (left, right) order; `and`/`or` lowering is abstractly executed for both values of the left "
        "operand and must skip the right operand exactly when the reference says so; unary minus and compound assignment reuse the binary operator's instruction (PIPE); every VM arm reads its "
        "last register first, which with left-to-right pushing makes evaluation left-to-right (OP-ORDER). Does not decide the translation of statements and control flow as a whole.",
        "note": "Necessary conditions only; the tables are re-extracted from lexer.rs, parse.rs, translate_bytecode.rs, assembly.rs and vm.rs on every run.",
    },
    "C05": {
        "text": "Decides that literal-operand (Imm) instructions behave like their register siblings: for each (X, XImm) pair produced by the optimiser, "
        "the two VM arms have equal stored expressions and equal exact outcome tables (error kind per ordering case), differing only in the source of operand 2 (IMM-SIBLING); "
        "each peephole predicate accepts only instructions its rewriter handles and rewriters change exactly the replaced slot (PEEP-TABLES); each register/immediate/destination rewrite is valid "
        "for the VM arm's actual stack-access order, and each concrete two-instruction rewrite has the same (stack, jump, locals) effect as its replacement when the arms' event lists are run on an "
        "abstract stack (PEEP-SOUND); every constant fold uses the arm's operator and is declined on every operand ordering case where the arm raises an error (FOLD).",
        "note": "Pairs are extracted from optimize_bytecode.rs and assembly.rs on every run; floor 22 pairs.",
    },
    "C08": {
        "text": "Decides the dispatch clause of deep copy: each tag arm of Value::deep_copy applies the accessor of its own tag (TAG-DISPATCH).",
        "note": "Does not decide invisibility of later mutation.",
    },
    "C09": {
        "text": "Decides the blocking clause: the empty-channel path of ChannelRead re-pushes the popped channel, rewinds pc and has no other effect (RESUME).",
        "note": "Interleaving-level delivery is not decided by this rule.",
    },
    "C10": {
        "text": "Decides the resumable-instruction typestate for every arm that rewinds pc: operands consumed only under the first-iteration guard over all progress "
        "fields, saved in GC-rooted thread fields (or re-pushed), progress advances on every rewinding path and is reset on every completing path (RESUME).",
        "note": "Equality of outputs over schedules is not decided; this is the structural necessary condition.",
    },
    "C15": {
        "text": "Decides, per integer arithmetic arm, the exact outcome table (result / IntegerOverflowUnderflow / DivisionByZero) over all ordering cases of the operands "
        "(MIN, -1, 0, limits, u32 wrap) against the documented behaviour (OP-ERR); narrowing casts of operands before a semantic operation need a dominating range check (OP-CAST); "
        "Imm siblings agree (IMM-SIBLING).",
        "note": "Trusted: std's checked_* semantics as modelled in lib/ordcase.py.",
    },
    "C16": {
        "text": "Decides that all float comparison/equality arms use total_cmp with operands in order (FLOAT-ORDER) and that float Imm siblings agree with register arms, including the zero guard of division (IMM-SIBLING).",
        "note": "IEEE conformance of results is std/hardware, not decided.",
    },
    "C17": {
        "text": "Decides string comparison and concatenation arms by exhaustive evaluation of their condition trees over the finite case set (position vs each length, byte order at the position): "
        "each case must yield exactly the result lexicographic byte order prescribes, or advance (STR-CASES); resumability at every step budget (RESUME).",
        "note": "Inductive invariant position <= length is assumed at entry and re-established by the advance/reset obligations of RESUME.",
    },
    "C26": {
        "text": "Decides the clean-failure clause: GetIndex, SetIndex, ArrayPop have exact definedness guards with error exits (OP-PARTIAL).",
        "note": "The list model of the remaining operations is not decided.",
    },
    "C07": {
        "text": "Decides allocator/deallocator agreement per object kind (TAG-DISPATCH).",
        "note": "Bounded heap for bounded live data is numeric and not decided.",
    },
}

NOT_APPLICABLE = {
    "C22": "which instance monomorphisation selects is computed from solved types of the user's program by unification/substitution; no structural fact short of a correctness proof of subst/fits_impl_ty decides it",
    "C25": "sortedness/stability is an algorithmic property of index arithmetic over arrays of arbitrary length; the structural facts available are far from sufficient",
    "C30": "literal denotation depends on character-level lexer behaviour on every string and on str::parse: value semantics, not code shape",
    "C35": "agreement of offset->node search with the resolver's keys is a relation between source ranges computed at run time",
}
for _p in ["C03", "C04", "C06", "C11", "C12", "C13", "C14", "C18", "C19", "C20", "C21", "C23", "C24", "C27", "C28", "C29", "C31", "C32", "C33", "C34", "C36", "C37", "C38"]:
    NOT_APPLICABLE.setdefault(_p, PENDING)

"""Per-property claim text for MANIFEST.json (what is decided, what is not)."""

PENDING = "check not built yet in this session (planned, DESIGN.md §10); claimed only once its engine passes its controls"

CLAIMS = {
    "C01": {
        "text": "Decides necessary structural conditions of 'no internal VM fault', on every VM arm and every accepted program shape: "
        "each host-panic-capable operation on operand data (index, unwrap of pop) is dominated by a guard whose exact ordering-case table "
        "equals 'operation defined' with a documented error exit on the other branch (OP-PARTIAL); tag/kind dispatch uses the accessor, cast "
        "and deallocator of the matched tag/kind (TAG-DISPATCH). Does not decide the code generator's stack discipline as a whole.",
        "note": "Trusted: syn parser; the arm-signature extractor models the expression forms used in step() and fails closed (ANCHOR-MISSING) on others; "
        "compiler-invariant partial operations (program[pc], call_stack.pop) are listed, not decided.",
    },
    "C02": {
        "text": "Decides the operator pipeline: for every operator of operators.md the composed chain lexer char -> token -> BinaryOperator -> (operand type -> assembly instruction | "
        "interface method) -> VM arm ends in the documented machine operation with operands in (left, right) order; `and`/`or` lowering is abstractly executed for both values of the left "
        "operand and must skip the right operand exactly when the reference says so; unary minus and compound assignment reuse the binary operator's instruction (PIPE); every VM arm reads its "
        "last register first, which with left-to-right pushing makes evaluation left-to-right (OP-ORDER). Does not decide the translation of statements and control flow as a whole.",
        "note": "Necessary conditions only; the tables are re-extracted from lexer.rs, parse.rs, translate_bytecode.rs, assembly.rs and vm.rs on every run.",
    },
    "C05": {
        "text": "Decides that literal-operand (Imm) instructions behave like their register siblings: for each (X, XImm) pair produced by the optimiser, "
        "the two VM arms have equal stored expressions and equal exact outcome tables (error kind per ordering case), differing only in the source of operand 2 (IMM-SIBLING); "
        "each peephole predicate accepts only instructions its rewriter handles and rewriters change exactly the replaced slot (PEEP-TABLES); each register/immediate/destination rewrite is valid "
        "for the VM arm's actual stack-access order, and each concrete two-instruction rewrite has the same (stack, jump, locals) effect as its replacement when the arms' event lists are run on an "
        "abstract stack (PEEP-SOUND); every constant fold uses the arm's operator and is declined on every operand ordering case where the arm raises an error (FOLD).",
        "note": "Pairs are extracted from optimize_bytecode.rs and assembly.rs on every run; floor 22 pairs.",
    },
    "C08": {
        "text": "Decides the dispatch clause of deep copy: each tag arm of Value::deep_copy applies the accessor of its own tag (TAG-DISPATCH).",
        "note": "Does not decide invisibility of later mutation.",
    },
    "C09": {
        "text": "Decides the blocking clause: the empty-channel path of ChannelRead re-pushes the popped channel, rewinds pc and has no other effect (RESUME).",
        "note": "Interleaving-level delivery is not decided by this rule.",
    },
    "C10": {
        "text": "Decides the resumable-instruction typestate for every arm that rewinds pc: operands consumed only under the first-iteration guard over all progress "
        "fields, saved in GC-rooted thread fields (or re-pushed), progress advances on every rewinding path and is reset on every completing path (RESUME).",
        "note": "Equality of outputs over schedules is not decided; this is the structural necessary condition.",
    },
    "C15": {
        "text": "Decides, per integer arithmetic arm, the exact outcome table (result / IntegerOverflowUnderflow / DivisionByZero) over all ordering cases of the operands "
        "(MIN, -1, 0, limits, u32 wrap) against the documented behaviour (OP-ERR); narrowing casts of operands before a semantic operation need a dominating range check (OP-CAST); "
        "Imm siblings agree (IMM-SIBLING).",
        "note": "Trusted: std's checked_* semantics as modelled in lib/ordcase.py.",
    },
    "C16": {
        "text": "Decides that all float comparison/equality arms use total_cmp with operands in order (FLOAT-ORDER) and that float Imm siblings agree with register arms, including the zero guard of division (IMM-SIBLING).",
        "note": "IEEE conformance of results is std/hardware, not decided.",
    },
    "C17": {
        "text": "Decides string comparison and concatenation arms by exhaustive evaluation of their condition trees over the finite case set (position vs each length, byte order at the position): "
        "each case must yield exactly the result lexicographic byte order prescribes, or advance (STR-CASES); resumability at every step budget (RESUME).",
        "note": "Inductive invariant position <= length is assumed at entry and re-established by the advance/reset obligations of RESUME.",
    },
    "C26": {
        "text": "Decides the clean-failure clause: GetIndex, SetIndex, ArrayPop have exact definedness guards with error exits (OP-PARTIAL).",
        "note": "The list model of the remaining operations is not decided.",
    },
    "C07": {
        "text": "Decides allocator/deallocator agreement per object kind (TAG-DISPATCH).",
        "note": "Bounded heap for bounded live data is numeric and not decided.",
    },
}

CLAIMS.update({
    "C03": {
        "text": "Decides structural necessary conditions of 'accepted programs compile': no generator visitor has a panicking arm for a parser-constructible AST variant unless a recorded checker rule makes it unreachable "
        "(VISIT-TOTAL-GEN); capture, locals and resolver passes reach every expr/stmt/arm/pattern/parameter child, including match scrutinees, assignment targets, nested lambdas, tasks and default values "
        "(VISIT-COMPLETE-*); wherever the checker constrains an operand only to an interface the generator's type dispatch ends in interface dispatch, not a panic (TYPED-FALLBACK); every function boundary in the "
        "checker pushes a loop barrier so break/continue cannot escape a lambda or task (CTX-BARRIER); the generator only runs after `analyze(..)?` (GUARD); the assembler is total and every looked-up constant is gathered (ASM-TOTAL).",
        "note": "Not decided: absence of every unwrap() failure in the translator (they depend on invariants of solved types). Diverging arms justified in rules/visitors.py are listed in the evidence. One known finding (unary minus on a user Num type).",
    },
    "C04": {
        "text": "Decides that no resolver / type-checker / exhaustiveness visitor has a panicking arm for a constructible AST variant (VISIT-TOTAL-FRONT), that the type-indexed tables of the exhaustiveness pass are total over "
        "solved types (TYPE-TOTAL), that the exhaustiveness pass is skipped after earlier errors and passes run in order (GUARD), and that every pattern introducing variables is entered in the table the assignment check indexes with a panicking [] (MUT-PAIR).",
        "note": "Not decided: termination, and panic-freedom of offset arithmetic and slice indexing in the lexer/parser (value reasoning).",
    },
    "C12": {
        "text": "Decides the coverage clause: the exhaustiveness pass reaches every match expression of the program - no expr/stmt/arm child of any AST variant is skipped by the family (VISIT-COMPLETE-EXH); entry guard and pass order (GUARD); totality of the type -> constructor-set table (TYPE-TOTAL).",
        "note": "Correctness of the usefulness algorithm itself (value-set reasoning) is not decided.",
    },
    "C13": {
        "text": "Decides the second sentence: literal pattern constructors are compared by value - the float constructor's payload is derived from parse::<f64>() of the spelling and same-kind payloads are compared with == (LIT-CANON).",
        "note": "The iff of the first sentence (redundancy exactly when unreachable) is not decided.",
    },
    "C18": {
        "text": "Decides that every callee form of a call that can name a declaration with parameters (variable, member access, leading-dot variant) translates its arguments from the checker's reorder table, which is where names and defaults are resolved, and the frame analyses (locals, captures) walk that same list (CALL-SIBLING); every misuse class - unknown name, duplicate, positional after named, missing required, surplus - has a diagnostic exit and the reorder step never panics on a user-supplied name, fills defaults only into empty slots and reads out in slot order (ARG-MISUSE).",
        "note": "calculate_named_arg_order as an algorithm and the misuse diagnostics are not decided.",
    },
    "C19": {
        "text": "Decides that capture analysis reaches the bodies of nested lambdas and tasks and every other child that can contain a variable use (VISIT-COMPLETE-CAPTURES), and that lambda/task bodies are resolved in a closure scope (ASSIGN-CAPTURED).",
        "note": "Values at creation time are not decided (follows from LoadOffset-per-capture emission, not checked here).",
    },
    "C20": {
        "text": "Decides: every binding-introducing pattern (let, for, match arm) is recorded in pat_is_mutable, which the assignment check consults (MUT-PAIR); assignment to a variable declared outside the enclosing lambda/task is reported where names are resolved (ASSIGN-CAPTURED); "
        "the capture and locals passes visit assignment targets (VISIT-COMPLETE-*).",
        "note": "Diagnostic wording is not decided.",
    },
    "C21": {
        "text": "Decides: constructs with a body (for, match arm, lambda, block, while) bind their variables in a scope created for the construct while let binds in the current scope (SCOPE); every import kind is handled and inclusion/exclusion use predicates of opposite polarity over the same membership test (IMPORT-KINDS); the resolver reaches every child (VISIT-COMPLETE-RESOLVE).",
        "note": "Clash detection and file discovery are not decided.",
    },
    "C34": {
        "text": "Decides that no editor-analysis visitor (find_in_*, find_ident_in_*, collect_vars_in_*) nor any front-end visitor reached by check_lsp has a panicking arm for a constructible AST variant (VISIT-TOTAL-LSP, VISIT-TOTAL-FRONT).",
        "note": "The undecided part of C04 (value-dependent panics in lexer/parser) is undecided here as well.",
    },
})
CLAIMS["C01"]["text"] += " Function epilogues choose ReturnVoid vs Return(n) from the return type (EPILOGUE); assembler totality (ASM-TOTAL)."

CLAIMS.update({
    "C06": {
        "text": "Decides the tri-colour invariant's structural obligations per site: every store of a Value into a heap payload in step() is preceded by write_barrier on the same parent and value (GC-BARRIER); all five allocators colour from gc_state, "
        "register, shade while marking and account (GC-ALLOC); every Value-holding thread field is a root (GC-ROOTS); process_gray marks every Value-typed payload field of every kind (GC-CHILDREN); the transition to sweeping happens only after the roots were "
        "re-marked and the gray stack re-tested, because loads from heap to stack are not shaded (GC-TERMINATION); collector phases run only from maybe_gc, and maybe_gc only between instructions (GC-ATOMIC); sweep frees exactly the unmarked objects, unlinks them and resets survivors (GC-SWEEP).",
        "note": "'Behaves exactly as with collection disabled' is the conjunction of everything and is not decided; these are the necessary per-site conditions, for every interleaving because they do not depend on it.",
    },
    "C07": {
        "text": "Decides the second sentence: every raw allocation site in vm.rs flows into exactly one registry whose owner type has a Drop that frees each entry (OWN-LEDGER); allocator/deallocator agreement per object kind (TAG-DISPATCH); sweep/drop free each registered object once (GC-SWEEP, GC-ALLOC).",
        "note": "Bounded heap for bounded live data (pacing) is numeric and not decided.",
    },
    "C08": {
        "text": "Decides: SpawnTask pushes to the new thread only values deep-copied with the new thread as destination; deep_copy is total over value tags without a wildcard, allocates a new object per heap kind from recursively copied payload, and shares only the channel queue (CH-QUEUE, GC-CHILDREN); each tag arm uses its own accessor (TAG-DISPATCH).",
        "note": "Invisibility of later mutation follows from copy + heap separation; heap separation for channels is the known finding under C09.",
    },
    "C09": {
        "text": "Decides: the channel queue is FIFO and reads remove (CH-QUEUE); ChannelRead pushes only deep_copy(dequeued) allocated in the reader (CH-QUEUE); the blocking path re-pushes the channel, rewinds pc and has no other effect (RESUME); a container shared between threads must not hold thread-local Values (CH-OWN: one known finding on the pinned tree).",
        "note": "Interleaving-level behaviour is not decided.",
    },
})

CLAIMS.update({
    "C11": {
        "text": "Decides: thread status tests pending host call, then done, then error; the runtime maps Done->Done, Error->MainThreadError(same error), PendingHostFunc->PendingHostFunc, else OutOfSteps (STATUS-MAP); finish_thread_turn returns true exactly for `is_main && done` and every caller "
        "propagates it without consulting other threads (MAIN-DONE); each executed unit is paid for under remaining_steps > 0 (STEP-ACCOUNT); the HostFunc arm records the id and yields without touching the operand stack, Stop leaves the result on it (STATUS-MAP).",
        "note": "Argument order of generated bindings is C36; the value of the final expression depends on C02.",
    },
    "C23": {
        "text": "Decides: Try/Unwrap implementations for option and result in prelude.abra map some/ok to Continue(payload)/payload and none/err to Break(residual)/panic, from_residual rebuilds none/err(r) (TRY-TEMPLATES, on an independent parse of the prelude); the numeric variant tags and "
        "interface method indices hard-coded in the generator's `?`, `!` and `for` lowerings equal the declaration order in prelude.abra (TAG-AGREE).",
        "note": "Stack depth at the `?` site for every expression shape is not decided.",
    },
    "C24": {
        "text": "Decides on an independent parse of prelude.abra: every delegating Ord/Equal method ends, through the intrinsic -> emit_intrinsic -> assembler -> VM chain, in the arm implementing exactly that operator with operands in order; bool and void definitions equal the truth tables of < <= > >= == on false<true; "
        "tuple Ord implementations are evaluated over all 3^n component-order cases against lexicographic order; tuple Equal over all 2^n cases; array Equal compares length and every index (ORD-LAWS); every component feeds the hash in order and hashing uses only wrapping arithmetic (HASH-LAWS); in-lined fast paths by PIPE.",
        "note": "Transitivity for user types and NaN ordering beyond 'one total order' (C16) are not decided.",
    },
    "C27": {
        "text": "Decides the extreme-key clause: no overflow-capable operation (abs, unary minus, + - *) is applied to a hash code or stored hash in core/map - bucket indices are Euclidean remainders of the raw hash - and core/set delegates each operation to the same-named map operation with its arguments in order (HASH-ARITH).",
        "note": "The dictionary model (collision chains, resize, slot reuse) is not decided.",
    },
    "C28": {
        "text": "Decides by constant propagation through `..` on an independent parse of prelude.abra: each ToString implementation yields exactly the documented template - nil, true/false, some(x)/none, ok(x)/err(e), `[ ` elements separated by `, ` ` ]`, `(a, b)` for 2-4 tuples - and int/float go through StringFromInt/StringFromFloat (STR-TEMPLATES).",
        "note": "Decimal rendering of numbers is std's.",
    },
})
CLAIMS["C26"]["text"] += " Array clone builds a fresh array from Clone.clone of every element (CLONE-DEEP)."
CLAIMS["C10"]["text"] += " Scheduler accounting: the thread is always stepped by the literal unit under remaining_steps > 0, so GC work per instruction is independent of the embedder's budget (STEP-ACCOUNT); saved operands are GC roots (GC-ROOTS)."

CLAIMS.update({
    "C29": {
        "text": "Decides two clauses: the lexer's comment-skipping loops stop exactly at their terminator - the block-comment loop condition, evaluated over the truth table of (char is '*', next is '/'), must equal 'not both' and then skip the 2-character terminator; a line comment must stop before the newline token (SCAN-TERM); "
        "parse_delimited_list skips newlines before each element and accepts the separator or a newline after it (SEP).",
        "note": "That re-printed programs parse to the same tree is not decided.",
    },
    "C31": {
        "text": "Decides: the three precedence() functions, read as a table operator -> level through the lexer and parser tables, equal every row of the table in operators.md (PREC-TABLE); the Pratt loop breaks on `precedence <= binding_power` and recurses with the operator's own precedence (PRATT); "
        "no token may start both a prefix operator and a term (FIRST-SET: one known finding, the negative-literal look-ahead).",
        "note": "Known finding: `-2 % 3` groups differently from `-x % 3`.",
    },
    "C37": {
        "text": "Decides the memory-safety sentence structurally: the set has no field-wise Clone/Copy and a hand-written Clone rebuilds by re-inserting; buffers grow only by push under the capacity check that swaps in a fresh buffer, and no reallocating Vec method is applied to them; "
        "removal happens only in clear() together with the pointer tables, or as the pop undoing a duplicate's speculative push; no field or raw pointer is public (OWN-IDSET).",
        "note": "Agreement with the map-plus-vector model is not decided.",
    },
    "C38": {
        "text": "Decides: the raw write is bounded by the buffer it writes into - the buffer switch is guarded by a comparison with current_buf.len(), resets the offset, sizes the new buffer for value plus worst-case padding and keeps the old buffer (ARENA-BOUNDS); padding is computed from the address, not the offset, and recomputed after a switch (ARENA-ALIGN).",
        "note": "Arithmetic exactness of the capacity computation beyond these dominance facts is not decided.",
    },
})

NOT_APPLICABLE = {
    "C22": "which instance monomorphisation selects is computed from solved types of the user's program by unification/substitution; no structural fact short of a correctness proof of subst/fits_impl_ty decides it",
    "C25": "sortedness/stability is an algorithmic property of index arithmetic over arrays of arbitrary length; the structural facts available are far from sufficient",
    "C30": "literal denotation depends on character-level lexer behaviour on every string and on str::parse: value semantics, not code shape",
    "C35": "agreement of offset->node search with the resolver's keys is a relation between source ranges computed at run time",
}
CLAIMS.update({
    "C14": {
        "text": "Decides the sub-pattern order clause: every order-sensitive traversal (comparison, binding, or-pattern traversal in the generator; deconstruction in the exhaustiveness pass) takes the sub-patterns of named struct / named variant patterns through a declaration-order lookup "
        "(`decl.fields.iter().map(.. named.find(by name))` or an *_in_order helper), never in source order; or-pattern slots are declared from the left side and right-side bindings store into them (FIELD-ORDER); the variant tag tested by `for` equals option.some (TAG-AGREE).",
        "note": "Which arm is selected at run time is not decided.",
    },
    "C32": {
        "text": "Decides the location discipline: translate_expr/translate_stmt set the current location before emitting and emitted instructions record it; the location tables are built exactly once, after optimisation and before assembly, advancing one index per Line::Instr exactly like the label resolver; "
        "the VM looks up pc-after-increment taking the predecessor entry in both outcomes of the binary search, for the fault and for return addresses; frames hold return addresses; the trace is collected outermost first and printed reversed exactly once (LOC-DISCIPLINE).",
        "note": "That the line attached to each instruction is the line a user expects is not decided.",
    },
    "C36": {
        "text": "Decides: hand-written VmType implementations are mirror images (same scalar accessor pair; option/result payload-then-construct vs deconstruct-tag-payload with tags equal to the prelude's declaration order; arrays and tuples pushed in order and popped in order given that deconstruct_* pushes reversed); "
        "generated HostFunctionArgs::from_vm pops arguments in reverse declaration order keeping their indices; host function ids are positions in the one sorted statics.host_funcs set used by both the generator and the binding generator (MIRROR, TAG-AGREE).",
        "note": "Generated code for user structs/enums depends on the input signature and is not decided.",
    },
})
CLAIMS["C26"]["text"] += " Every prelude array operation taking a position uses it as an exact subscript (or passes it to an operation that does) on every path to a normal return, so an out-of-range position reaches the VM's bounds check instead of being clamped away (INDEX-MUST-USE)."
CLAIMS["C21"]["text"] = CLAIMS["C21"]["text"].replace("over the same membership test (IMPORT-KINDS)", "over the same membership test, and the predicate filters every kind of child the import copies - declarations and child namespaces alike (IMPORT-KINDS)")
CLAIMS["C12"]["text"] += " Named sub-patterns are deconstructed in declaration order by the pass (FIELD-ORDER)."
CLAIMS["C09"] = {
    "text": "Decides: the channel queue is FIFO and reads remove (CH-QUEUE); a value in transit is an owned message tree - no container shared between threads may hold thread-local Values anywhere in the closure of its element type (CH-OWN) - built at write time and materialised in the reader's heap at read time (CH-QUEUE); the blocking path re-pushes the channel, rewinds pc and has no other effect (RESUME); a collector arm that walks a collection of children walks all of it (GC-CHILDREN).",
    "note": "Interleaving-level behaviour is not decided. The dangling-pointer defect found here was repaired by 41075a1.",
}
CLAIMS["C08"]["note"] = "Invisibility of later mutation follows from copy + heap separation; heap separation for channels is CH-OWN under C09."
CLAIMS["C10"]["text"] += " Queue maintenance (picking up spawned and returning threads, handing the stepped thread back) happens after every turn of the stepping loop and never only at slice entry or exit, and no per-slice local steers which thread runs (SLICE-INVARIANT)."
CLAIMS["C07"]["text"] += " heap_size is a ledger of nbytes(): every buffer-growing operation on a live object adjusts it by the delta of the very quantity nbytes() uses, times its unit (HEAP-ACCT)."
CLAIMS["C08"]["text"] += " Every object allocated anywhere in deep_copy - fast paths and early returns included - receives only payload built from recursive copies (GC-CHILDREN payload-not-copied)."
CLAIMS["C13"]["text"] += " Child-row results are joined into their parent row with an accumulating write, never overwritten per child (USEFUL-JOIN)."
CLAIMS["C18"]["text"] += " The reorder table is written and read under the id of the call expression itself at every site (CALL-KEY)."
CLAIMS["C14"]["text"] += " Every recursive pattern traversal (comparison, binding, or-decision traversal, locals, resolver, checker, exhaustiveness, editor helpers) descends into every sub-pattern position, including the positional and the named payload form (PAT-VISIT); constructor, patterns and host bindings agree that a variant payload is a struct exactly when the variant declares several fields (PAYLOAD-REPR)."
CLAIMS["C01"]["text"] += " Variant payload representation agrees between constructor, patterns and host bindings (PAYLOAD-REPR)."
for _c in ("C04", "C20", "C12", "C03"):
    CLAIMS[_c]["text"] += " Pattern traversals of the front end and generator descend into every sub-pattern position (PAT-VISIT)."
CLAIMS["C16"]["text"] += " Constant folds of float operations are declined, by value and not by spelling, wherever the VM arm stops with an error (FOLD)."
CLAIMS["C27"]["text"] += " Collision chains are walked with an unconditional advance as the last statement of every iteration, a trailing pointer set to the cursor immediately before it, a hit only under hash-and-key equality, and reuse/create of a slot writing the same per-entry arrays (CHAIN-WALK)."
CLAIMS["C27"]["note"] = "The dictionary model as a whole (resize, free-list reuse order) is not decided."
CLAIMS["C20"]["text"] += " The scope walk deciding 'captured' never forgets a lambda/task boundary it crossed: a boundary scope asks the whole enclosing chain, or an accumulated flag is passed on joined with `||` (CAPTURE-WALK)."
CLAIMS["C23"]["text"] += " No instruction of the `?`/`!` lowerings (nor of any other lowering) is emitted behind an unconditional transfer without a label, so the placeholder pop of a void payload is on the success path (EMIT-DEAD)."
CLAIMS["C23"]["note"] = "Stack depth at the `?` site for every expression shape is not decided beyond that."
for _c in ("C01", "C02"):
    CLAIMS[_c]["text"] += " No emitted instruction is unreachable behind an unconditional transfer (EMIT-DEAD)."
CLAIMS["C32"]["text"] += " Each location table records its entries depending on nothing but its own last entry (LOC-DISCIPLINE)."
for _c in ("C04", "C34"):
    CLAIMS[_c]["text"] += " Method lookups by name are unwrapped only in a prelude interface that declares the method or in an implementation already proven complete by a diverging output-type guard (UNWRAP-GUARD); type-argument lists are never indexed with a constant without a length test (INDEX-LIT); a MAX sentinel never enters plain arithmetic (SENTINEL-ARITH)."
CLAIMS["C04"]["note"] = "Not decided: termination and recursion depth, and panic-freedom of the remaining offset arithmetic and slice indexing in the lexer/parser (value reasoning)."
CLAIMS["C18"]["text"] += " Every subscript of the slot table is bounds-tested and the slot count is the declared parameter count (ARG-MISUSE)."
CLAIMS["C36"]["text"] += " Every exit of a from_vm (both binding flavours) has consumed the value it converts (MIRROR)."
CLAIMS["C37"]["text"] += " Membership, id and size queries answer from the index tables only, never from the occupancy of the storage buffers (OWN-IDSET)."
CLAIMS["C38"]["text"] += " The growth test bounds every additive term of the written extent (ARENA-BOUNDS)."
CLAIMS["C12"]["text"] += " Witness rows are stacks: the fields of a re-assembled constructor are taken from the end the row grows at (WITNESS-STACK)."
CLAIMS["C01"]["text"] += " A value taken out of an always-occupied slot (array element, variant payload) is dropped when its static type is void (VOID-SLOT); the epilogue is chosen from the result type of the compiled instance, and the return context is pushed exactly for the body kinds that end in Return (EPILOGUE)."
CLAIMS["C02"]["text"] += " Void placeholders never stay on the operand stack under later operands (VOID-SLOT); every sibling body of a construct (match arm) is resolved in a scope of its own, so a use resolves to the innermost visible declaration (SCOPE)."
CLAIMS["C21"]["text"] += " Sibling bodies (match arms) get one scope each (SCOPE)."
CLAIMS["C13"]["text"] += " Nothing returns between the analysis of the matrix and the reading of the useful flags, so both reports are made for one match (REPORT-BOTH); generic payload types are instantiated (GENERIC-INST)."
CLAIMS["C09"]["text"] += " Every part of a queued message is owned: no weak or borrowed handle in the closure of the element type (CH-OWN)."
CLAIMS["C14"]["text"] += " Slot decisions (void tests) use the type of the instance being compiled, never the generic solution (MONO-VOID)."
CLAIMS["C10"]["text"] += " No continue/break jumps over the hand-back of the popped thread (SLICE-INVARIANT)."
CLAIMS["C11"]["text"] += " The error kind raised by each integer arm is the documented one on every ordering case (OP-ERR)."
for _c in ("C04", "C34"):
    CLAIMS[_c]["text"] += " A range-tested subscript is tested against the length of the table it indexes (INDEX-OWN-BOUND)."
CLAIMS["C24"]["text"] += " Interface methods are looked up in an implementation by name, never by position (IFACE-DISPATCH)."
CLAIMS["C02"]["text"] += " Operands are evaluated whether or not their value is void (VOID-EFFECTS); an if without else never yields (IF-VOID); interface dispatch is by name (IFACE-DISPATCH); the source expression of for/let/match is resolved in the enclosing scope before the construct's own variables exist (RESOLVE-ORDER)."
CLAIMS["C21"]["text"] += " The source expression of for/let/match is resolved in the enclosing scope, before the construct's variables exist (RESOLVE-ORDER)."
CLAIMS["C07"]["text"] += " Both ways out of a for loop drop the iterator kept on the operand stack (FOR-EPILOGUE)."
CLAIMS["C23"]["text"] += " Early exits (`?` failure, return) and the end of the body return with the same slot count, and the epilogue follows the instance's result type (EPILOGUE)."
CLAIMS["C20"]["text"] += " The captured-assignment diagnostic is raised for every captured variable whatever its declaration form (ASSIGN-CAPTURED)."
CLAIMS["C19"]["text"] += " The scope walk behind the captured-assignment diagnostic tests a scope's own declarations before the lambda/task boundary (CAPTURE-WALK)."
CLAIMS["C18"]["text"] += " Every supplied parameter is recorded as seen, required or not (ARG-MISUSE)."
CLAIMS["C26"]["text"] += " Clone-constrained builders of the prelude store clones only (CLONE-STORE)."
CLAIMS["C03"]["text"] += " A member assignment whose member is not a struct field is rejected before the generator computes a field index (ASSIGN-TARGET)."
CLAIMS["C16"]["text"] += " Peephole rewrites of float arithmetic must be forms the rewrite checker can execute; a guarded algebraic identity is reported (PEEP-SOUND)."
_C33_WAS_NA = "unit inference (char index vs byte offset vs token index) over lexer/parser/diagnostics needs the type-resolved MIR engine with per-field def-use; that engine was not completed in the time available, and no sound syntactic proxy was found (a name-based one would alarm on behaviour-preserving edits)"

for _p in []:
    NOT_APPLICABLE.setdefault(_p, PENDING)

CLAIMS["C33"] = {
    "text": "Decides the unit clause (ranges start and end on character boundaries of the file they concern, also after non-ASCII text): the lexer counts chars, while the line table, the diagnostics renderer and the end-of-file token count bytes of the source; every span is converted through a len_utf8 prefix table where tokens leave the lexer (both ends), and error spans created inside the lexer are converted to file byte offsets as well (UNITS). Sites and units are read from the code on every run (Vec<char> in Lexer, match_indices in line_starts, source.len() for file_len).",
    "note": "That a range covers exactly the token or construct the message talks about is not decided; positions derived after parsing (Location arithmetic in parse.rs) are assumed to stay within the unit they were given.",
}
CLAIMS["C32"]["text"] += " Positions have one unit from lexer to line table (UNITS)."

NOT_APPLICABLE.pop("C30", None)
CLAIMS["C30"] = {
    "text": "Decides three structural clauses of the numeric half: every conversion of a literal's spelling in the parser (`parse::<i64>` / `parse::<f64>`, expression and pattern positions, plain and negated) is the scrutinee of a match whose Err arm returns or records a diagnostic - none is unwrapped; a negated literal is parsed as one spelling with its sign (so the minimum integer is writable) and never negated after parsing; the lexer appends exactly sign, digits and decimal point to the spelling and drops `_` separators (LIT-RANGE).",
    "note": "That the spelling denotes the intended value is std's str::parse; string literals (escapes, indentation stripping) are not decided: their denotation is character-level behaviour on every string.",
}

NOT_APPLICABLE.pop("C35", None)
CLAIMS["C35"] = {
    "text": "Decides the same-source clause: go-to-definition looks the identifier found under the cursor up in ctx.resolution_map by node id - the table the checker and the generator read, filled by the resolver whose scoping is decided under C21 - and returns declaration_location of that declaration, which for every declaration kind with a source position is the declaration's own name node; hover returns ctx.solution_of_node of the innermost node at the offset (LSP-SOURCE). The offset searches reach every expr/stmt/arm/pattern child of every AST variant, so every identifier occurrence can be found (VISIT-COMPLETE-LSP).",
    "note": "That the offset search picks the right node among overlapping source ranges is a relation between run-time ranges and is not decided.",
}

CLAIMS["C27"]["text"] += " The free-list link of a vacant slot is read before the slot is linked into its bucket (CHAIN-WALK)."
CLAIMS["C29"]["text"] += " The expression loop looks for operators on the same line only, so a newline ends an expression like `;` or `,` (NEWLINE-ENDS-EXPR)."
CLAIMS["C31"]["text"] += " Operators are not sought across newlines (NEWLINE-ENDS-EXPR)."
CLAIMS["C37"]["text"] += " No reallocating method is applied to a buffer of any IdSet value, including a copy under construction (OWN-IDSET)."
for _c in ("C04", "C34"):
    CLAIMS[_c]["text"] += " The diagnostic renderer's diverging arms are unreachable behind an earlier returning guard (DIAG-TOTAL)."
CLAIMS["C32"]["text"] += " The current file and line are set unconditionally for every translated node (LOC-DISCIPLINE)."
for _c in ("C28", "C24"):
    CLAIMS[_c]["text"] += " Tuple implementation headers of the prelude name each component's type variable once (IMPL-HEADER)."

# ---- third seeding round and the repairs that followed
for _c in ("C01", "C03"):
    CLAIMS[_c]["text"] += " The wrapper generated for a builtin used as a function value reloads as many arguments as the builtin's checker type has parameters, and the instruction it lowers to takes that many values (INTRINSIC-ARITY)."
for _c in ("C04", "C34"):
    CLAIMS[_c]["text"] += " A table subscripted with a recorded span endpoint goes through a clamp or a range test (SPAN-SUBSCRIPT); a table of the checker's context that is read as partial somewhere is not subscripted elsewhere (MAP-SUBSCRIPT)."
for _c in ("C03", "C04", "C12"):
    CLAIMS[_c]["text"] += " A yes/no verdict computed in a loop over several requirements is joined, never overwritten per element (LOOP-VERDICT)."
for _c in ("C11", "C10", "C15"):
    CLAIMS[_c]["text"] += " An arm that records a runtime error returns false at once, with no push or store on that path (ERR-STOPS)."
for _c in ("C14", "C12"):
    CLAIMS[_c]["text"] += " The set recording which or-alternative was taken outlives the loop that emits one label per alternative, in the comparison pass and in the binding pass (OR-DECISIONS)."
for _c in ("C05", "C02"):
    CLAIMS[_c]["text"] += " The assembler passes register operands to the VM instruction in the order of the assembly instruction (ASM-TOTAL)."
for _c in ("C03", "C01"):
    CLAIMS[_c]["text"] += " Every non-error path of the expression checker reconciles the node's type with the expected type (ANA-ON-SUCCESS), and a name that resolves to a declaration without a value is reported rather than left untyped (DECL-VALUE)."
for _c in ("C01", "C12"):
    CLAIMS[_c]["text"] += " Patterns that bind without testing (`let`, `for`) are handed to the usefulness analysis (BINDING-PAT-TOTAL)."
CLAIMS["C21"]["text"] += " Every statement nested in an expression or statement is resolved in a scope created inside that construct; alternative branches do not share one (SCOPE)."

# ---- fourth seeding round
CLAIMS["C09"]["text"] += " The ChannelWrite arm queues its value on every path (CH-QUEUE)."
for _c in ("C11", "C02", "C01"):
    CLAIMS[_c]["text"] += " The last-statement flag handed to the statement lowering is computed over the sequence being lowered, with no element skipped inside the loop (LAST-FLAG)."
for _c in ("C13", "C12", "C04"):
    CLAIMS[_c]["text"] += " The substitution that instantiates declared types recurses into every composite type unconditionally (SUBST-DEEP)."
for _c in ("C16", "C15", "C05"):
    CLAIMS[_c]["text"] += " Float division reports division by zero exactly for a zero divisor: the guard is evaluated over representative divisors (FLOAT-DIV-ZERO)."
for _c in ("C05", "C15", "C16"):
    CLAIMS[_c]["text"] += " A peephole rewrite never deletes an instruction whose VM arm can record a runtime error unless its replacement records the same one; table-predicate guards on a whole instruction are expanded per listed form (PEEP-SOUND)."
CLAIMS["C07"]["text"] += " A boxed object may be handed back to the allocator directly only if none of its fields owns memory and the layout is that of its type (TAG-DISPATCH)."
for _c in ("C01", "C21"):
    CLAIMS[_c]["text"] += " Builtins that the generator recognises by qualified-name string are recognised only for prelude declarations (BUILTIN-IDENTITY)."

# ---- fifth seeding round
CLAIMS["C33"]["text"] += " A position handed to a lexer helper as the base of its error spans is a byte offset at every call site, and an error that carries a bare position carries the cursor converted to bytes (UNITS)."
CLAIMS["C18"]["text"] += " Named arguments on a callee without a recorded parameter list are refused whenever any argument is named (ARG-MISUSE)."
for _c in ("C19", "C01"):
    CLAIMS[_c]["text"] += " Tuple results of the generator that hold several sets of one type are destructured slot by slot as named (TUPLE-SLOT)."
CLAIMS["C20"]["text"] += " Compound assignment on any other operand type dispatches to the interface method of the corresponding binary operator (PIPE)."
CLAIMS["C21"]["text"] += " A selective import is filtered by its own list, bound by its arm (IMPORT-KINDS)."
for _c in ("C23", "C01"):
    CLAIMS[_c]["text"] += " Try.branch is instantiated from the tried expression's type and Try.from_residual from the enclosing function's return type (TRY-SUBST)."
CLAIMS["C24"]["text"] += " Float equality and ordering use the one total order in the register and the immediate form alike (FLOAT-ORDER, IMM-SIBLING)."
CLAIMS["C26"]["text"] += " The must-use analysis of position parameters accounts for early returns (INDEX-MUST-USE)."

# ---- sixth seeding round
CLAIMS["C28"]["text"] += " A type that reaches an implementation lookup in the generator was read through get_ty(mono, ..) or substituted (MONO-TYPE)."
for _c in ("C03", "C01"):
    CLAIMS[_c]["text"] += " Implementation lookups in the generator use the instance's types (MONO-TYPE)."
CLAIMS["C29"]["text"] += " The search for the end of a block comment starts behind the two characters of the opener (SCAN-TERM)."
for _c in ("C34", "C17", "C04"):
    CLAIMS[_c]["text"] += " No single byte of UTF-8 text is cast to a char (BYTE-AS-CHAR)."
CLAIMS["C36"]["text"] += " Every tag arm of a from_vm that takes a variant apart also takes its payload, placeholder included (MIRROR)."
CLAIMS["C37"]["text"] += " Apart from the capacity test, no method branches on the occupancy of a storage buffer (OWN-IDSET)."
CLAIMS["C38"]["text"] += " In the buffer-switch branch the padding is recomputed after the position reset (ARENA-ALIGN)."

CLAIMS["C35"]["text"] += " The innermost-binding clause: go-to-definition returns what the resolver put in the resolution map, so every construct with a body must resolve its body in a scope of its own (SCOPE, shared with C21); a body resolved in the enclosing scope makes a later use jump to a declaration that is out of scope there."

CLAIMS["C33"]["text"] += " A lexer helper that pushes a token and advances the cursor leaves the cursor exactly at the end of the span it pushed, helpers it calls included, so the characters consumed for a token (digit separators too) are the characters its span covers (SPAN-ADVANCE; decided for the straight-line helpers, today emit and emit_with_skipped)."
CLAIMS["C33"]["note"] = "That a range covers exactly the construct the message talks about is decided only for the token spans pushed by the lexer's straight-line helpers (SPAN-ADVANCE); spans of the string and comment scanners and positions derived after parsing (Location arithmetic in parse.rs) are assumed to stay within the unit and extent they were given."

#!/usr/bin/env python3
"""usage: rule_on.py <root> <RULE>...  -- run rules on a tree and print their findings (debug aid)"""
import sys, os
sys.path.insert(0, os.path.dirname(os.path.dirname(os.path.abspath(__file__))))
from lib import core
import importlib, pkgutil
import rules as _r
for m in pkgutil.iter_modules(_r.__path__):
    importlib.import_module('rules.' + m.name)
root = sys.argv[1]
ctx = core.Ctx(root=root, tier="thorough")
for name in sys.argv[2:]:
    res = core.run_rule(name, ctx)
    print(f"== {name}: obligations={res.obligations} findings={len(res.findings)}")
    for f in res.findings:
        print("  ", f.key, f"{f.file}:{f.line}")
        print("      ", f.msg[:600])
        if f.detail and f.detail.get("tb"):
            print(f.detail["tb"])

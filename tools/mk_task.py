#!/usr/bin/env python3
"""mk_task.py Cnn... : write /tmp/wt-Cnn/TASK.md (the brief for an independent seeding agent: property text only, nothing from /verif)."""
import json, sys
props={json.loads(l)['id']:json.loads(l) for l in open('/verif/properties.jsonl')}
T='''# Task

You are helping test a verification effort for the open-source project anandrav/abra: a small statically typed scripting language written in Rust (hand-written lexer/parser, name resolver, HM-style type inference, pattern exhaustiveness checking, bytecode compiler, peephole optimiser, stack VM with an incremental mark/sweep GC, green threads ("tasks") and channels, host-function bindings, an LSP helper). You have your own scratch git worktree of the repository at {wt}. Work ONLY there; never touch /repo or /verif and do not read anything under /verif.

Here is one semantic property of the system that is supposed to hold for every input / program / schedule:

  **{pid}: {title}**
  {statement}
  (quantified over: {quant})

Files most related to it: {files}

## What to produce

ONE realistic source change to the repository (in {wt}) that BREAKS this property - the kind of regression a maintainer could plausibly introduce (a refactor slip, an off-by-one, a wrong entry in one of many sibling table rows or match arms, a dropped guard, a skipped sub-expression in one visitor, two cooperating sites that each look fine alone) - while

  (a) the workspace still compiles, and
  (b) the existing test suite still passes: `cd {wt} && CARGO_NET_OFFLINE=true cargo test --workspace --no-fail-fast --offline` (240 tests incl. one doctest; 1-3 minutes the first time because your worktree has its own target/ directory).

The breakage must need something SPECIFIC to manifest - an unusual input or value, a particular operand form, a multi-step sequence, a particular interleaving / collection point / step budget, an uncommon construct or combination - not something ordinary use would expose at once (otherwise the existing tests would catch it). Prefer a change in a different place and of a different flavour than the obvious first idea; subtle is good.

Also produce a DEMONSTRATION: a small Abra program (or a shell script running one, or a NEW Rust integration test file) whose observable behaviour is correct WITHOUT your change and wrong WITH it. Build the CLI with `cd {wt} && CARGO_NET_OFFLINE=true cargo build --offline -p abra_cli`; run a program with `{wt}/target/debug/abra --standard-modules {wt}/modules prog.abra` (`-c` only checks, `-a` prints the assembly). NOTE: modules/prelude.abra is compiled into the binary, so rebuild after changing it. Language docs: {wt}/book/src; example programs: {wt}/abra_core/tests/integration/*.rs and {wt}/e2e_tests.

Verify the demonstration both ways yourself. IMPORTANT: do NOT use `git stash` (the stash is shared between worktrees and other agents are working concurrently). Save your change with `git diff > SEED/patch.diff` and toggle it with `git apply -R SEED/patch.diff` / `git apply SEED/patch.diff`, rebuilding each time.

## Deliverables, inside {wt}/SEED/ (create it)

- `patch.diff`: `git diff` of your change to the repository sources only (not the demo files), applicable with `git apply` on the pristine tree
- the demonstration file(s); if it is a single Abra program name it `demo.abra`
- `README.md`: which sites you changed and why the tests still pass; what exact input/sequence is needed to see the breakage; the exact commands you ran and their outputs with and without the change.

{avoid}Keep the change small (a few lines is ideal). Do not edit or delete existing tests. No network is available. Leave the worktree with the change applied. When finished, reply with a short summary: files changed, how it manifests, the command that runs the demo, confirmation that the tests pass with the change and that the demo is wrong with it and right without it. If, while exploring, you notice that the property is ALREADY violated on the pristine tree by some input, mention it briefly at the end (input + observed behaviour).
'''
import glob, os
# usage: mk_task.py [--round N] Cnn...   (round >= 2: worktrees are /tmp/wt<N>-Cnn and the brief lists sites already used by earlier exercises)
args = sys.argv[1:]
rnd = 1
if args and args[0] == '--round':
    rnd = int(args[1]); args = args[2:]
used = sorted(os.path.basename(d.rstrip('/')).split('-', 1)[1].replace('-', ' ') for d in glob.glob('/verif/seeded/*/'))
avoid = ''
if rnd > 1:
    avoid = ('Earlier exercises of this kind already used the following ideas (each is a few words naming the site and the slip). Do NOT repeat any of them or a close variant; pick a different site, ideally a different file or a different mechanism, and a different flavour of slip:\n\n' + '\n'.join('  - ' + u for u in used) + '\n\n')
for pid in args:
    p=props[pid]; wt=f'/tmp/wt-{pid}' if rnd == 1 else f'/tmp/wt{rnd}-{pid}'
    open(f'{wt}/TASK.md','w').write(T.format(wt=wt,pid=pid,title=p['title'],statement=p['statement'],quant=p['quantifier']['text'],files=', '.join(p['anchors']['files']),avoid=avoid))
    print('wrote',f'{wt}/TASK.md')

#!/bin/sh
# usage: confirm_seed.sh <worktree> '<demo command run from the worktree>'
# Confirms a seeded change independently: tests pass WITH the change; demo output with and without it.
wt="$1"; demo="$2"
cd "$wt" || exit 2
export CARGO_NET_OFFLINE=true
mkdir -p SEED/confirm
# make sure exactly the patch is applied to the sources
git checkout -q -- . 2>/dev/null
git apply SEED/patch.diff || { echo "patch does not apply"; exit 2; }
cargo build --offline -p abra_cli >/dev/null 2>&1 || { echo "BUILD FAILED with patch"; exit 2; }
sh -c "$demo" > SEED/confirm/demo_with.txt 2>&1; echo "exit=$?" >> SEED/confirm/demo_with.txt
cargo test --workspace --no-fail-fast --offline > SEED/confirm/tests_with.log 2>&1
grep -E "^test result" SEED/confirm/tests_with.log | awk '{p+=$4; f+=$6} END {print "tests with patch: passed=" p " failed=" f}' > SEED/confirm/tests_with.txt
git apply -R SEED/patch.diff
cargo build --offline -p abra_cli >/dev/null 2>&1 || { echo "BUILD FAILED without patch"; exit 2; }
sh -c "$demo" > SEED/confirm/demo_without.txt 2>&1; echo "exit=$?" >> SEED/confirm/demo_without.txt
cat SEED/confirm/tests_with.txt
if cmp -s SEED/confirm/demo_with.txt SEED/confirm/demo_without.txt; then echo "DEMO DOES NOT DISTINGUISH"; else echo "demo differs with/without the change"; fi

"""Core plumbing: facts loading, findings, rule registry, evidence, known findings."""
import hashlib
import json
import os
import shutil
import subprocess
import sys
import tempfile
import time

VERIF = os.path.dirname(os.path.dirname(os.path.abspath(__file__)))
REPO = os.environ.get("VERIF_REPO", "/repo")
CACHE = os.path.join(VERIF, ".cache")
ABSYN_DIR = os.path.join(VERIF, "engines", "absyn")
ABSYN_BIN = os.path.join(ABSYN_DIR, "target", "release", "absyn")

RUST_ROOTS = ["abra_core/src", "utils/src"]


class Finding:
    def __init__(self, rule, key, file, line, msg, detail=None):
        self.rule = rule
        self.key = key  # stable, no line numbers
        self.file = file
        self.line = line
        self.msg = msg
        self.detail = detail or {}

    def to_json(self):
        return {
            "rule": self.rule,
            "key": self.key,
            "file": self.file,
            "line": self.line,
            "msg": self.msg,
            "detail": self.detail,
        }

    def __repr__(self):
        return f"{self.key} @{self.file}:{self.line} {self.msg}"


class Result:
    """What one rule did on one tree."""

    def __init__(self, rule):
        self.rule = rule
        self.findings = []
        self.obligations = 0
        self.discharged = 0
        self.samples = []
        self.notes = []
        self.instances = {}  # name -> count (for floors / evidence)

    def ob(self, ok, key, file, line, msg, detail=None, sample=None):
        """One obligation; a finding if not ok."""
        self.obligations += 1
        if ok:
            self.discharged += 1
            if sample is not None and len(self.samples) < 6:
                self.samples.append(sample)
        else:
            self.findings.append(Finding(self.rule, f"{self.rule}:{key}", file, line, msg, detail))
        return ok

    def find(self, key, file, line, msg, detail=None):
        self.obligations += 1
        self.findings.append(Finding(self.rule, f"{self.rule}:{key}", file, line, msg, detail))

    def missing(self, anchor, file="", why=""):
        self.obligations += 1
        self.findings.append(
            Finding(self.rule, f"ANCHOR-MISSING:{self.rule}:{anchor}", file, 0, f"anchor not found: {anchor} {why}".strip())
        )

    def count(self, name, n, floor=None, file=""):
        self.instances[name] = n
        if floor is not None and not getattr(self, "fixture", False):
            self.obligations += 1
            if n < floor:
                self.findings.append(
                    Finding(
                        self.rule,
                        f"ANCHOR-MISSING:{self.rule}:floor:{name}",
                        file,
                        0,
                        f"{name}: {n} instances found, floor (hand-confirmed on the pinned tree) is {floor}",
                    )
                )
            else:
                self.discharged += 1


def ensure_absyn():
    if os.path.exists(ABSYN_BIN):
        src_m = max(
            os.path.getmtime(os.path.join(ABSYN_DIR, "src", "main.rs")),
            os.path.getmtime(os.path.join(ABSYN_DIR, "Cargo.toml")),
        )
        if os.path.getmtime(ABSYN_BIN) >= src_m:
            return
    env = dict(os.environ, CARGO_NET_OFFLINE="true")
    p = subprocess.run(
        ["cargo", "build", "--release", "--offline"], cwd=ABSYN_DIR, env=env, capture_output=True, text=True
    )
    if p.returncode != 0:
        sys.stderr.write(p.stdout + p.stderr)
        raise SystemExit("absyn build failed")


def run_absyn(paths):
    ensure_absyn()
    os.makedirs(CACHE, exist_ok=True)
    fd, out = tempfile.mkstemp(suffix=".json", dir=CACHE)
    os.close(fd)
    try:
        p = subprocess.run([ABSYN_BIN, out] + paths, capture_output=True, text=True)
        if p.returncode != 0:
            raise SystemExit("absyn failed: " + p.stderr)
        with open(out) as f:
            return json.load(f)
    finally:
        os.unlink(out)


class Ctx:
    """A tree under analysis (the repo, a fixture dir, or a mutated scratch copy)."""

    def __init__(self, root=REPO, tier="quick", fixture=False):
        self.root = root
        self.tier = tier
        self.fixture = fixture
        self._syn = None
        self._abra = {}
        self._mir = None
        self._text = {}

    # ---- Rust syntax facts
    @property
    def syn(self):
        if self._syn is None:
            roots = [os.path.join(self.root, r) for r in RUST_ROOTS if os.path.exists(os.path.join(self.root, r))]
            d = run_absyn(roots)
            files = {}
            for k, v in d["files"].items():
                rel = os.path.relpath(k, self.root)
                files[rel] = v
            self._syn = {"files": files, "errors": d["errors"]}
            self._inl_done = set()
        return self._syn

    def file_items(self, rel):
        f = self.syn["files"].get(rel)
        if f is None:
            return None
        if rel not in self._inl_done:
            # call-site expansions (lib/inline.py), attached on first use of the file
            from . import inline

            self._inl_done.add(rel)
            inline.attach({"files": {rel: f}})
        return f["items"]

    def text(self, rel):
        if rel not in self._text:
            p = os.path.join(self.root, rel)
            try:
                with open(p, encoding="utf-8") as f:
                    self._text[rel] = f.read()
            except OSError:
                self._text[rel] = None
        return self._text[rel]

    def source_hash(self):
        h = hashlib.sha256()
        for r in RUST_ROOTS + ["modules", "book/src/language_reference", "Cargo.toml", "Cargo.lock", "abra_core/Cargo.toml", "utils/Cargo.toml"]:
            p = os.path.join(self.root, r)
            if os.path.isfile(p):
                h.update(p.encode())
                h.update(open(p, "rb").read())
            else:
                for dp, dn, fn in sorted(os.walk(p)):
                    dn.sort()
                    if "rust_project" in dp or "/target" in dp:
                        continue
                    for f in sorted(fn):
                        if f.endswith((".rs", ".abra", ".md", ".toml", ".pest")):
                            fp = os.path.join(dp, f)
                            h.update(fp.encode())
                            h.update(open(fp, "rb").read())
        return h.hexdigest()[:16]


# ---------------------------------------------------------------- registry

RULES = {}  # name -> dict(fn, props, fixture, doc)


def rule(name, props, doc=""):
    def deco(fn):
        RULES[name] = {"fn": fn, "props": props, "doc": doc or (fn.__doc__ or "").strip(), "name": name}
        return fn

    return deco


def run_rule(name, ctx):
    r = Result(name)
    r.fixture = ctx.fixture
    try:
        RULES[name]["fn"](ctx, r)
    except Exception as e:  # fail closed
        import traceback

        tb = traceback.format_exc()
        r.findings.append(
            Finding(name, f"ANCHOR-MISSING:{name}:analysis-exception:{type(e).__name__}", "", 0, f"rule crashed: {e}", {"tb": tb})
        )
        r.obligations += 1
    return r


# ---------------------------------------------------------------- scratch trees for controls


class Scratch:
    """A scratch copy of selected repo files (outside /repo and /verif), removed on exit."""

    def __init__(self, src_root=REPO, rels=None):
        self.src_root = src_root
        self.rels = rels
        self.dir = None

    def __enter__(self):
        self.dir = tempfile.mkdtemp(prefix="abra-verif-scratch-")
        rels = self.rels or (RUST_ROOTS + ["modules/prelude.abra", "modules/core", "book/src/language_reference"])
        for rel in rels:
            s = os.path.join(self.src_root, rel)
            d = os.path.join(self.dir, rel)
            if os.path.isdir(s):
                shutil.copytree(s, d, ignore=shutil.ignore_patterns("rust_project", "target"), dirs_exist_ok=True)
            elif os.path.exists(s):
                os.makedirs(os.path.dirname(d), exist_ok=True)
                shutil.copy(s, d)
        return self

    def __exit__(self, *a):
        shutil.rmtree(self.dir, ignore_errors=True)

    def replace(self, rel, old, new, count=1):
        p = os.path.join(self.dir, rel)
        s = open(p, encoding="utf-8").read()
        if s.count(old) < 1:
            return False
        s = s.replace(old, new, count)
        open(p, "w", encoding="utf-8").write(s)
        return True

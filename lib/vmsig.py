"""Arm signatures of VmGreenThread::step (DESIGN 3.1): symbolic, per-arm, path-annotated event lists.

Symbolic values are nested tuples:
  ('opnd', pos, acc)      operand named by the arm pattern's binding at position pos, read from the stack / a register
  ('imm', pos, table)     operand named by binding pos, read from self.shared.<table>
  ('instr', pos, name)    the instruction immediate itself (u16/u32 payload of the instruction)
  ('stk', n)              n-th anonymous stack access (pop/top) of this arm
  ('call', m, recv, args) method call; ('fn', path, args) function call
  ('bin', op, a, b) ('un', op, a) ('cast', ty, a) ('idx', base, i) ('field', base, name) ('self', name)
  ('some', x)             payload of `let Some(c) = x else {..}` / `Some(c) => ..`
  ('lit', text) ('unk', text)
"""
from . import synq as q

STACK_READERS = {"load_offset_or_top"}
POPPERS = {"pop": None, "pop_bool": "bool", "pop_int": "int", "pop_float": "float"}
ACCESSORS = {
    "get_int": "int",
    "get_float": "float",
    "get_bool": "bool",
    "get_addr": "addr",
    "view_string": "string",
    "get_struct": "struct",
    "get_struct_mut": "struct",
    "get_array": "array",
    "get_array_mut": "array",
    "get_variant": "variant",
    "get_channel": "channel",
    "get_channel_mut": "channel",
}
PRIMS = (
    set(STACK_READERS)
    | set(POPPERS)
    | {"push", "top", "set_top", "pop_n", "load_offset", "store_offset", "store_offset_or_top", "make_error", "fail",
       "write_barrier", "push_int", "push_bool", "push_float"}
)


class Ev:
    __slots__ = ("kind", "data", "conds", "line")

    def __init__(self, kind, data, conds, line):
        self.kind = kind
        self.data = data
        self.conds = tuple(conds)
        self.line = line

    def __repr__(self):
        return f"Ev({self.kind}, {self.data}, conds={len(self.conds)})"


def sshow(s):
    """Render a symbolic value."""
    if not isinstance(s, tuple):
        return str(s)
    t = s[0]
    if t == "text":
        return repr(s[1])
    if t == "opnd":
        return f"P{s[1]}" + (f":{s[2]}" if s[2] else "")
    if t == "imm":
        return f"P{s[1]}" + (":int" if "int" in s[2] else ":float" if "float" in s[2] else ":" + s[2])
    if t == "instr":
        return f"I{s[1]}"
    if t == "stk":
        return f"S{s[1]}" + (f":{s[2]}" if len(s) > 2 and s[2] else "")
    if t == "call":
        return f"{sshow(s[2])}.{s[1]}({', '.join(sshow(a) for a in s[3])})"
    if t == "fn":
        return f"{s[1]}({', '.join(sshow(a) for a in s[2])})"
    if t == "bin":
        return f"({sshow(s[2])} {s[1]} {sshow(s[3])})"
    if t == "un":
        return f"{s[1]}{sshow(s[2])}"
    if t == "cast":
        return f"({sshow(s[2])} as {s[1]})"
    if t == "idx":
        return f"{sshow(s[1])}[{sshow(s[2])}]"
    if t == "field":
        return f"{sshow(s[1])}.{s[2]}"
    if t == "self":
        return f"self.{s[1]}"
    if t == "some":
        return f"some({sshow(s[1])})"
    if t == "lit":
        return s[1]
    if t == "acc":
        return f"{sshow(s[2])}:{s[1]}"
    if t == "tuple":
        return "(" + ", ".join(sshow(a) for a in s[1]) + ")"
    if t == "ref":
        return sshow(s[1])
    if t == "unk":
        return f"?{s[1]}"
    if t == "matches":
        return f"({sshow(s[2])} matches {s[1]})"
    parts = []
    for x in s[1:]:
        if isinstance(x, list):
            parts.append("[" + ", ".join(sshow(y) if isinstance(y, tuple) else str(y) for y in x) + "]")
        else:
            parts.append(sshow(x) if isinstance(x, tuple) else str(x))
    return f"{t}<{', '.join(parts)}>"


def subterms(s):
    if isinstance(s, tuple):
        yield s
        for x in s[1:]:
            if isinstance(x, tuple):
                yield from subterms(x)
            elif isinstance(x, list):
                for y in x:
                    yield from subterms(y)


def operand_roots(s):
    """Positions of operands a symbolic value depends on."""
    out = set()
    for t in subterms(s):
        if t[0] in ("opnd", "imm"):
            out.add(t[1])
        elif t[0] == "stk":
            out.add(("stk", t[1]))
    return out


def is_operand_derived(s):
    for t in subterms(s):
        if t[0] in ("opnd", "imm", "stk"):
            return True
        if t[0] == "self" and t[1].startswith("string_operand"):
            return True
    return False


class ArmAnalyzer:
    def __init__(self, helpers, max_inline=2):
        self.helpers = helpers  # name -> fn node (methods of VmGreenThread)
        self.max_inline = max_inline

    def analyze(self, arm):
        pat = arm["pat"]
        self.variant, self.binds = arm_variant(pat)
        self.events = []
        self.stk_n = 0
        self.unknown = []
        env = {}
        for pos, name in enumerate(self.binds):
            if name:
                env[name] = ("instr", pos, name)
        self.returns = []
        self._assume = None
        self._block(arm["body"], env, [], 0)
        return self

    # ------------------------------------------------------------ statements
    def _block(self, body, env, conds, depth):
        """Returns the symbolic value of the block's tail expression (or None).
        `conds` grows along the block: after `if c { return }` the rest runs under !c; after let-else under the match."""
        stmts = q.body_stmts(body)
        conds = list(conds)
        val = None
        for st in stmts:
            k = st["k"]
            self._assume = None
            if k == "Local":
                self._local(st, env, conds, depth)
                val = None
            elif k == "ExprStmt":
                v = self._expr(st["e"], env, conds, depth)
                val = v if not st.get("semi") else None
            else:
                val = None
            if self._assume is not None:
                conds.append(self._assume)
                self._assume = None
        return val

    def _bind_pat(self, pat, val, env):
        k = pat["k"]
        if k == "PIdent":
            env[pat["name"]] = val
        elif k == "PType":
            self._bind_pat(pat["pat"], val, env)
        elif k == "PTupleStruct" and q.last_seg(pat["p"]) == "Some" and len(pat["elems"]) == 1:
            self._bind_pat(pat["elems"][0], ("some", val), env)
        elif k == "PTuple":
            for i, e in enumerate(pat["elems"]):
                if isinstance(val, tuple) and val[0] == "tuple" and i < len(val[1]):
                    self._bind_pat(e, val[1][i], env)
                else:
                    self._bind_pat(e, ("field", val, str(i)), env)
        elif k == "PRef":
            self._bind_pat(pat["pat"], val, env)
        elif k == "PStruct":
            for f in pat["fields"]:
                self._bind_pat(f["pat"], ("field", val, f["name"]), env)
        elif k == "PWild":
            pass
        else:
            for n in q.pat_bindings(pat):
                env[n] = ("unk", "pat:" + n)

    def _local(self, st, env, conds, depth):
        init = st.get("init")
        val = self._expr(init, env, conds, depth) if init is not None else ("unk", "uninit")
        if st.get("else") is not None:
            # let PAT = val else { diverge }
            c = ("matches", q.show_pat(st["pat"]), val)
            self._block(st["else"], dict(env), conds + [(c, False)], depth)
            # after it, the pattern matched
            self._bind_pat(st["pat"], val, env)
            # remaining statements are under cond (c, True) -- recorded implicitly by let-else events
            self._assume = (c, True)
        else:
            self._bind_pat(st["pat"], val, env)
            self._assume = None

    # ------------------------------------------------------------ expressions
    def _expr(self, e, env, conds, depth):
        if e is None:
            return ("lit", "()")
        k = e["k"]
        L = e.get("l", 0)
        if k == "Lit":
            if e.get("t") in ("str", "bytestr", "char", "byte"):
                # a piece of text, not a number: `x != "0.0"` compares spellings and must never be evaluated numerically
                return ("text", e["v"])
            return ("lit", e["v"])
        if k == "Path":
            p = e["p"]
            if p in env:
                return env[p]
            return ("lit", p)
        if k == "Field":
            base = e["e"]
            if base["k"] == "Path" and base["p"] == "self":
                return ("self", e["f"])
            b = self._expr(base, env, conds, depth)
            return ("field", b, e["f"])
        if k == "Ref":
            return self._expr(e["e"], env, conds, depth)
        if k == "Unary":
            v = self._expr(e["e"], env, conds, depth)
            if e["op"] == "*":
                return v
            return ("un", e["op"], v)
        if k == "Cast":
            v = self._expr(e["e"], env, conds, depth)
            s = ("cast", e["ty"], v)
            self.events.append(Ev("cast", (e["ty"], v), conds, L))
            return s
        if k == "Binary":
            op = e["op"]
            if op in ("&&", "||"):
                a = self._expr(e["a"], env, conds, depth)
                # rhs evaluated conditionally
                b = self._expr(e["b"], env, conds + [(a, op == "&&")], depth)
                return ("bin", op, a, b)
            a = self._expr(e["a"], env, conds, depth)
            b = self._expr(e["b"], env, conds, depth)
            if op.endswith("=") and op not in ("==", "!=", "<=", ">="):
                # compound assignment
                tgt = a
                self.events.append(Ev("assign", (tgt, ("bin", op[:-1], a, b), op), conds, L))
                return ("lit", "()")
            s = ("bin", op, a, b)
            self.events.append(Ev("binop", (op, a, b), conds, L))
            return s
        if k == "Assign":
            tgt = self._lvalue(e["a"], env, conds, depth)
            v = self._expr(e["b"], env, conds, depth)
            self.events.append(Ev("assign", (tgt, v, "="), conds, L))
            if e["a"]["k"] == "Path":
                env[e["a"]["p"]] = v
            return ("lit", "()")
        if k == "Index":
            b = self._expr(e["e"], env, conds, depth)
            i = self._expr(e["i"], env, conds, depth)
            # constants table?
            if b[0] == "field" and b[1] == ("self", "shared") and b[2] in ("int_constants", "float_constants", "static_strings"):
                root = self._imm_root(i)
                if root is not None:
                    return ("imm", root, b[2])
            self.events.append(Ev("index", (b, i), conds, L))
            return ("idx", b, i)
        if k == "Tuple":
            return ("tuple", [self._expr(x, env, conds, depth) for x in e["elems"]])
        if k == "Block":
            return self._block(e, dict(env) if False else env, conds, depth)
        if k == "If":
            return self._if(e, env, conds, depth)
        if k == "Match":
            return self._match(e, env, conds, depth)
        if k == "Return":
            v = self._expr(e["e"], env, conds, depth) if e.get("e") else ("lit", "()")
            self.events.append(Ev("ret", v, conds, L))
            return ("lit", "!")
        if k == "Macro":
            args = [self._expr(a, env, conds, depth) for a in (e.get("args") or [])]
            if e["name"] in ("panic", "unreachable", "unimplemented", "todo"):
                self.events.append(Ev("hostpanic", (e["name"], e["tokens"]), conds, L))
                return ("lit", "!")
            if e["name"] == "cfg":
                return ("lit", "cfg!(" + e["tokens"] + ")")
            if e["name"] == "vec":
                return ("fn", "vec!", args)
            return ("fn", e["name"] + "!", args)
        if k == "For":
            it = self._expr(e["e"], env, conds, depth)
            env2 = dict(env)
            self._bind_pat(e["pat"], ("elem", it), env2)
            self._block(e["body"], env2, conds + [(("loop", it), True)], depth)
            return ("lit", "()")
        if k in ("While", "Loop"):
            c = self._expr(e["c"], env, conds, depth) if k == "While" else ("lit", "true")
            self._block(e["body"], dict(env), conds + [(("loop", c), True)], depth)
            return ("lit", "()")
        if k == "Let":
            v = self._expr(e["e"], env, conds, depth)
            self._bind_pat(e["pat"], v, env)
            return ("matches", q.show_pat(e["pat"]), v)
        if k == "Call":
            return self._call(e, env, conds, depth)
        if k == "MethodCall":
            return self._mcall(e, env, conds, depth)
        if k == "Struct":
            fs = [(f["name"], self._expr(f["e"], env, conds, depth)) for f in e["fields"]]
            return ("struct", e["p"], fs)
        if k == "Closure":
            return ("unk", "closure")
        if k == "Range":
            a = self._expr(e["a"], env, conds, depth) if e.get("a") else ("lit", "")
            b = self._expr(e["b"], env, conds, depth) if e.get("b") else ("lit", "")
            return ("range", a, b)
        if k == "Try":
            return self._expr(e["e"], env, conds, depth)
        self.unknown.append((k, L))
        return ("unk", k)

    def _lvalue(self, e, env, conds, depth):
        if e["k"] == "Field" and e["e"]["k"] == "Path" and e["e"]["p"] == "self":
            return ("self", e["f"])
        if e["k"] == "Field":
            return ("field", self._lvalue(e["e"], env, conds, depth), e["f"])
        if e["k"] == "Index":
            b = self._expr(e["e"], env, conds, depth)
            i = self._expr(e["i"], env, conds, depth)
            self.events.append(Ev("index", (b, i, "store"), conds, e["l"]))
            return ("idx", b, i)
        if e["k"] == "Unary" and e["op"] == "*":
            return self._lvalue(e["e"], env, conds, depth)
        if e["k"] == "Path":
            return env.get(e["p"], ("lit", e["p"]))
        return self._expr(e, env, conds, depth)

    def _imm_root(self, i):
        for t in subterms(i):
            if t[0] == "instr":
                return t[1]
        return None

    def _if(self, e, env, conds, depth):
        c = self._expr(e["c"], env, conds, depth)
        env_t = dict(env)
        if e["c"]["k"] == "Let":
            pass
        vt = self._block(e["t"], env_t, conds + [(c, True)], depth)
        ve = None
        if e.get("e") is not None:
            if e["e"]["k"] == "If":
                ve = self._if(e["e"], dict(env), conds + [(c, False)], depth)
            else:
                ve = self._block(e["e"], dict(env), conds + [(c, False)], depth)
        # if the then-branch always returns, the rest of the arm is under not-c
        if block_diverges(e["t"]) and e.get("e") is None:
            self._assume = (c, False)
        else:
            self._assume = None
        return ("ite", c, vt, ve)

    def _match(self, e, env, conds, depth):
        s = self._expr(e["e"], env, conds, depth)
        vals = []
        earlier = []
        for arm in e["arms"]:
            env2 = dict(env)
            c = ("matches", q.show_pat(arm["pat"]), s)
            self._bind_pat(arm["pat"], s, env2)
            if arm["pat"]["k"] in ("PWild", "PIdent") and arm.get("guard") is None:
                # a catch-all arm is taken exactly when none of the arms before it is
                if arm["pat"]["k"] == "PIdent":
                    env2[arm["pat"]["name"]] = s
                acond = conds + [(pc, False) for pc in earlier]
            else:
                acond = conds + [(c, True)]
            earlier.append(c)
            vals.append(self._block(arm["body"], env2, acond, depth))
        return ("match", s, vals, [q.show_pat(arm["pat"]) for arm in e["arms"]])

    def _call(self, e, env, conds, depth):
        f = e["f"]
        args = [self._expr(a, env, conds, depth) for a in e["args"]]
        L = e["l"]
        if f["k"] == "Path":
            p = f["p"]
            if p == "Some" and len(args) == 1:
                return ("Some", args[0])
            if p in env and env[p][0] == "lit" and "::" in env[p][1] and len(args) == 1:
                # a function value handed down through a parameter (`accept = Ordering::is_lt`), applied to its argument
                return ("call", q.last_seg(env[p][1]), args[0], [])
            inl = e.get("inl")
            if isinstance(inl, dict) and not inl.get("closure") and depth < self.max_inline:
                # a small free function of the same file: evaluate its body with the parameters bound
                henv = dict(env)  # the expansion has simple parameters already replaced by the caller's expressions
                for name, a in zip(inl.get("params", []), args):
                    if name:
                        henv[name] = a
                self.events.append(Ev("inline", (inl["callee"],), conds, L))
                before = len(self.events)
                v = self._block(inl["body"], henv, conds, depth + 1)
                for ev in self.events[before:]:
                    if ev.kind == "ret":
                        ev.kind = "helper-ret"
                return v if v is not None else ("lit", "()")
            if p.endswith("::new") or p.endswith("::new_with_data"):
                ty = p.split("::")[0]
                if ty.endswith("Object"):
                    self.events.append(Ev("alloc", (ty, args), conds, L))
                    return ("alloc", ty, args)
            if p in ("Value::from", "Box::new"):
                return args[0] if args else ("unk", p)
            self.events.append(Ev("fncall", (p, args), conds, L))
            return ("fn", p, args)
        fv = self._expr(f, env, conds, depth)
        return ("fn", sshow(fv), args)

    def _mcall(self, e, env, conds, depth):
        m = e["m"]
        recv = e["recv"]
        L = e["l"]
        if recv["k"] == "Path" and recv["p"] == "self":
            if m in STACK_READERS:
                a = self._expr(e["args"][0], env, conds, depth)
                pos = a[1] if a[0] == "instr" else None
                self.events.append(Ev("read", (pos, a), conds, L))
                if pos is None:
                    self.unknown.append(("read-of-non-binding", L))
                    return ("unk", "read")
                return ("opnd", pos, None)
            if m in POPPERS:
                n = self.stk_n
                self.stk_n += 1
                self.events.append(Ev("pop", (n,), conds, L))
                return ("stk", n, POPPERS[m])
            if m == "top":
                n = self.stk_n
                self.stk_n += 1
                self.events.append(Ev("peek", (n,), conds, L))
                return ("stk", n, None)
            if m == "pop_n":
                a = self._expr(e["args"][0], env, conds, depth)
                n = self.stk_n
                self.stk_n += 1
                self.events.append(Ev("popn", (n, a), conds, L))
                return ("stk", n, "vec")
            if m in ("push", "push_int", "push_bool", "push_float"):
                a = self._expr(e["args"][0], env, conds, depth)
                self.events.append(Ev("push", (a,), conds, L))
                return ("lit", "()")
            if m == "set_top":
                a = self._expr(e["args"][0], env, conds, depth)
                self.events.append(Ev("settop", (a,), conds, L))
                return ("lit", "()")
            if m == "store_offset_or_top":
                d = self._expr(e["args"][0], env, conds, depth)
                a = self._expr(e["args"][1], env, conds, depth)
                pos = d[1] if d[0] == "instr" else None
                self.events.append(Ev("store", (pos, a), conds, L))
                return ("lit", "()")
            if m == "store_offset":
                d = self._expr(e["args"][0], env, conds, depth)
                a = self._expr(e["args"][1], env, conds, depth)
                self.events.append(Ev("localstore", (d, a), conds, L))
                return ("lit", "()")
            if m == "load_offset":
                d = self._expr(e["args"][0], env, conds, depth)
                self.events.append(Ev("localread", (d,), conds, L))
                return ("local", d)
            if m == "make_error":
                a = e["args"][0]
                kind = q.show(a)
                if a["k"] == "Path" and a["p"] in env:
                    # the kind was handed down through a helper's parameter
                    v = env[a["p"]]
                    if v[0] == "lit":
                        kind = v[1]
                    elif v[0] == "fn":
                        kind = v[1]
                if a["k"] == "Call":
                    kind = q.show(a["f"])
                    for x in a["args"]:
                        self._expr(x, env, conds, depth)
                return ("error", q.last_seg(kind))
            if m == "fail":
                a = e["args"][0]
                kind = q.show(a["f"]) if a["k"] == "Call" else q.show(a)
                self.events.append(Ev("hostpanic", ("fail", q.last_seg(kind)), conds, L))
                return ("lit", "!")
            if m == "write_barrier":
                p = self._expr(e["args"][0], env, conds, depth)
                v = self._expr(e["args"][1], env, conds, depth)
                self.events.append(Ev("barrier", (p, v), conds, L))
                return ("lit", "()")
            # helper defined on VmGreenThread: inline (bounded)
            if m in self.helpers and depth < self.max_inline:
                h = self.helpers[m]
                args = [self._expr(a, env, conds, depth) for a in e["args"]]
                henv = {}
                params = [p for p in h["params"] if not p.get("self")]
                for p, a in zip(params, args):
                    for n in q.pat_bindings(p["pat"]):
                        henv[n] = a
                self.events.append(Ev("inline", (m,), conds, L))
                before = len(self.events)
                v = self._block(h["body"], henv, conds, depth + 1)
                # a `return x` inside the helper is not an arm return: relabel
                for ev in self.events[before:]:
                    if ev.kind == "ret":
                        ev.kind = "helper-ret"
                return v if v is not None else ("lit", "()")
            args = [self._expr(a, env, conds, depth) for a in e["args"]]
            self.events.append(Ev("selfcall", (m, args), conds, L))
            return ("call", m, ("lit", "self"), args)
        # general method call
        r = self._expr(recv, env, conds, depth)
        if m in ("and_then", "map") and len(e["args"]) == 1 and e["args"][0]["k"] == "Closure" and len(e["args"][0]["params"]) == 1:
            # Option combinator: closure body evaluated with its parameter bound to the payload
            cl = e["args"][0]
            env2 = dict(env)
            self._bind_pat(cl["params"][0], ("some", r), env2)
            body = self._expr(cl["body"], env2, conds + [(("matches", "Some(_)", r), True)], depth)
            return ("andthen" if m == "and_then" else "optmap", r, body)
        if m in ("is_ok_and", "is_some_and") and len(e["args"]) == 1 and e["args"][0]["k"] == "Closure" and len(e["args"][0]["params"]) == 1:
            cl = e["args"][0]
            env2 = dict(env)
            self._bind_pat(cl["params"][0], ("some", r), env2)
            c0 = ("matches", "Some(_)", r)
            body = self._expr(cl["body"], env2, conds + [(c0, True)], depth)
            return ("bin", "&&", c0, body)
        args = [self._expr(a, env, conds, depth) for a in e["args"]]
        args = [a for a in args if a != ("lit", "self")]
        if m in ACCESSORS:
            acc = ACCESSORS[m]
            if r[0] == "opnd" and r[2] is None:
                s = ("opnd", r[1], acc)
            elif r[0] == "stk":
                s = ("stk", r[1], acc)
            else:
                s = ("acc", acc, r)
            self.events.append(Ev("access", (m, r), conds, L))
            return s
        if m in ("into", "clone", "to_owned", "borrow", "as_ref", "as_mut", "copied", "cloned"):
            return r
        if m == "parse" and r[0] in ("opnd", "imm"):
            return ("parsed", r)
        if m in ("unwrap", "expect") and r[0] == "parsed":
            return r[1]
        if m in ("unwrap", "expect"):
            self.events.append(Ev("unwrap", (r,), conds, L))
            return ("some", r)
        s = ("call", m, r, args)
        self.events.append(Ev("mcall", (m, r, args), conds, L))
        return s


def block_diverges(b):
    """Block ends in return / diverging macro on every path (simple structural test)."""
    st = q.body_stmts(b)
    if not st:
        return False
    last = st[-1]
    if last["k"] != "ExprStmt":
        return False
    e = last["e"]
    if e["k"] == "Return" or q.is_diverging_macro(e) or e["k"] in ("Break", "Continue"):
        return True
    if e["k"] == "MethodCall" and e["m"] == "fail":
        return True
    if e["k"] == "If" and e.get("e") is not None:
        return block_diverges(e["t"]) and block_diverges(e["e"])
    if e["k"] == "Block":
        return block_diverges(e)
    return False


def arm_variant(pat):
    """(variant name, [binding names by position])."""
    k = pat["k"]
    if k == "PTupleStruct":
        names = []
        for e in pat["elems"]:
            names.append(e["name"] if e["k"] == "PIdent" else None)
        return q.last_seg(pat["p"]), names
    if k == "PStruct":
        return q.last_seg(pat["p"]), [f["pat"]["name"] if f["pat"]["k"] == "PIdent" else None for f in pat["fields"]]
    if k == "PPath":
        return q.last_seg(pat["p"]), []
    if k == "PIdent":
        return pat["name"], []
    return q.show_pat(pat), []


def step_arms(ctx, r):
    """Return (list of (variant, arm node, ArmAnalyzer)), helpers) for vm.rs step(); report missing anchors."""
    items = ctx.file_items("abra_core/src/vm.rs")
    if items is None:
        r.missing("vm.rs", "abra_core/src/vm.rs")
        return None
    step = q.find_fn(items, "step", impl_ty="VmGreenThread")
    if step is None:
        r.missing("VmGreenThread::step", "abra_core/src/vm.rs")
        return None
    ms = [m for m in q.walk(step["body"]) if m["k"] == "Match" and q.show(m["e"]) == "instr"]
    if not ms:
        # fall back: the match with the most arms whose patterns are Instr::*
        cands = [m for m in q.walk(step["body"]) if m["k"] == "Match" and any(h.startswith("Instr::") for a in m["arms"] for h in q.pat_heads(a["pat"]))]
        cands.sort(key=lambda m: -len(m["arms"]))
        ms = cands[:1]
    if not ms:
        r.missing("step:match-instr", "abra_core/src/vm.rs")
        return None
    helpers = {f["name"]: f for f in q.find_fns(items, impl_ty="VmGreenThread") if f["name"] not in PRIMS and f["name"] != "step"}
    out = []
    for arm in ms[0]["arms"]:
        heads = q.pat_heads(arm["pat"])
        for h in heads:
            an = ArmAnalyzer(helpers).analyze(arm)
            if arm["pat"]["k"] == "POr":
                an.variant = q.last_seg(h)
            out.append((an.variant, arm, an))
    return out, helpers, ms[0]


def ev_syms(ev):
    """All symbolic values mentioned by an event (descending into argument lists)."""
    def go(d):
        if isinstance(d, tuple):
            if d and isinstance(d[0], str) and d[0] in ("opnd", "imm", "instr", "stk", "call", "fn", "bin", "un", "cast", "idx", "field",
                                                       "self", "some", "lit", "unk", "acc", "tuple", "matches", "ite", "match", "Some",
                                                       "alloc", "struct", "elem", "loop", "local", "error", "range"):
                yield d
            else:
                for x in d:
                    yield from go(x)
        elif isinstance(d, list):
            for x in d:
                yield from go(x)
    yield from go(ev.data)


def error_exits(an):
    """[(kind, conds, line)] for `self.error = Some(..make_error(K)..)` followed by return false."""
    out = []
    for ev in an.events:
        if ev.kind == "assign" and ev.data[0] == ("self", "error"):
            kinds = [t[1] for t in subterms(ev.data[1]) if t[0] == "error"]
            out.append((kinds[0] if kinds else "?", ev.conds, ev.line))
    return out


def cond_show(conds):
    return " && ".join(("" if pol else "!") + "(" + sshow(c) + ")" for c, pol in conds)

"""abrasyn: an independent lexer + recursive-descent parser for the Abra subset used by modules/prelude.abra and
modules/core/{map,set}.abra.  Deliberately shares nothing with the repository's parser (a change in parse.rs must not
be able to blind the prelude rules).  Fails closed: anything it cannot parse raises ParseError with file:line.

AST: tuples.
  items: ('fn', name, params, ret, body, attrs) ; ('type', name, tparams, def) ; ('interface', name, members)
         ('implement', iface, type, fns) ; ('extend', type, fns) ; ('use', path, rest) ; ('stmt', stmt)
  params: [(name, type|None, default|None)]
  stmts: ('let', mutable, pat, type, expr) ('assign', op, lhs, rhs) ('expr', e) ('return', e|None) ('break',) ('continue',)
         ('while', cond, block) ('for', pat, iter, block)
  exprs: ('int', v) ('float', s) ('str', s) ('bool', b) ('nil',) ('var', name) ('bin', op, a, b) ('un', op, a)
         ('call', f, args[(name|None, e)]) ('member', e, name) ('dot', name) ('index', e, i) ('unwrap', e) ('try', e)
         ('tuple', [e]) ('array', [e]) ('block', [stmt]) ('if', c, then, else|None) ('match', e, [(pat, body)])
         ('lambda', params, body) ('task', block)
  pats: ('pwild',) ('pbind', name) ('pint', v) ('pfloat', s) ('pstr', s) ('pbool', b) ('pvoid',) ('pvariant', prefix, tag, [pat]|None)
        ('ptuple', [pat]) ('por', a, b)
  every node is followed by a trailing line number: node[-1] is the line.
"""
import re

KEYWORDS = {
    "let", "var", "type", "interface", "outputtype", "implement", "impl", "extend", "use", "as", "except", "fn", "match", "and", "or", "not",
    "break", "continue", "return", "while", "for", "in", "if", "else", "task", "nil", "true", "false",
}

BINPREC = {
    "and": 1, "or": 1, "==": 2, "!=": 2, "..": 3, "<": 5, "<=": 5, ">": 5, ">=": 5, "+": 6, "-": 6, "*": 7, "/": 7, "%": 8, "^": 9,
}
ASSIGN_OPS = {"=", "+=", "-=", "*=", "/=", "%="}

TOKEN_RE = re.compile(
    r"""
    (?P<ws>[ \t\r]+)
  | (?P<nl>\n)
  | (?P<lcomment>//[^\n]*)
  | (?P<bcomment>/\*.*?\*/)
  | (?P<float>\d[\d_]*\.\d[\d_]*)
  | (?P<int>\d[\d_]*)
  | (?P<str>"(?:\\.|[^"\\])*"|'(?:\\.|[^'\\])*')
  | (?P<id>[A-Za-z_][A-Za-z0-9_]*)
  | (?P<op>\.\.|->|==|!=|<=|>=|\+=|-=|\*=|/=|%=|[-+*/%^<>=!?.,:;|\#(){}\[\]])
    """,
    re.X | re.S,
)


class ParseError(Exception):
    pass


class Tok:
    __slots__ = ("k", "v", "line", "nl")

    def __init__(self, k, v, line, nl):
        self.k, self.v, self.line, self.nl = k, v, line, nl

    def __repr__(self):
        return f"{self.k}:{self.v}@{self.line}"


def lex(src, fname="<abra>"):
    toks = []
    pos = 0
    line = 1
    nl = True
    n = len(src)
    while pos < n:
        m = TOKEN_RE.match(src, pos)
        if not m:
            raise ParseError(f"{fname}:{line}: cannot lex {src[pos:pos+20]!r}")
        kind = m.lastgroup
        text = m.group()
        pos = m.end()
        if kind == "ws" or kind == "lcomment":
            continue
        if kind == "nl":
            line += 1
            nl = True
            continue
        if kind == "bcomment":
            line += text.count("\n")
            continue
        if kind == "id":
            k = "kw" if text in KEYWORDS else "id"
            toks.append(Tok(k, text, line, nl))
        elif kind == "str":
            toks.append(Tok("str", unescape(text[1:-1]), line, nl))
            line += text.count("\n")
        else:
            toks.append(Tok(kind, text, line, nl))
        nl = False
    toks.append(Tok("eof", "", line, True))
    return toks


def unescape(s):
    return s.replace("\\n", "\n").replace("\\t", "\t").replace('\\"', '"').replace("\\'", "'").replace("\\\\", "\\")


class Parser:
    def __init__(self, src, fname="<abra>"):
        self.toks = lex(src, fname)
        self.i = 0
        self.fname = fname

    # ---- helpers
    @property
    def t(self):
        return self.toks[self.i]

    def peek(self, k=1):
        return self.toks[min(self.i + k, len(self.toks) - 1)]

    def err(self, msg):
        raise ParseError(f"{self.fname}:{self.t.line}: {msg} (at {self.t.k} {self.t.v!r})")

    def at(self, v, k=None):
        return self.t.v == v and (k is None or self.t.k == k) and self.t.k != "str"

    def at_op(self, v):
        return self.t.k == "op" and self.t.v == v

    def at_kw(self, v):
        return self.t.k == "kw" and self.t.v == v

    def eat(self, v):
        if self.t.k in ("op", "kw") and self.t.v == v:
            self.i += 1
            return True
        return False

    def expect(self, v):
        if not self.eat(v):
            self.err(f"expected `{v}`")

    def ident(self):
        if self.t.k != "id":
            self.err("expected identifier")
        v = self.t.v
        self.i += 1
        return v

    def sep(self):
        """optional separators between list elements / statements"""
        while self.at_op(",") or self.at_op(";"):
            self.i += 1

    # ---- items
    def parse_file(self):
        items = []
        while self.t.k != "eof":
            items.append(self.item())
        return items

    def item(self):
        line = self.t.line
        attrs = []
        while self.at_op("#"):
            self.i += 1
            a = self.ident()
            args = []
            if self.at_op("(") and not self.t.nl:
                self.i += 1
                while not self.at_op(")"):
                    args.append(self.ident())
                    self.sep()
                self.expect(")")
            attrs.append((a, args))
        if self.eat("fn"):
            return self.funcdef(attrs, line)
        if self.eat("type"):
            return self.typedef(line)
        if self.eat("interface"):
            return self.ifacedef(line)
        if self.eat("implement"):
            iface = self.ident()
            self.expect_kw("for")
            ty = self.type_()
            fns = self.fn_block()
            return ("implement", iface, ty, fns, line)
        if self.eat("extend"):
            ty = self.type_()
            fns = self.fn_block()
            return ("extend", ty, fns, line)
        if self.eat("use"):
            path = [self.ident()]
            while self.at_op("/") or self.at_op("."):
                self.i += 1
                path.append(self.ident())
            rest = []
            while not self.t.nl and self.t.k != "eof":
                rest.append(self.t.v)
                self.i += 1
            return ("use", "/".join(path), rest, line)
        return ("stmt", self.stmt(), line)

    def expect_kw(self, v):
        if self.t.k == "kw" and self.t.v == v:
            self.i += 1
        else:
            self.err(f"expected `{v}`")

    def fn_block(self):
        self.expect("{")
        fns = []
        while not self.at_op("}"):
            attrs = []
            line = self.t.line
            self.expect("fn")
            fns.append(self.funcdef(attrs, line))
        self.expect("}")
        return fns

    def funcdef(self, attrs, line):
        name = self.ident()
        self.expect("(")
        params = self.params(")")
        ret = None
        if self.eat("->"):
            ret = self.type_()
        body = None
        if self.at_op("=") :
            self.i += 1
            body = self.expr()
        elif self.at_op("{") and not (self.t.nl and False):
            body = self.block()
        return ("fn", name, params, ret, body, attrs, line)

    def params(self, close):
        out = []
        while not self.at_op(close):
            name = self.ident() if self.t.k == "id" else (self.kw_as_ident())
            ty = None
            default = None
            if self.eat(":"):
                ty = self.type_()
            if self.at_op("="):
                self.i += 1
                default = self.expr()
            out.append((name, ty, default))
            self.sep()
        self.expect(close)
        return out

    def kw_as_ident(self):
        if self.t.k == "kw" and self.t.v in ("self",):
            v = self.t.v
            self.i += 1
            return v
        self.err("expected parameter name")

    def typedef(self, line):
        name = self.ident()
        tparams = []
        if self.at_op("<"):
            self.i += 1
            while not self.at_op(">"):
                tparams.append(self.ident())
                self.sep()
            self.expect(">")
        self.expect("=")
        if self.at_op("{"):
            self.i += 1
            fields = []
            while not self.at_op("}"):
                fname = self.ident()
                self.expect(":")
                fty = self.type_()
                d = None
                if self.at_op("="):
                    self.i += 1
                    d = self.expr()
                fields.append((fname, fty, d))
                self.sep()
            self.expect("}")
            return ("type", name, tparams, ("struct", fields), line)
        variants = []
        self.eat("|")
        while True:
            vname = self.ident()
            vfields = None
            if self.at_op("(") and not self.t.nl:
                self.i += 1
                vfields = []
                while not self.at_op(")"):
                    # named `x: T` or positional `T`
                    if self.t.k == "id" and self.peek().k == "op" and self.peek().v == ":":
                        fname = self.ident()
                        self.expect(":")
                        fty = self.type_()
                        d = None
                        if self.at_op("="):
                            self.i += 1
                            d = self.expr()
                        vfields.append((fname, fty, d))
                    else:
                        vfields.append((None, self.type_(), None))
                    self.sep()
                self.expect(")")
            variants.append((vname, vfields))
            if self.at_op("|"):
                self.i += 1
                continue
            break
        return ("type", name, tparams, ("enum", variants), line)

    def ifacedef(self, line):
        name = self.ident()
        self.expect("{")
        members = []
        while not self.at_op("}"):
            if self.eat("outputtype"):
                n = self.ident()
                cons = []
                while not self.t.nl and not self.at_op("}"):
                    cons.append(self.t.v)
                    self.i += 1
                members.append(("outputtype", n, cons))
            elif self.eat("fn"):
                members.append(self.funcdef([], self.t.line))
            else:
                self.err("interface member")
        self.expect("}")
        return ("interface", name, members, line)

    # ---- types (kept as nested tuples; only lightly interpreted by rules)
    def type_(self):
        t = self.type_atom()
        if self.at_op("->") and not self.t.nl:
            self.i += 1
            r = self.type_()
            return ("tfn", t, r)
        return t

    def type_atom(self):
        if self.at_op("("):
            self.i += 1
            elems = []
            while not self.at_op(")"):
                elems.append(self.type_())
                self.sep()
            self.expect(")")
            return ("ttuple", elems)
        if self.t.k == "kw" and self.t.v == "nil":
            self.i += 1
            return ("tname", "void", [], [])
        if self.t.k not in ("id",):
            self.err("expected type")
        name = self.ident()
        while self.at_op(".") and not self.t.nl and self.peek().k == "id":
            self.i += 1
            name += "." + self.ident()
        args = []
        if self.at_op("<") and not self.t.nl:
            self.i += 1
            while not self.at_op(">"):
                if self.t.k == "id" and self.peek().k == "op" and self.peek().v == "=":
                    n = self.ident()
                    self.expect("=")
                    args.append(("tbind", n, self.type_()))
                else:
                    args.append(self.type_())
                self.sep()
            self.expect(">")
        cons = []
        while (self.t.k == "id" and self.t.v[:1].isupper() and not self.t.nl) or (self.t.k == "kw" and self.t.v == "impl" and not self.t.nl):
            if self.t.k == "kw":
                self.i += 1
                continue
            c = self.ident()
            if self.at_op("<") and not self.t.nl:
                depth = 0
                while True:
                    if self.at_op("<"):
                        depth += 1
                    if self.at_op(">"):
                        depth -= 1
                    self.i += 1
                    if depth == 0:
                        break
            cons.append(c)
        return ("tname", name, args, cons)

    # ---- statements
    def block(self):
        line = self.t.line
        self.expect("{")
        stmts = []
        while not self.at_op("}"):
            stmts.append(self.stmt())
            self.sep()
        self.expect("}")
        return ("block", stmts, line)

    def stmt(self):
        line = self.t.line
        if self.at_kw("let") or self.at_kw("var"):
            mutable = self.t.v == "var"
            self.i += 1
            pat = self.pat()
            ty = None
            if self.eat(":"):
                ty = self.type_()
            self.expect("=")
            e = self.expr()
            return ("let", mutable, pat, ty, e, line)
        if self.eat("return"):
            e = None
            if not self.t.nl and not self.at_op("}"):
                e = self.expr()
            return ("return", e, line)
        if self.eat("break"):
            return ("break", line)
        if self.eat("continue"):
            return ("continue", line)
        if self.eat("while"):
            c = self.expr(no_block=True)
            b = self.block()
            return ("while", c, b, line)
        if self.eat("for"):
            p = self.pat()
            self.expect_kw("in")
            it = self.expr(no_block=True)
            b = self.block()
            return ("for", p, it, b, line)
        e = self.expr()
        if self.t.k == "op" and self.t.v in ASSIGN_OPS and not self.t.nl:
            op = self.t.v
            self.i += 1
            rhs = self.expr()
            return ("assign", op, e, rhs, line)
        return ("expr", e, line)

    # ---- expressions
    def expr(self, bp=0, no_block=False):
        line = self.t.line
        if self.at_kw("not"):
            self.i += 1
            rhs = self.expr(10, no_block)
            lhs = ("un", "not", rhs, line)
        elif self.at_op("-") and not (self.peek().k in ("int", "float")):
            self.i += 1
            rhs = self.expr(6, no_block)
            lhs = ("un", "-", rhs, line)
        else:
            lhs = self.term(no_block)
        while True:
            t = self.t
            if t.nl:
                break
            # postfix
            if t.k == "op" and t.v == "(":
                if 13 <= bp:
                    break
                lhs = ("call", lhs, self.call_args(), line)
                continue
            if t.k == "op" and t.v == "." and self.peek().k in ("id",):
                if 11 <= bp:
                    break
                self.i += 1
                lhs = ("member", lhs, self.ident(), line)
                continue
            if t.k == "op" and t.v == "[":
                if 12 <= bp:
                    break
                self.i += 1
                idx = self.expr()
                self.expect("]")
                lhs = ("index", lhs, idx, line)
                continue
            if t.k == "op" and t.v == "!":
                self.i += 1
                lhs = ("unwrap", lhs, line)
                continue
            if t.k == "op" and t.v == "?":
                self.i += 1
                lhs = ("try", lhs, line)
                continue
            op = t.v if (t.k == "op" or t.k == "kw") else None
            if op in BINPREC:
                p = BINPREC[op]
                if p <= bp:
                    break
                self.i += 1
                rhs = self.expr(p, no_block)
                lhs = ("bin", op, lhs, rhs, line)
                continue
            break
        return lhs

    def call_args(self):
        self.expect("(")
        args = []
        while not self.at_op(")"):
            if self.t.k == "id" and self.peek().k == "op" and self.peek().v == "=" and not (self.peek(2).k == "op" and self.peek(2).v == "="):
                n = self.ident()
                self.expect("=")
                args.append((n, self.expr()))
            else:
                args.append((None, self.expr()))
            self.sep()
        self.expect(")")
        return args

    def try_lambda(self):
        """`x -> e` or `(a: T, b) -> e`"""
        save = self.i
        line = self.t.line
        try:
            if self.at_op("("):
                self.i += 1
                params = self.params(")")
            elif self.t.k == "id":
                params = [(self.ident(), None, None)]
            else:
                return None
            if self.at_op("->") and not self.t.nl:
                self.i += 1
                body = self.expr()
                return ("lambda", params, body, line)
        except ParseError:
            pass
        self.i = save
        return None

    def term(self, no_block=False):
        t = self.t
        line = t.line
        if t.k == "int":
            self.i += 1
            return ("int", int(t.v.replace("_", "")), line)
        if t.k == "float":
            self.i += 1
            return ("float", t.v, line)
        if t.k == "str":
            self.i += 1
            return ("str", t.v, line)
        if t.k == "op" and t.v == "-" and self.peek().k in ("int", "float"):
            self.i += 1
            n = self.t
            self.i += 1
            return ("int", -int(n.v.replace("_", "")), line) if n.k == "int" else ("float", "-" + n.v, line)
        if t.k == "kw":
            if t.v in ("true", "false"):
                self.i += 1
                return ("bool", t.v == "true", line)
            if t.v == "nil":
                self.i += 1
                return ("nil", line)
            if t.v == "if":
                return self.if_()
            if t.v == "match":
                self.i += 1
                scrut = self.expr(no_block=True)
                self.expect("{")
                arms = []
                while not self.at_op("}"):
                    p = self.pat()
                    self.expect("->")
                    body = self.expr()
                    arms.append((p, body))
                    self.sep()
                self.expect("}")
                return ("match", scrut, arms, line)
            if t.v == "task":
                self.i += 1
                return ("task", self.block(), line)
            self.err("unexpected keyword in expression")
        if t.k == "id":
            lam = self.try_lambda() if (self.peek().k == "op" and self.peek().v == "->") else None
            if lam:
                return lam
            self.i += 1
            return ("var", t.v, line)
        if t.k == "op":
            if t.v == "(":
                lam = self.try_lambda()
                if lam:
                    return lam
                self.i += 1
                elems = []
                trailing = False
                while not self.at_op(")"):
                    elems.append(self.expr())
                    trailing = self.at_op(",")
                    self.sep()
                self.expect(")")
                if len(elems) == 1 and not trailing:
                    return elems[0]
                return ("tuple", elems, line)
            if t.v == "[":
                self.i += 1
                elems = []
                while not self.at_op("]"):
                    elems.append(self.expr())
                    self.sep()
                self.expect("]")
                return ("array", elems, line)
            if t.v == "{" and not no_block:
                return self.block()
            if t.v == "." and self.peek().k == "id":
                self.i += 1
                return ("dot", self.ident(), line)
        self.err("expected expression")

    def if_(self):
        line = self.t.line
        self.expect_kw("if")
        c = self.expr(no_block=True)
        if self.at_op("{"):
            th = self.block()
        else:
            s = self.stmt()
            th = ("block", [s], line)
        el = None
        if self.at_kw("else"):
            self.i += 1
            if self.at_kw("if"):
                el = ("block", [("expr", self.if_(), line)], line)
            elif self.at_op("{"):
                el = self.block()
            else:
                el = ("block", [self.stmt()], line)
        return ("if", c, th, el, line)

    # ---- patterns
    def pat(self):
        p = self.pat_atom()
        while self.at_op("|") and not self.t.nl:
            self.i += 1
            p = ("por", p, self.pat_atom())
        return p

    def pat_atom(self):
        t = self.t
        if t.k == "id":
            if t.v == "_":
                self.i += 1
                return ("pwild",)
            name = self.ident()
            prefix = []
            while self.at_op(".") and not self.t.nl:
                self.i += 1
                prefix.append(name)
                name = self.ident()
            if prefix or (self.at_op("(") and not self.t.nl):
                sub = self.pat_args()
                return ("pvariant", prefix, name, sub)
            return ("pbind", name)
        if t.k == "op" and t.v == ".":
            self.i += 1
            tag = self.ident()
            sub = self.pat_args()
            return ("pvariant", [], tag, sub)
        if t.k == "op" and t.v == "(":
            self.i += 1
            elems = []
            while not self.at_op(")"):
                elems.append(self.pat())
                self.sep()
            self.expect(")")
            if not elems:
                return ("pvoid",)
            if len(elems) == 1:
                return elems[0]
            return ("ptuple", elems)
        if t.k == "int":
            self.i += 1
            return ("pint", int(t.v))
        if t.k == "op" and t.v == "-" and self.peek().k in ("int", "float"):
            self.i += 2
            return ("pint", -int(self.toks[self.i - 1].v)) if self.toks[self.i - 1].k == "int" else ("pfloat", "-" + self.toks[self.i - 1].v)
        if t.k == "float":
            self.i += 1
            return ("pfloat", t.v)
        if t.k == "str":
            self.i += 1
            return ("pstr", t.v)
        if t.k == "kw" and t.v in ("true", "false"):
            self.i += 1
            return ("pbool", t.v == "true")
        if t.k == "kw" and t.v == "nil":
            self.i += 1
            return ("pvoid",)
        self.err("expected pattern")

    def pat_args(self):
        if self.at_op("(") and not self.t.nl:
            self.i += 1
            sub = []
            while not self.at_op(")"):
                if self.t.k == "id" and self.peek().k == "op" and self.peek().v == "=":
                    n = self.ident()
                    self.expect("=")
                    sub.append(("pnamed", n, self.pat()))
                else:
                    sub.append(self.pat())
                self.sep()
            self.expect(")")
            return sub
        return None


def parse_file(path):
    with open(path, encoding="utf-8") as f:
        src = f.read()
    return Parser(src, path).parse_file()


# ---------------------------------------------------------------- queries


def walk(n):
    if isinstance(n, tuple):
        yield n
        for x in n:
            yield from walk(x)
    elif isinstance(n, list):
        for x in n:
            yield from walk(x)


def show(e):
    if not isinstance(e, tuple):
        return str(e)
    k = e[0]
    if k == "int":
        return str(e[1])
    if k == "float":
        return e[1]
    if k == "str":
        return repr(e[1])
    if k == "bool":
        return "true" if e[1] else "false"
    if k == "nil":
        return "nil"
    if k == "var":
        return e[1]
    if k == "bin":
        return f"({show(e[2])} {e[1]} {show(e[3])})"
    if k == "un":
        return f"({e[1]} {show(e[2])})"
    if k == "call":
        return f"{show(e[1])}({', '.join(show(a[1]) for a in e[2])})"
    if k == "member":
        return f"{show(e[1])}.{e[2]}"
    if k == "dot":
        return "." + e[1]
    if k == "index":
        return f"{show(e[1])}[{show(e[2])}]"
    if k == "unwrap":
        return show(e[1]) + "!"
    if k == "try":
        return show(e[1]) + "?"
    if k == "tuple":
        return "(" + ", ".join(show(x) for x in e[1]) + ")"
    if k == "array":
        return "[" + ", ".join(show(x) for x in e[1]) + "]"
    if k == "if":
        return f"if {show(e[1])} {{..}}"
    if k == "block":
        return "{..}"
    if k == "match":
        return f"match {show(e[1])} {{..}}"
    if k == "lambda":
        return "(..) -> " + show(e[2])
    return k


def type_name(t):
    if t is None:
        return "?"
    if t[0] == "tname":
        s = t[1]
        if t[2]:
            s += "<" + ", ".join(type_name(a) if a[0] != "tbind" else a[1] for a in t[2]) + ">"
        return s
    if t[0] == "ttuple":
        return "(" + ", ".join(type_name(x) for x in t[1]) + ")"
    if t[0] == "tfn":
        return type_name(t[1]) + " -> " + type_name(t[2])
    return "?"


def impls(items, iface):
    """[(type name, {method name: fn item}, item)] for `implement iface for T`."""
    out = []
    for it in items:
        if it[0] == "implement" and it[1] == iface:
            out.append((type_name(it[2]), {f[1]: f for f in it[3]}, it))
    return out


# ---------------------------------------------------------------- canonical value trees


def _subst(n, env):
    """Copy of an AST fragment with `var` nodes naming a key of env replaced by the mapped expression."""
    if isinstance(n, tuple):
        if len(n) >= 2 and n[0] == "var" and n[1] in env:
            return env[n[1]]
        return tuple(_subst(x, env) for x in n)
    if isinstance(n, list):
        return [_subst(x, env) for x in n]
    return n


def _ends_in_return(b):
    return isinstance(b, tuple) and b and b[0] == "block" and b[1] and b[1][-1][0] == "return"


def canon(e, env=None):
    """The value of an expression / function body as one tree: immutable `let x = e` bindings are substituted into what follows,
    `if c { return v }` followed by more statements becomes `if c { v } else { rest }`, `return v` at the end is `v`, and a block
    holding a single expression is that expression.  Statements with effects (loops, assignments, `var`) are kept, in a
    ("seq", stmt, rest) node.  Two bodies that differ only by early-return style or by naming an intermediate value have the
    same canonical tree (up to line numbers; compare with show())."""
    env = env or {}
    if not isinstance(e, tuple) or not e:
        return e
    k = e[0]
    if k == "block":
        return _canon_stmts(e[1], env, e[-1])
    if k == "if":
        return ("if", _subst(e[1], env), canon(e[2], env), canon(e[3], env) if e[3] is not None else None, e[-1])
    return _subst(e, env)


def _canon_stmts(stmts, env, line):
    if not stmts:
        return ("nil", line)
    s, rest = stmts[0], stmts[1:]
    if s[0] == "let" and not s[1] and s[2][0] == "pbind":
        env2 = dict(env)
        env2[s[2][1]] = canon(s[4], env)
        return _canon_stmts(rest, env2, line) if rest else ("nil", line)
    if s[0] == "return":
        return canon(s[1], env) if s[1] is not None else ("nil", line)
    if s[0] == "expr":
        if not rest:
            return canon(s[1], env)
        x = s[1]
        if x[0] == "if" and x[3] is None and _ends_in_return(x[2]):
            return ("if", _subst(x[1], env), canon(x[2], env), _canon_stmts(rest, env, line), x[-1])
        if x[0] == "if" and x[3] is not None and _ends_in_return(x[2]) and _ends_in_return(x[3]):
            return canon(x, env)
    # a name rebound by this statement no longer stands for its earlier expression
    env2 = dict(env)
    if s[0] == "let":
        for p in walk(s[2]):
            if isinstance(p, tuple) and p and p[0] == "pbind":
                env2.pop(p[1], None)
    return ("seq", _subst(s, env), _canon_stmts(rest, env2, line) if rest else ("nil", line), line)


def inline_lets(block):
    """The block with its top-level immutable `let x = e` statements removed and x replaced by e in the statements after them."""
    if not (isinstance(block, tuple) and block and block[0] == "block"):
        return block
    env = {}
    out = []
    for s in block[1]:
        if s[0] == "let" and not s[1] and s[2][0] == "pbind":
            env[s[2][1]] = _subst(s[4], env)
            continue
        out.append(_subst(s, env))
    return ("block", out, block[-1])

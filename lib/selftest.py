"""Mutation self-test: apply a small edit to a scratch copy of the analysed sources (never to /repo), re-run the
rule, and require the expected finding key.  A mutant whose search text is no longer present in the tree is
reported as 'not applicable' (the tree changed), never as an alarm."""
import json
import os
import random

from . import core

MUTANTS = os.path.join(core.VERIF, "selftest", "mutants.json")


def load():
    with open(MUTANTS) as f:
        return json.load(f)


def run_mutant(m, base_keys_cache):
    rels = sorted({e["file"] for e in m["edits"]})
    extra = m.get("needs", [])
    with core.Scratch(rels=list(dict.fromkeys(rels + extra + core.RUST_ROOTS + ["modules/prelude.abra", "modules/core/map.abra", "modules/core/set.abra", "book/src/language_reference/operators.md"]))) as sc:
        for e in m["edits"]:
            if not sc.replace(e["file"], e["old"], e["new"]):
                return "n/a", f"search text not found in {e['file']}"
        ctx = core.Ctx(root=sc.dir, tier="thorough")
        res = core.run_rule(m["rule"], ctx)
        keys = {f.key for f in res.findings}
    base = base_keys_cache.get(m["rule"])
    if base is None:
        base = {f.key for f in core.run_rule(m["rule"], core.Ctx(root=core.REPO, tier="thorough")).findings}
        base_keys_cache[m["rule"]] = base
    new = keys - base
    exp = m["expect"]
    if exp in keys and (exp in new or m.get("allow_preexisting")):
        return "caught", sorted(new)
    if exp in keys:
        return "preexisting", sorted(new)
    return "missed", sorted(new)


def run_for_property(prop, rule_names, seed=0):
    ms = [m for m in load() if m["rule"] in rule_names and (prop in m.get("props", [prop]))]
    random.Random(seed).shuffle(ms)
    cache = {}
    out = {"mutants": len(ms), "caught": 0, "not_applicable": 0, "failures": [], "details": []}
    for m in ms:
        st, info = run_mutant(m, cache)
        out["details"].append({"id": m["id"], "rule": m["rule"], "status": st, "new_findings": info if isinstance(info, list) else [], "what": m.get("what", "")})
        if st == "caught":
            out["caught"] += 1
        elif st in ("n/a", "preexisting"):
            out["not_applicable"] += 1
        else:
            out["failures"].append(f"selftest {m['id']}: mutant not detected by {m['rule']} (expected {m['expect']}, new findings {info})")
    return out


if __name__ == "__main__":
    import sys

    sys.path.insert(0, core.VERIF)
    import importlib
    import pkgutil

    import rules

    for mod in pkgutil.iter_modules(rules.__path__):
        importlib.import_module("rules." + mod.name)
    sel = sys.argv[1:]
    cache = {}
    for m in load():
        if sel and m["rule"] not in sel and m["id"] not in sel:
            continue
        st, info = run_mutant(m, cache)
        print(f"{m['id']:40s} {m['rule']:16s} {st:10s} {info if st != 'caught' else ''}")

"""Model of the Abra AST (ast.rs) and discovery of its visitors."""
from . import synq as q

AST = "abra_core/src/ast.rs"
ENUMS = ["ExprKind", "StmtKind", "PatKind", "ItemKind", "TypeKind"]


def child_cat(ty):
    """Category of AST children a field of this Rust type can contain."""
    t = ty.replace(" ", "")
    cats = []
    if "Rc<Expr>" in t:
        cats.append("expr")
    if "Rc<Stmt>" in t:
        cats.append("stmt")
    if "Rc<Pat>" in t or "PatAnnotated" in t or "PatVariantData" in t or "PatStructFields" in t:
        cats.append("pat")
    if "Rc<MatchArm>" in t:
        cats.append("arm")
    if "FuncCallArg" in t:
        cats.append("expr")
    if "ArgMaybeAnnotated" in t:
        cats.append("arg")
    if "Rc<Type>" in t:
        cats.append("type")
    if "Rc<FuncDef>" in t or "Rc<InterfaceImpl>" in t or "Rc<Extension>" in t:
        cats.append("func")
    return cats


def ast_enums(ctx, r):
    items = ctx.file_items(AST)
    if items is None:
        r.missing("ast.rs")
        return None
    out = {}
    for name in ENUMS:
        e = q.find_enum(items, name)
        if e is None:
            r.missing(f"ast.rs:enum {name}", AST)
            return None
        out[name] = {v["name"]: [(f["name"], f["ty"], child_cat(f["ty"])) for f in v["fields"]] for v in e["variants"]}
    return out


def principal_matches(fn):
    """Matches in fn whose arms are patterns of one AST enum, scrutinising `.kind`."""
    out = []
    for m in q.walk(fn["body"]):
        if m["k"] != "Match":
            continue
        heads = [h for a in m["arms"] for h in q.pat_heads(a["pat"])]
        en = {h.split("::")[0] for h in heads if "::" in h} & set(ENUMS)
        if len(en) != 1:
            continue
        if ".kind" not in q.show(m["e"]):
            continue
        out.append((next(iter(en)), m))
    return out


def arm_variants(arm, enum):
    return [q.last_seg(h) for h in q.pat_heads(arm["pat"]) if h.startswith(enum + "::")]


def field_bindings(pat, variant):
    """For a (possibly or-) pattern, the sub-pattern at each field position of `variant`: list or None ('..' / no fields)."""
    k = pat["k"]
    if k == "POr":
        for c in pat["cases"]:
            fb = field_bindings(c, variant)
            if fb is not None:
                return fb
        return None
    if k in ("PRef", "PType"):
        return field_bindings(pat["pat"], variant)
    if k == "PTupleStruct" and q.last_seg(pat["p"]) == variant:
        return list(pat["elems"])
    if k == "PStruct" and q.last_seg(pat["p"]) == variant:
        return [f["pat"] for f in pat["fields"]] + ([{"k": "PRest"}] if pat["rest"] else [])
    if k == "PPath" and q.last_seg(pat["p"]) == variant:
        return []
    return None


def tainted_idents(body, seeds):
    """Identifiers that (transitively) hold parts of the seed bindings inside an arm body."""
    t = set(seeds)
    changed = True
    while changed:
        changed = False
        for x in q.walk(body):
            k = x["k"]
            new = set()
            if k == "For" and q.idents_in(x["e"]) & t:
                new |= set(q.pat_bindings(x["pat"]))
            elif k == "Local" and x.get("init") is not None and q.idents_in(x["init"]) & t:
                new |= set(q.pat_bindings(x["pat"]))
            elif k == "Let" and q.idents_in(x["e"]) & t:
                new |= set(q.pat_bindings(x["pat"]))
            elif k == "Match" and q.idents_in(x["e"]) & t:
                for a in x["arms"]:
                    new |= set(q.pat_bindings(a["pat"]))
            elif k == "MethodCall" and q.idents_in(x["recv"]) & t:
                for a in x["args"]:
                    if a["k"] == "Closure":
                        for p in a["params"]:
                            new |= set(q.pat_bindings(p))
            if not new <= t:
                t |= new
                changed = True
    return t


def flows_into(body, seeds, callee_pred):
    """Does any call whose callee satisfies callee_pred(name) receive an argument mentioning a tainted identifier?"""
    t = tainted_idents(body, seeds)
    for kind, name, node in q.calls_in(body):
        if not callee_pred(q.last_seg(name)):
            continue
        args = node["args"] + ([node["recv"]] if kind == "method" else [])
        for a in args:
            if q.idents_in(a) & t:
                return True
    return False

"""Call-site expansion: attaches to every call of a same-file helper (free function, method, local closure) a copy of the
callee's body with `self` and simple parameters substituted (`node["inl"]`).  The ordinary walkers ignore it; rules that ask
"does this lowering / allocator / arm do X" use `walk_inl`, which also looks inside the expansions, so that extracting a few
statements into a helper - or hoisting an expression into a closure - does not hide X from them."""
import copy

from . import synq as q

COMMON = {"new", "clone", "push", "pop", "get", "len", "insert", "remove", "iter", "next", "fmt", "from", "into", "default", "eq", "hash", "drop", "as_ref", "unwrap", "contains", "extend", "clear", "is_empty", "map", "filter", "collect"}
MAX_NODES = 900


def _size(n):
    return sum(1 for _ in q.walk(n))


def _subst(node, mapping):
    """Replace Path nodes naming a key of `mapping` by a copy of the mapped expression (in place, on an already copied tree)."""
    if isinstance(node, list):
        for i, x in enumerate(node):
            if isinstance(x, dict) and x.get("k") == "Path" and x.get("p") in mapping:
                node[i] = _copy(mapping[x["p"]])
            else:
                _subst(x, mapping)
    elif isinstance(node, dict):
        for key, v in list(node.items()):
            if key == "inl":
                continue
            if isinstance(v, dict) and v.get("k") == "Path" and v.get("p") in mapping:
                node[key] = _copy(mapping[v["p"]])
            else:
                _subst(v, mapping)


def _copy(n):
    """Deep copy without the expansions already attached inside."""
    if isinstance(n, dict):
        return {k: _copy(v) for k, v in n.items() if k != "inl"}
    if isinstance(n, list):
        return [_copy(x) for x in n]
    return n


def _simple(e):
    while e.get("k") in ("Ref", "Paren", "Unary", "Cast"):
        e = e.get("e") or {}
    return e.get("k") in ("Path", "Lit", "Field") or (e.get("k") == "MethodCall" and e.get("m") in ("clone", "node", "id", "as_ref") and not e.get("args"))


def _owner(path):
    for p in reversed(path):
        if p[0] == "impl":
            return q._ty_base(p[1])
    return ""


class _Fns(dict):
    """name -> function for the names that are unique in the file; `typed[(owner type, name)]` for methods that share a
    name across types (`GcHeap::sweep` / `VmGreenThread::sweep`), resolved from the receiver: `self.m()` is the enclosing
    function's own type, `self.field.m()` the declared type of that field."""

    typed = None
    fields = None


def attach(syn, depth=3):
    for file, fd in syn.get("files", {}).items():
        fns = _Fns()
        fns.typed = {}
        fns.fields = {}
        dup = set()
        for it, path in q.iter_items(fd["items"]):
            if it["k"] == "Fn" and it.get("body") is not None:
                if it["name"] in fns:
                    dup.add(it["name"])
                fns[it["name"]] = it
                fns.typed[(_owner(path), it["name"])] = it
            if it["k"] == "StructDef":
                for fl in it.get("fields", []):
                    fns.fields[(it["name"], fl["name"])] = q._ty_base(fl["ty"]) if hasattr(q, "_ty_base") else fl["ty"]
        for name in dup:
            fns.pop(name, None)
        fns.dup = dup
        for it, path in q.iter_items(fd["items"]):
            if it["k"] == "Fn" and it.get("body") is not None:
                _attach_in(it["body"], fns, {}, depth, {it["name"]}, _owner(path))


def _resolve_method(x, fns, owner):
    """The function a method call refers to: by unique name, or by (receiver type, name) where the receiver's type is evident."""
    m = x["m"]
    if m in COMMON:
        return None, owner
    if m in fns:
        f = fns[m]
        for (o, n), g in (fns.typed or {}).items():
            if g is f:
                return f, o
        return f, owner
    if m in getattr(fns, "dup", ()):
        r = x["recv"]
        while r.get("k") in ("Ref", "Paren", "Unary"):
            r = r.get("e") or {}
        ty = None
        if r.get("k") == "Path" and r.get("p") == "self":
            ty = owner
        elif r.get("k") == "Field" and r["e"].get("k") == "Path" and r["e"].get("p") == "self":
            ty = (fns.fields or {}).get((owner, r["f"]))
        elif r.get("k") == "Field":
            # `vm.heap.m()`: the field name alone, when only one struct has a field of that name
            tys = {t for (st, fl), t in (fns.fields or {}).items() if fl == r["f"]}
            ty = next(iter(tys)) if len(tys) == 1 else None
        if ty and (ty, m) in fns.typed:
            return fns.typed[(ty, m)], ty
    return None, owner


def _closures(body):
    out = {}
    for x in q.walk(body):
        if x["k"] == "Local" and x.get("init") is not None and x["init"]["k"] == "Closure" and x["pat"].get("k") == "PIdent":
            out[x["pat"]["name"]] = x["init"]
    return out


def _attach_in(body, fns, closures, depth, stack, owner=""):
    if depth <= 0:
        return
    closures = dict(closures)
    closures.update(_closures(body))
    for x in list(q.walk(body)):
        k = x["k"]
        callee = None
        params = []
        recv = None
        cbody = None
        if k == "Call" and x["f"]["k"] == "Path":
            name = x["f"]["p"]
            seg = q.last_seg(name)
            if "::" not in name and name in closures:
                c = closures[name]
                callee, cbody = name, c["body"]
                params = [q.pat_bindings(p) for p in c.get("params", [])]
            elif seg not in COMMON and seg not in stack and (seg in fns or ("::" in name and ((owner if name.split("::")[-2] == "Self" else name.split("::")[-2]), seg) in (fns.typed or {}))):
                f = fns[seg] if seg in fns else fns.typed[((owner if name.split("::")[-2] == "Self" else name.split("::")[-2]), seg)]
                callee, cbody = seg, f["body"]
                params = [q.pat_bindings(p["pat"]) for p in f["params"] if not p.get("self")]
        elif k == "MethodCall" and x["m"] not in COMMON and x["m"] not in stack:
            f, callee_owner = _resolve_method(x, fns, owner)
            if f is not None and any(p.get("self") for p in f["params"]):
                callee, cbody, recv = x["m"], f["body"], x["recv"]
                params = [q.pat_bindings(p["pat"]) for p in f["params"] if not p.get("self")]
        if callee is None or cbody is None or _size(cbody) > MAX_NODES:
            continue
        b = _copy(cbody)
        mapping = {}
        if recv is not None:
            mapping["self"] = recv
        for names, arg in zip(params, x["args"]):
            # for the purposes of shape analysis a parameter stands for its argument expression (a compound argument only
            # where the callee mentions the parameter once, so that nothing is duplicated)
            if len(names) == 1 and (_simple(arg) or callee in closures or sum(1 for y in q.walk(cbody) if y["k"] == "Path" and y.get("p") == names[0]) <= 1):
                mapping[names[0]] = arg
        _subst(b, mapping)
        x["inl"] = {"k": "Inl", "callee": callee, "closure": callee in closures and k == "Call" and "::" not in x["f"]["p"], "params": [(n[0] if n else None) for n in params], "body": b, "l": x.get("l", 0)}
        _attach_in(b, fns, closures, depth - 1, stack | {callee}, callee_owner if (k == "MethodCall" and recv is not None) else owner)


def walk_inl(n):
    """Pre-order over all nodes including the expansions attached to calls."""
    stack = [n]
    while stack:
        x = stack.pop()
        if isinstance(x, dict):
            if "k" in x and x["k"] != "Inl":
                yield x
            ch = q.children(x)
            if isinstance(x.get("inl"), dict):
                ch = ch + [x["inl"]["body"]]
            if x.get("k") == "Inl":
                ch = [x["body"]]
            stack.extend(reversed(ch))
        elif isinstance(x, list):
            stack.extend(reversed(x))


def emits_code(inl):
    """Is the expanded callee a lowering helper (it emits instructions or translates sub-expressions itself)?"""
    if inl.get("callee") in ("emit", "translate_expr", "translate_stmt", "get_ty"):
        return False
    return any(x["k"] == "MethodCall" and x["m"] in ("emit", "translate_expr", "translate_stmt") for x in q.walk(inl["body"]))


def materialize(node, closures_only=True, pred=None):
    """A copy of `node` in which every call of a local closure (or, with closures_only=False, of any expanded helper) is
    replaced by a block holding the callee's body with its parameters substituted: rules that interpret a function body
    statement by statement then see `ret.push(Line::Instr { instr: X, .. })` where the source says `emit(X)`."""
    if isinstance(node, list):
        return [materialize(x, closures_only, pred) for x in node]
    if not isinstance(node, dict):
        return node
    inl = node.get("inl")
    take = isinstance(inl, dict) and node.get("k") in ("Call", "MethodCall") and ((pred(inl) if pred is not None else (not closures_only or (node["k"] == "Call" and "::" not in q.show(node["f"]) and inl.get("closure")))))
    if take:
        body = materialize(inl["body"], closures_only, pred)
        if body.get("k") == "Block":
            return body
        return {"k": "Block", "l": node.get("l", 0), "stmts": [{"k": "ExprStmt", "e": body, "semi": False, "l": node.get("l", 0)}]}
    out = {k: (materialize(v, closures_only, pred) if k != "inl" else v) for k, v in node.items()}
    # a condition that became a literal through parameter substitution selects its branch
    if out.get("k") == "If" and isinstance(out.get("c"), dict) and out["c"].get("k") == "Lit" and out["c"].get("t") == "bool":
        if out["c"]["v"] == "true":
            return out["t"]
        return out["e"] if out.get("e") is not None else {"k": "Block", "l": out.get("l", 0), "stmts": []}
    return out

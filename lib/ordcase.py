"""Finite ordering evaluator (DESIGN 3.2).

Conditions in VM arms touch operand values only through comparisons.  For a set of symbolic conditions we
collect the *atoms* (maximal uninterpreted subterms), give each atom a small representative domain that realises
every relative ordering against the other atoms and the constants that appear (0, +-1, the integer limits, the
usize/u32 wrap-around of casts), and evaluate the condition trees exactly on every assignment.  The result is an
exact case table, compared by the rules with a specification table.  An expression form the evaluator does not
interpret raises Unknown, which rules report as ANCHOR-MISSING (never as success).
"""
import itertools
import math

from .vmsig import sshow, subterms

I64_MIN = -(2**63)
I64_MAX = 2**63 - 1


class Unknown(Exception):
    pass


def norm_atom(s):
    txt = sshow(s)
    txt = txt.replace(".as_bytes().len()", ".len()")
    return txt


INTERP = {"bin", "un", "cast", "lit", "matches", "ite", "Some", "some"}


def atom_kind(s):
    """Domain class of an atom."""
    t = s[0]
    txt = norm_atom(s)
    if t in ("opnd", "imm", "stk", "acc"):
        acc = s[2] if t in ("opnd", "stk") else ("int" if t == "imm" and "int" in s[2] else "float" if t == "imm" else s[1])
        if acc == "int":
            return "i64"
        if acc == "float":
            return "f64"
        if acc == "bool":
            return "bool"
        return "opaque"
    if t == "call" and s[1] == "len":
        return "len"
    if t == "call" and s[1] == "capacity":
        return "len"
    if t == "self" and s[1].startswith("string_op_index"):
        return "idx"
    if t == "idx":
        # element of a byte slice
        if "as_bytes" in txt:
            return "byte"
        return "opaque"
    if t == "self":
        return "opaque"
    return "opaque"


DOMAINS = {
    "i64": [I64_MIN, -2, -1, 0, 1, 2, 3, 4, 5, 2**32 + 2, I64_MAX],
    "len": [0, 1, 2, 3, 4],
    "idx": [0, 1, 2, 3, 4, 5],
    "byte": [0, 1, 2],
    "bool": [False, True],
    "f64": [float("-inf"), -1.0, -0.0, 0.0, 1.0, float("inf"), float("nan")],
}


def collect_atoms(conds):
    """conds: iterable of symbolic values. Returns {name: (sym, kind)}."""
    atoms = {}

    def go(s):
        if not isinstance(s, tuple):
            return
        t = s[0]
        if t == "lit":
            return
        if t == "bin":
            go(s[2])
            go(s[3])
            return
        if t == "un":
            go(s[2])
            return
        if t == "cast":
            go(s[2])
            return
        if t in ("andthen", "optmap", "some", "Some"):
            for x in s[1:]:
                go(x)
            return
        if t == "ite":
            for x in s[1:]:
                if x is not None:
                    go(x)
            return
        if t == "match":
            go(s[1])
            for x in s[2]:
                if x is not None:
                    go(x)
            return
        if t == "call" and s[1] == "cmp" and len(s[3]) == 1:
            go(s[2])
            go(s[3][0])
            return
        if t == "fn" and s[1] in TRY_FROM:
            go(s[2][0])
            return
        if t == "call" and s[1] == "ok" and not s[3]:
            go(s[2])
            return
        if t == "matches":
            # (x matches Some(..)) of a checked op: interpreted when x is a checked_* call
            x = s[2]
            if x[0] in ("andthen", "optmap", "ite", "match", "Some") or (x[0] == "call" and x[1] in ("ok", "cmp", "total_cmp")) or (x[0] == "fn" and x[1] in TRY_FROM) or x == ("lit", "None"):
                go(x)
                return
            if x[0] == "call" and x[1].startswith("checked_"):
                go(x[2])
                for a in x[3]:
                    go(a)
                return
            atoms[norm_atom(s)] = (s, "bool")
            return
        if t == "call" and (s[1].startswith("checked_") or s[1] in ("is_lt", "is_le", "is_gt", "is_ge", "is_eq", "is_ne", "total_cmp", "is_empty", "is_none", "is_some", "is_ok", "is_err", "pow", "wrapping_pow")):
            go(s[2])
            for a in s[3]:
                go(a)
            return
        k = atom_kind(s)
        atoms[norm_atom(s)] = (s, k)

    for c in conds:
        go(c)
    return atoms


TRY_FROM = {"u32::try_from": (0, 2**32 - 1), "u16::try_from": (0, 2**16 - 1), "u8::try_from": (0, 255), "usize::try_from": (0, 2**64 - 1),
            "u64::try_from": (0, 2**64 - 1), "i32::try_from": (-(2**31), 2**31 - 1)}


def opt_value(x, env):
    """Evaluate an Option/Result-valued symbolic term: returns (is_some, payload)."""
    t = x[0]
    if t == "fn" and x[1] in TRY_FROM:
        v = evaluate(x[2][0], env)
        lo, hi = TRY_FROM[x[1]]
        return (lo <= v <= hi, v)
    if t == "call" and x[1] == "ok" and not x[3]:
        return opt_value(x[2], env)
    if t == "call" and x[1].startswith("checked_"):
        a = evaluate(x[2], env)
        b = evaluate(x[3][0], env)
        r = checked(x[1], a, b)
        return (r is not None, r)
    if t == "andthen":
        ok, v = opt_value(x[1], env)
        if not ok:
            return (False, None)
        return opt_value(x[2], env)
    if t == "optmap":
        ok, v = opt_value(x[1], env)
        if not ok:
            return (False, None)
        return (True, evaluate(x[2], env))
    if t == "Some":
        return (True, evaluate(x[1], env))
    if x == ("lit", "None"):
        return (False, None)
    if t == "ite":
        c = evaluate(x[1], env)
        br = x[2] if c else x[3]
        if br is None:
            raise Unknown("if without else used as a value")
        return opt_value(br, env)
    if t == "match" and len(x) > 3:
        return opt_value(select_arm(x, env), env)
    raise Unknown("option term " + sshow(x))


def select_arm(x, env):
    """The value of the arm a `match` term takes: scrutinee `a.cmp(b)` against Ordering patterns, or a boolean scrutinee."""
    scrut, vals, pats = x[1], x[2], x[3]
    if scrut[0] == "call" and scrut[1] == "cmp" and len(scrut[3]) == 1:
        a, b = evaluate(scrut[2], env), evaluate(scrut[3][0], env)
        o = "Less" if a < b else ("Greater" if a > b else "Equal")
        for p, v in zip(pats, vals):
            names = [t.strip().split("::")[-1] for t in p.split("|")]
            if o in names or p.strip() == "_":
                return v
        raise Unknown("no arm for ordering " + o)
    if scrut[0] in ("bin", "un", "lit") or True:
        try:
            sv = evaluate(scrut, env)
        except Unknown:
            raise
        for p, v in zip(pats, vals):
            t = p.strip()
            if t == "_" or (isinstance(sv, bool) and t == str(sv).lower()) or (not isinstance(sv, bool) and isinstance(sv, int) and t == str(sv)):
                return v
    raise Unknown("match " + sshow(scrut))


def wrap(v, bits, signed):
    v &= (1 << bits) - 1
    if signed and v >= 1 << (bits - 1):
        v -= 1 << bits
    return v


CASTS = {
    "usize": (64, False), "u64": (64, False), "u32": (32, False), "u16": (16, False), "u8": (8, False),
    "isize": (64, True), "i64": (64, True), "AbraInt": (64, True), "i32": (32, True), "i16": (16, True),
}


def checked(op, a, b):
    """Result of i64::checked_<op>; None on failure."""
    try:
        if op == "checked_add":
            r = a + b
        elif op == "checked_sub":
            r = a - b
        elif op == "checked_mul":
            r = a * b
        elif op == "checked_div":
            if b == 0:
                return None
            r = abs(a) // abs(b) * (1 if (a >= 0) == (b >= 0) else -1)
        elif op == "checked_rem_euclid":
            if b == 0:
                return None
            if a == I64_MIN and b == -1:
                return None  # std: overflow -> None
            r = a % abs(b)
        elif op == "checked_rem":
            if b == 0:
                return None
            if a == I64_MIN and b == -1:
                return None
            r = int(math.fmod(a, b))
        elif op == "checked_pow":
            if b < 0 or b >= 2**32:
                raise Unknown("checked_pow exponent outside u32")
            if abs(a) <= 1:
                r = a**b if b < 1000 else (a ** (b % 2 + 2))
            elif b > 70:
                return None
            else:
                r = a**b
        else:
            raise Unknown(op)
    except OverflowError:
        return None
    if r < I64_MIN or r > I64_MAX:
        return None
    return r


def evaluate(s, env):
    """Evaluate symbolic value under env {atom-name: value}."""
    if not isinstance(s, tuple):
        raise Unknown(str(s))
    t = s[0]
    if t == "lit":
        v = s[1]
        if v in ("true", "false"):
            return v == "true"
        try:
            return int(v.replace("_", ""))
        except ValueError:
            pass
        try:
            return float(v)
        except ValueError:
            raise Unknown("literal " + v)
    if t == "bin":
        op = s[1]
        a = evaluate(s[2], env)
        if op == "&&":
            return bool(a) and bool(evaluate(s[3], env))
        if op == "||":
            return bool(a) or bool(evaluate(s[3], env))
        b = evaluate(s[3], env)
        if op == "==":
            return a == b
        if op == "!=":
            return a != b
        if op == "<":
            return a < b
        if op == "<=":
            return a <= b
        if op == ">":
            return a > b
        if op == ">=":
            return a >= b
        if op == "+":
            return a + b
        if op == "-":
            return a - b
        if op == "*":
            return a * b
        raise Unknown("binop " + op)
    if t == "un":
        v = evaluate(s[2], env)
        if s[1] == "!":
            return not v
        if s[1] == "-":
            return -v
        raise Unknown("unop " + s[1])
    if t == "cast":
        v = evaluate(s[2], env)
        ty = s[1]
        if ty in CASTS and isinstance(v, int) and not isinstance(v, bool):
            return wrap(v, *CASTS[ty])
        if ty in ("f64", "AbraFloat") and isinstance(v, int):
            return float(v)
        raise Unknown("cast " + ty)
    if t == "some":
        ok, v = opt_value(s[1], env)
        if not ok:
            raise Unknown("payload of an absent option")
        return v
    if t == "matches":
        x = s[2]
        pat = s[1]
        if x[0] == "call" and x[1] in ("cmp", "total_cmp"):
            o = evaluate(x, env)
            names = [p_.strip().split("::")[-1] for p_ in pat.split("|")]
            if all(nm in ("Less", "Equal", "Greater") for nm in names):
                return {-1: "Less", 0: "Equal", 1: "Greater"}[o] in names
            if pat.strip() == "_" or pat.strip().isidentifier():
                return True
            raise Unknown("ordering pattern " + pat)
        if x[0] in ("andthen", "optmap", "fn", "Some", "ite", "match") or x == ("lit", "None") or (x[0] == "call" and (x[1].startswith("checked_") or x[1] == "ok")):
            try:
                ok, _ = opt_value(x, env)
            except Unknown:
                ok = None
            if ok is not None:
                if pat.startswith("Some") or pat.startswith("Ok"):
                    return ok
                if pat == "None" or pat.startswith("Err"):
                    return not ok
                raise Unknown("pattern " + pat)
        n = norm_atom(s)
        if n in env:
            return env[n]
        raise Unknown("matches " + n)
    if t == "call":
        m = s[1]
        if m in ("is_lt", "is_le", "is_gt", "is_ge", "is_eq", "is_ne"):
            c = evaluate(s[2], env)
            return {"is_lt": c < 0, "is_le": c <= 0, "is_gt": c > 0, "is_ge": c >= 0, "is_eq": c == 0, "is_ne": c != 0}[m]
        if m == "total_cmp":
            a = evaluate(s[2], env)
            b = evaluate(s[3][0], env)
            ka, kb = total_key(a), total_key(b)
            return (ka > kb) - (ka < kb)
        if m == "cmp" and len(s[3]) == 1:
            a = evaluate(s[2], env)
            b = evaluate(s[3][0], env)
            return (a > b) - (a < b)
        if m in ("is_some", "is_ok"):
            return opt_value(s[2], env)[0]
        if m in ("is_none", "is_err"):
            return not opt_value(s[2], env)[0]
        if m in ("pow", "wrapping_pow"):
            a = evaluate(s[2], env)
            b = evaluate(s[3][0], env)
            return a**b if b < 200 else (a ** (b % 2 + 2) if abs(a) <= 1 else float("inf"))
        if m == "is_empty":
            base = ("call", "len", s[2], [])
            return evaluate(base, env) == 0
    n = norm_atom(s)
    if n in env:
        return env[n]
    raise Unknown("uninterpreted " + n)


def total_key(f):
    import struct

    bits = struct.unpack(">q", struct.pack(">d", f))[0]
    if bits < 0:
        bits ^= (1 << 63) - 1
    return bits


def assignments(atoms, extra_domains=None):
    names = sorted(atoms)
    doms = []
    for n in names:
        k = atoms[n][1]
        if extra_domains and n in extra_domains:
            doms.append(extra_domains[n])
        elif k in DOMAINS:
            doms.append(DOMAINS[k])
        else:
            raise Unknown(f"atom {n} has no finite ordering domain ({k})")
    total = 1
    for d in doms:
        total *= len(d)
    if total > 400000:
        raise Unknown(f"case space too large ({total})")
    for vals in itertools.product(*doms):
        yield dict(zip(names, vals))


def holds(conds, env):
    for c, pol in conds:
        if bool(evaluate(c, env)) != pol:
            return False
    return True

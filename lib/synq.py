"""Queries over absyn's JSON syntax trees."""

CHILD_KEYS = (
    "f", "args", "recv", "e", "i", "a", "b", "c", "t", "arms", "guard", "body", "stmts", "init", "else",
    "elems", "fields", "rest", "len", "item", "items", "pat", "sub", "cases", "params", "variants", "disc",
)


def is_node(x):
    return isinstance(x, dict) and "k" in x


def children(n):
    """Direct child nodes in evaluation/source order."""
    out = []
    if not isinstance(n, dict):
        return out
    k = n.get("k")
    if k == "MethodCall":
        order = ("recv", "args")
    elif k == "Call":
        order = ("f", "args")
    elif k == "If":
        order = ("c", "t", "e")
    elif k == "Match":
        order = ("e", "arms")
    elif k == "Arm":
        order = ("pat", "guard", "body")
    elif k == "Local":
        order = ("pat", "init", "else")
    elif k in ("Binary", "Assign", "Range"):
        order = ("a", "b")
    elif k == "Index":
        order = ("e", "i")
    elif k == "Let":
        order = ("pat", "e")
    elif k == "For":
        order = ("pat", "e", "body")
    elif k == "While":
        order = ("c", "body")
    elif k == "Struct":
        order = ("fields", "rest")
    elif k == "Macro" or k == "PMacro" or k == "ItemMacro":
        order = ("args", "pat", "guard")
    else:
        order = CHILD_KEYS
    for key in order:
        v = n.get(key)
        if v is None:
            continue
        if isinstance(v, dict):
            if "k" in v:
                out.append(v)
            else:
                # struct field {name, e} / {name, pat}
                for kk in ("e", "pat"):
                    if isinstance(v.get(kk), dict):
                        out.append(v[kk])
        elif isinstance(v, list):
            for x in v:
                if isinstance(x, dict):
                    if "k" in x:
                        out.append(x)
                    else:
                        for kk in ("e", "pat", "disc"):
                            if isinstance(x.get(kk), dict):
                                out.append(x[kk])
                        if isinstance(x.get("fields"), list):
                            pass
    return out


def walk(n):
    """Pre-order over all nodes (including n)."""
    stack = [n]
    while stack:
        x = stack.pop()
        if isinstance(x, dict):
            if "k" in x:
                yield x
            ch = children(x)
            stack.extend(reversed(ch))
        elif isinstance(x, list):
            stack.extend(reversed(x))


def walk_post(n):
    """Post-order (evaluation order for calls: receiver, args, then the call)."""
    if isinstance(n, list):
        for x in n:
            yield from walk_post(x)
        return
    if not isinstance(n, dict):
        return
    for c in children(n):
        yield from walk_post(c)
    if "k" in n:
        yield n


def walk_no_closure(n):
    """Pre-order, not descending into closures or nested items."""
    stack = [n]
    while stack:
        x = stack.pop()
        if isinstance(x, dict):
            if "k" in x:
                yield x
                if x["k"] in ("Closure", "ItemStmt") and x is not n:
                    continue
            stack.extend(reversed(children(x)))
        elif isinstance(x, list):
            stack.extend(reversed(x))


# ---------------------------------------------------------------- items


def iter_items(items, path=()):
    """Yield (item, container) for all items, descending into inline mods and impls."""
    for it in items or []:
        yield it, path
        if it["k"] == "Mod" and it.get("items"):
            yield from iter_items(it["items"], path + (("mod", it["name"]),))
        elif it["k"] == "Impl":
            for sub in it["items"]:
                yield sub, path + (("impl", it["self_ty"], it.get("trait")),)
        elif it["k"] == "Trait":
            for sub in it["items"]:
                yield sub, path + (("trait", it["name"]),)


def find_fns(items, name=None, impl_ty=None, trait=None):
    out = []
    for it, path in iter_items(items):
        if it["k"] != "Fn":
            continue
        if name is not None and it["name"] != name:
            continue
        if impl_ty is not None:
            ok = any(p[0] == "impl" and _ty_base(p[1]) == impl_ty for p in path)
            if not ok:
                continue
        if trait is not None:
            ok = any(p[0] == "impl" and p[2] and _ty_base(p[2]) == trait for p in path)
            if not ok:
                continue
        out.append(it)
    return out


def _ty_base(t):
    t = t.split("<")[0].strip()
    return t.split("::")[-1]


def fn_owner(items, fn):
    for it, path in iter_items(items):
        if it is fn:
            for p in reversed(path):
                if p[0] == "impl":
                    return _ty_base(p[1]) + ("" if not p[2] else " as " + _ty_base(p[2]))
            return ""
    return ""


def find_fn(items, name, impl_ty=None, trait=None):
    fs = find_fns(items, name, impl_ty, trait)
    return fs[0] if fs else None


def find_enum(items, name):
    for it, _ in iter_items(items):
        if it["k"] == "Enum" and it["name"] == name:
            return it
    return None


def find_struct(items, name):
    for it, _ in iter_items(items):
        if it["k"] == "StructDef" and it["name"] == name:
            return it
    return None


def find_impls(items, self_ty=None, trait=None):
    out = []
    for it, _ in iter_items(items):
        if it["k"] != "Impl":
            continue
        if self_ty is not None and _ty_base(it["self_ty"]) != self_ty:
            continue
        if trait is not None and (not it.get("trait") or _ty_base(it["trait"]) != trait):
            continue
        if trait is None and False:
            continue
        out.append(it)
    return out


def cfg_feature(attrs):
    """Return feature name if item has cfg(feature = "x"), 'not:x' for cfg(not(feature..))."""
    for a in attrs or []:
        if a.startswith("cfg("):
            return a
    return None


# ---------------------------------------------------------------- expressions


def show(n, depth=0):
    """Canonical one-line rendering."""
    if n is None:
        return ""
    if isinstance(n, list):
        return ", ".join(show(x) for x in n)
    k = n.get("k")
    if k == "Lit":
        if n["t"] == "str":
            return repr(n["v"])
        return n["v"] + n.get("suffix", "")
    if k == "Path":
        return n["p"]
    if k == "Call":
        return f"{show(n['f'])}({show(n['args'])})"
    if k == "MethodCall":
        return f"{show(n['recv'])}.{n['m']}({show(n['args'])})"
    if k == "Field":
        return f"{show(n['e'])}.{n['f']}"
    if k == "Index":
        return f"{show(n['e'])}[{show(n['i'])}]"
    if k == "Binary":
        return f"({show(n['a'])} {n['op']} {show(n['b'])})"
    if k == "Unary":
        return f"{n['op']}{show(n['e'])}"
    if k == "Assign":
        return f"{show(n['a'])} = {show(n['b'])}"
    if k == "Cast":
        return f"({show(n['e'])} as {n['ty']})"
    if k == "Ref":
        return ("&mut " if n["mut"] else "&") + show(n["e"])
    if k == "Macro":
        return f"{n['name']}!({n['tokens']})"
    if k == "Tuple":
        return "(" + show(n["elems"]) + ")"
    if k == "Array":
        return "[" + show(n["elems"]) + "]"
    if k == "Struct":
        return n["p"] + "{" + ", ".join(f"{f['name']}: {show(f['e'])}" for f in n["fields"]) + "}"
    if k == "Try":
        return show(n["e"]) + "?"
    if k == "Return":
        return "return " + show(n["e"])
    if k == "If":
        return f"if {show(n['c'])} {{..}}" + (" else {..}" if n.get("e") else "")
    if k == "Let":
        return f"let {show_pat(n['pat'])} = {show(n['e'])}"
    if k == "Block":
        return "{..}"
    if k == "Match":
        return f"match {show(n['e'])} {{..}}"
    if k == "Closure":
        return "|..| " + show(n["body"])
    if k == "Range":
        return f"{show(n['a'])}..{'=' if n.get('incl') else ''}{show(n['b'])}"
    if k == "Break":
        return "break"
    if k == "Continue":
        return "continue"
    if k and k.startswith("P"):
        return show_pat(n)
    return k or "?"


def show_pat(p):
    if p is None:
        return ""
    k = p["k"]
    if k == "PWild":
        return "_"
    if k == "PRest":
        return ".."
    if k == "PIdent":
        s = ("ref " if p["by_ref"] else "") + ("mut " if p["mut"] else "") + p["name"]
        if p.get("sub"):
            s += " @ " + show_pat(p["sub"])
        return s
    if k == "PPath":
        return p["p"]
    if k == "PTupleStruct":
        return p["p"] + "(" + ", ".join(show_pat(x) for x in p["elems"]) + ")"
    if k == "PStruct":
        return p["p"] + "{" + ", ".join(f"{f['name']}: {show_pat(f['pat'])}" for f in p["fields"]) + (", .." if p["rest"] else "") + "}"
    if k == "PTuple":
        return "(" + ", ".join(show_pat(x) for x in p["elems"]) + ")"
    if k == "POr":
        return " | ".join(show_pat(x) for x in p["cases"])
    if k == "PLit":
        return p["v"]
    if k == "PRef":
        return "&" + show_pat(p["pat"])
    if k == "PType":
        return show_pat(p["pat"])
    if k == "PSlice":
        return "[" + ", ".join(show_pat(x) for x in p["elems"]) + "]"
    return k


def pat_heads(p):
    """Variant paths a pattern matches at top level (through or-patterns / refs / bindings). '_' for catch-all."""
    k = p["k"]
    if k in ("PWild",):
        return ["_"]
    if k == "PIdent":
        if p.get("sub"):
            return pat_heads(p["sub"])
        # an identifier pattern could be a unit variant/const only if uppercase-initial; treat lowercase as binding
        if p["name"][:1].isupper():
            return [p["name"]]
        return ["_"]
    if k in ("PPath", "PTupleStruct", "PStruct"):
        return [p["p"]]
    if k == "POr":
        out = []
        for c in p["cases"]:
            out.extend(pat_heads(c))
        return out
    if k in ("PRef", "PType"):
        return pat_heads(p["pat"])
    if k == "PLit":
        return ["lit:" + p["v"]]
    if k == "PTuple":
        return ["tuple"]
    return ["?" + k]


def pat_bindings(p):
    """All identifiers bound by the pattern."""
    out = []
    for n in walk(p):
        if n["k"] == "PIdent" and not n["name"][:1].isupper():
            out.append(n["name"])
    return out


def last_seg(path):
    return path.split("::")[-1]


def body_stmts(body):
    if body is None:
        return []
    if body["k"] == "Block":
        return body["stmts"]
    return [{"k": "ExprStmt", "l": body["l"], "e": body, "semi": False}]


def is_diverging_macro(n):
    return n.get("k") == "Macro" and n["name"] in ("panic", "unreachable", "unimplemented", "todo")


def only_diverges(body):
    """True if the arm body consists only of a diverging macro (possibly in a block)."""
    if body is None:
        return False
    if is_diverging_macro(body):
        return True
    if body["k"] == "Block":
        st = body["stmts"]
        if len(st) == 1 and st[0]["k"] == "ExprStmt" and is_diverging_macro(st[0]["e"]):
            return True
    return False


def calls_in(n, include_closures=True):
    """Yield (kind, name, node): kind 'method' or 'fn'."""
    it = walk(n) if include_closures else walk_no_closure(n)
    for x in it:
        if x["k"] == "MethodCall":
            yield "method", x["m"], x
        elif x["k"] == "Call" and x["f"]["k"] == "Path":
            yield "fn", x["f"]["p"], x


def idents_in(n):
    out = set()
    for x in walk(n):
        if x["k"] == "Path" and "::" not in x["p"]:
            out.add(x["p"])
    return out


def match_on(fn_or_node, pred):
    """All Match nodes whose scrutinee satisfies pred(show(scrutinee), node)."""
    out = []
    for x in walk(fn_or_node):
        if x["k"] == "Match" and pred(show(x["e"]), x):
            out.append(x)
    return out


def strip_refs(e):
    while e is not None and e.get("k") in ("Ref",) or (e is not None and e.get("k") == "Unary" and e.get("op") == "*"):
        e = e["e"]
    return e


def single_element_test(c):
    """If the condition `c` tests that a collection holds exactly one element (`x.len() == 1`, `1 == x.len()`,
    `let [p] = x.as_slice()`, `let [p] = &x[..]`), the printed collection expression; otherwise None."""
    while c.get("k") == "Paren":
        c = c["e"]
    if c.get("k") == "Binary" and c["op"] == "==":
        for a, b in ((c["a"], c["b"]), (c["b"], c["a"])):
            if a["k"] == "MethodCall" and a["m"] == "len" and b["k"] == "Lit" and str(b.get("v")) == "1":
                return show(strip_refs(a["recv"]))
    if c.get("k") == "Let" and c["pat"].get("k") in ("PSlice", "PRef"):
        p = c["pat"]
        while p.get("k") == "PRef":
            p = p["pat"]
        if p.get("k") == "PSlice" and len(p["elems"]) == 1 and p["elems"][0].get("k") != "PRest":
            e = strip_refs(c["e"])
            if e["k"] == "MethodCall" and e["m"] in ("as_slice", "as_ref", "deref", "iter") :
                e = strip_refs(e["recv"])
            elif e["k"] == "Index":
                e = strip_refs(e["e"])
            return show(e)
    return None


def _diverges(b):
    """Does the block always leave the enclosing function / loop iteration (its last statement is return / break / continue / a diverging macro)?"""
    st = body_stmts(b) if b is not None and b.get("k") == "Block" else ([{"k": "ExprStmt", "e": b}] if b is not None else [])
    if not st:
        return False
    last = st[-1]
    e = last.get("e") if last.get("k") == "ExprStmt" else last
    if e is None:
        return False
    return e.get("k") in ("Return", "Break", "Continue") or is_diverging_macro(e)


def path_conds(body, target):
    """The conditions under which `target` (a node inside `body`) is reached, as [(condition expression, polarity)]: the
    tests of the enclosing `if`s with the branch taken, and the negation of every earlier `if c { return }` guard of the
    blocks on the way.  None when the node is not inside `body`."""
    def contains(n, t):
        return any(x is t for x in walk(n))

    def go(n, acc):
        if n is target:
            return acc
        k = n.get("k")
        if k == "Block":
            cur = list(acc)
            for st in n["stmts"]:
                if contains(st, target):
                    return go(st, cur)
                e = st.get("e") if st.get("k") == "ExprStmt" else st
                if isinstance(e, dict) and e.get("k") == "If":
                    if _diverges(e["t"]) and (e.get("e") is None or not _diverges(e["e"])):
                        cur.append((e["c"], False))
                    elif e.get("e") is not None and _diverges(e["e"]) and not _diverges(e["t"]):
                        cur.append((e["c"], True))
            return None
        if k == "If":
            if contains(n["c"], target):
                return acc
            if contains(n["t"], target):
                return go(n["t"], acc + [(n["c"], True)])
            if n.get("e") is not None and contains(n["e"], target):
                return go(n["e"], acc + [(n["c"], False)])
            return None
        if k == "Match":
            if contains(n["e"], target):
                return acc
            for i, a in enumerate(n["arms"]):
                if not contains(a, target):
                    continue
                cur = list(acc)
                # an arm is reached only if the guards of the earlier arms with the same pattern heads failed
                for b in n["arms"][:i]:
                    if b.get("guard") is not None and set(pat_heads(b["pat"])) == set(pat_heads(a["pat"])):
                        cur.append((b["guard"], False))
                if a.get("guard") is not None:
                    if contains(a["guard"], target):
                        return cur
                    cur.append((a["guard"], True))
                return go(a["body"], cur)
            return None
        for c in children(n):
            if isinstance(c, dict) and contains(c, target):
                return go(c, acc)
            if isinstance(c, list):
                for y in c:
                    if isinstance(y, dict) and contains(y, target):
                        return go(y, acc)
        return None

    return go(body, [])


def cond_atoms(conds):
    """Flatten [(expr, polarity)] into atomic [(expr, polarity)]: `a && b` holding gives both, `a || b` failing gives both
    failing, `!a` flips."""
    out = []

    def add(e, pol):
        while e.get("k") == "Paren":
            e = e["e"]
        if e.get("k") == "Unary" and e.get("op") == "!":
            add(e["e"], not pol)
        elif e.get("k") == "Binary" and e["op"] == "&&" and pol:
            add(e["a"], True)
            add(e["b"], True)
        elif e.get("k") == "Binary" and e["op"] == "||" and not pol:
            add(e["a"], False)
            add(e["b"], False)
        else:
            out.append((e, pol))

    for e, pol in conds:
        add(e, pol)
    return out

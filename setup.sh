#!/bin/sh
# Build the verification engines from files on disk only (offline).
set -e
cd "$(dirname "$0")"
export CARGO_NET_OFFLINE=true
(cd engines/absyn && cargo build --release --offline)
if [ -d engines/mirfacts ]; then
  (cd engines/mirfacts && cargo +nightly build --release --offline)
fi
echo setup ok

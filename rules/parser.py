"""Parser / lexer rules: PREC-TABLE, PRATT, FIRST-SET (C31); SCAN-TERM, SEP (C29)."""
import itertools
import re

from lib import synq as q
from lib.core import rule
from rules.pipe import lexer_table, parser_table

PARSE = "abra_core/src/parse.rs"
LEX = "abra_core/src/parse/lexer.rs"
OPS_MD = "book/src/language_reference/operators.md"

POSTFIX_DOC = {".field": "MemberAccess", "[index]": "IndexAccess", "f(args)": "FuncCall", "!": "Unwrap", "?": "Try"}


def doc_table(ctx, r):
    txt = ctx.text(OPS_MD)
    if txt is None:
        r.missing("operators.md", OPS_MD)
        return None
    rows = {}
    for line in txt.splitlines():
        m = re.match(r"^\|\s*(\d+)\s*\|(.*?)\|(.*?)\|\s*$", line)
        if m:
            level = int(m.group(1))
            ops = re.findall(r"`([^`]+)`", m.group(2))
            rows[level] = (ops, m.group(2).strip(), m.group(3).strip())
    return rows


def precedence_fns(ctx, r):
    items = ctx.file_items(PARSE)
    if items is None:
        r.missing("parse.rs")
        return None
    out = {}
    for impl in q.find_impls(items):
        for f in impl["items"]:
            if f["k"] == "Fn" and f["name"] == "precedence":
                tbl = {}
                for m in q.walk(f["body"]):
                    if m["k"] == "Match":
                        for a in m["arms"]:
                            lvl = q.show(a["body"])
                            for h in q.pat_heads(a["pat"]):
                                if "::" in h:
                                    try:
                                        tbl[q.last_seg(h)] = int(lvl)
                                    except ValueError:
                                        tbl[q.last_seg(h)] = None
                        break
                out[impl["self_ty"]] = tbl
    return out


@rule("PREC-TABLE", ["C31"], "the three precedence() functions equal the table in operators.md, row by row")
def prec_table(ctx, r):
    rows = doc_table(ctx, r)
    fns = precedence_fns(ctx, r)
    if rows is None or fns is None:
        return
    r.count("documented precedence rows", len(rows), 14, OPS_MD)
    r.count("precedence functions", len(fns), 3, PARSE)
    lex = lexer_table(ctx, r)
    lex.update({"and": "And", "or": "Or", "not": "Not"})
    pb = parser_table(ctx, r, "parse_binop", "BinaryOperator")
    pp = parser_table(ctx, r, "parse_prefix_op", "PrefixOp")
    ppost = parser_table(ctx, r, "parse_postfix_op", "PostfixOp")
    binp = fns.get("BinaryOperator", {})
    prep = fns.get("PrefixOp", {})
    postp = fns.get("PostfixOp", {})
    seen_bin = set()
    for level, (ops, raw, desc) in sorted(rows.items()):
        for op in ops:
            key = f"operators.md:level{level}:{op}"
            if op in POSTFIX_DOC:
                v = POSTFIX_DOC[op]
                # the token that starts this postfix form must be parsed as this PostfixOp
                r.ob(postp.get(v) == level, key, PARSE, 0, f"`{op}` is documented at precedence {level}; PostfixOp::{v}.precedence() is {postp.get(v)}", sample=f"{op} ({v}): {level}")
                continue
            if op == "not":
                v = pp.get(lex.get("not"))
                r.ob(v is not None and prep.get(v) == level, key, PARSE, 0, f"`not` is documented at precedence {level}; PrefixOp::{v}.precedence() is {prep.get(v)}", sample=f"not: {level}")
                continue
            tok = lex.get(op)
            v = pb.get(tok) if tok else None
            if v is None:
                r.missing(key + ":chain", PARSE, f"no binary operator for `{op}` (token {tok})")
                continue
            seen_bin.add(v)
            r.ob(binp.get(v) == level, key, PARSE, 0, f"`{op}` is documented at precedence {level}; BinaryOperator::{v}.precedence() is {binp.get(v)}", sample=f"{op} ({v}): {level}")
            if "unary" in raw and op == "-":
                pv = pp.get(lex.get("-"))
                r.ob(pv is not None and prep.get(pv) == level, key + ":unary", PARSE, 0, f"unary `-` is documented at precedence {level}; PrefixOp::{pv}.precedence() is {prep.get(pv)}", sample=f"unary -: {level}")
    # every binary operator the parser knows is documented
    for v, lvl in sorted(binp.items()):
        r.ob(v in seen_bin, f"parse.rs:BinaryOperator::{v}:undocumented", PARSE, 0, f"BinaryOperator::{v} (precedence {lvl}) does not appear in the documented table")
    for v in postp:
        r.ob(v in POSTFIX_DOC.values(), f"parse.rs:PostfixOp::{v}:undocumented", PARSE, 0, f"PostfixOp::{v} does not appear in the documented table")


@rule("PRATT", ["C31"], "the Pratt loop breaks on `precedence <= binding_power` (left associativity) and recurses with the operator's own precedence")
def pratt(ctx, r):
    items = ctx.file_items(PARSE)
    f = q.find_fn(items, "parse_expr_bp") if items else None
    if f is None:
        r.missing("parse_expr_bp", PARSE)
        return
    param = q.pat_bindings([p for p in f["params"] if not p.get("self")][0]["pat"])[0]

    def prec_rel(c, pol):
        """'gt' / 'le' / 'lt' / 'ge' for a comparison of an operator's precedence with the binding power holding (or failing); None otherwise."""
        if c["k"] != "Binary" or c["op"] not in ("<", "<=", ">", ">="):
            return None
        a, b = q.show(c["a"]).replace(" ", ""), q.show(c["b"]).replace(" ", "")
        op = c["op"]
        if b.endswith(".precedence()") and a == param:
            a, b = b, a
            op = {"<": ">", "<=": ">=", ">": "<", ">=": "<="}[op]
        if not (a.endswith(".precedence()") and b == param):
            return None
        if not pol:
            op = {"<": ">=", "<=": ">", ">": "<=", ">=": "<"}[op]
        return {"<": "lt", "<=": "le", ">": "gt", ">=": "ge"}[op]

    # inside the operator loop: leaving it because of an operator happens exactly under precedence <= power, and an operator is
    # consumed (the recursion for its right operand, the postfix handler) exactly under precedence > power - whatever the spelling
    loops = [x for x in q.walk(f["body"]) if x["k"] in ("Loop", "While")]
    lp = loops[0] if loops else None
    breaks, conts = [], []
    if lp is not None:
        for x in q.walk(lp["body"]):
            atoms = None
            if x["k"] == "Break":
                atoms = q.cond_atoms(q.path_conds(lp["body"], x) or [])
                rels = [prec_rel(c_, pol) for c_, pol in atoms]
                rels = [r_ for r_ in rels if r_]
                if rels:
                    breaks.append(rels)
            if x["k"] == "MethodCall" and q.show(x["recv"]) == "self" and (x["m"] == "parse_expr_bp" or "postfix" in x["m"] and x["m"] != "parse_postfix_op"):
                atoms = q.cond_atoms(q.path_conds(lp["body"], x) or [])
                rels = [r_ for r_ in (prec_rel(c_, pol) for c_, pol in atoms) if r_]
                conts.append(rels)
    want = f"(op.precedence()<={param})"
    # two consistent ways to write the loop: stop at `prec <= power` and recurse with `prec`, or stop at `prec < min` and
    # recurse with `prec + 1` (the argument then is the smallest power that may still be consumed)
    form_a = lp is not None and len(breaks) >= 2 and all(b == ["le"] for b in breaks) and len(conts) >= 2 and all(c_ == ["gt"] for c_ in conts)
    form_b = lp is not None and len(breaks) >= 2 and all(b == ["lt"] for b in breaks) and len(conts) >= 2 and all(c_ == ["ge"] for c_ in conts)
    ok = form_a or form_b
    r.ob(ok, "parse.rs:parse_expr_bp:break-condition", PARSE, f["l"],
         f"binary and postfix operators must stop the loop exactly when `op.precedence() <= {param}` (strictly greater continues: left associativity); the loop is left under {breaks} and operators are consumed under {conts}", sample=f"parse_expr_bp: break iff {want}")
    recs = [q.show(x["args"][0]).replace(" ", "") for x in q.walk(f["body"]) if x["k"] == "MethodCall" and x["m"] == "parse_expr_bp"]
    want_rec = {"op.precedence()"} if not form_b else {"op.precedence()+1", "(op.precedence()+1)", "1+op.precedence()"}
    r.ob(len(recs) >= 2 and all(a in want_rec for a in recs), "parse.rs:parse_expr_bp:recursion-power", PARSE, f["l"],
         f"the operand of a binary or prefix operator must be parsed with {'the operator precedence itself' if not form_b else 'the operator precedence plus one (the loop stops below its argument)'}, in the prefix branch as in the binary one; recursion arguments are {recs} - a prefix operator that recurses with its bare precedence in this form swallows the binary operators of its own level (`-a + b` becomes `-(a + b)`)", sample=f"parse_expr_bp: recurses with {recs}")
    # left operand first: BinOp(lhs, op, rhs)
    cons = [x for x in q.walk(f["body"]) if x["k"] == "Call" and q.show(x["f"]) == "ExprKind::BinOp"]
    r.ob(bool(cons) and [q.show(a) for a in cons[0]["args"]] == ["lhs", "op", "rhs"], "parse.rs:parse_expr_bp:operand-order", PARSE, f["l"], "BinOp must be built as (lhs, op, rhs)", sample="BinOp(lhs, op, rhs)")
    e = q.find_fn(items, "parse_expr")
    r.ob(e is not None and any(x["k"] == "MethodCall" and x["m"] == "parse_expr_bp" and q.show(x["args"][0]) == "0" for x in q.walk(e["body"])), "parse.rs:parse_expr:initial-power", PARSE, e["l"] if e else 0, "parse_expr must start with binding power 0")


@rule("FIRST-SET", ["C31"], "no token both starts a prefix operator and starts a term (otherwise grouping depends on look-ahead instead of the table)")
def first_set(ctx, r):
    items = ctx.file_items(PARSE)
    if items is None:
        r.missing("parse.rs")
        return
    pp = parser_table(ctx, r, "parse_prefix_op", "PrefixOp")
    t = q.find_fn(items, "parse_expr_term")
    if t is None:
        r.missing("parse_expr_term", PARSE)
        return
    starts = set()
    for m in q.walk(t["body"]):
        if m["k"] == "Match" and "kind" in q.show(m["e"]):
            for a in m["arms"]:
                for h in q.pat_heads(a["pat"]):
                    if h.startswith("TokenKind::"):
                        starts.add(q.last_seg(h))
            break
    r.count("term-start tokens", len(starts), 10, PARSE)
    r.count("prefix operator tokens", len(pp), 2, PARSE)
    for tok in sorted(pp):
        r.ob(tok not in starts, f"parse.rs:{tok}:prefix-operator-and-term-start", PARSE, t["l"],
             f"token {tok} starts the prefix operator {pp[tok]} (parse_prefix_op) and also a term (parse_expr_term): which one applies is decided by look-ahead, so `-2 % 3` groups as `(-2) % 3` while `-x % 3` groups as `-(x % 3)`",
             sample=f"{tok}: prefix operator only")


def cond_atoms(c, env):
    """Evaluate a loop condition made of `let Some(x) = ..` (true), `a != 'c'`, `a == 'c'`, &&, ||, ! over env {(var, char): bool}."""
    k = c["k"]
    if k == "Let":
        return True
    if k == "Binary" and c["op"] in ("&&", "||"):
        a = cond_atoms(c["a"], env)
        b = cond_atoms(c["b"], env)
        return (a and b) if c["op"] == "&&" else (a or b)
    if k == "Unary" and c["op"] == "!":
        return not cond_atoms(c["e"], env)
    if k == "Binary" and c["op"] in ("==", "!="):
        var = q.show(c["a"])
        ch = c["b"]["v"] if c["b"]["k"] == "Lit" else None
        if ch is None:
            raise ValueError("comparison form")
        v = env[(var, ch)]
        return v if c["op"] == "==" else not v
    raise ValueError(k)


def cond_pairs(c):
    out = []
    for x in q.walk(c):
        if x["k"] == "Binary" and x["op"] in ("==", "!=") and x["b"]["k"] == "Lit" and x["b"].get("t") == "char":
            out.append((q.show(x["a"]), x["b"]["v"]))
    return out


@rule("SCAN-TERM", ["C29"], "comment skipping stops exactly at the terminator: a block comment continues while `*/` does not match at the cursor; a line comment stops before the newline")
def scan_term(ctx, r):
    items = ctx.file_items(LEX)
    if items is None:
        r.missing("lexer.rs")
        return
    slash_arm = None
    for f in q.find_fns(items):
        for m in q.walk(f["body"]):
            if m["k"] == "Match" and "current_char" in q.show(m["e"]):
                for a in m["arms"]:
                    if a["pat"]["k"] == "PLit" and a["pat"]["v"] == "/":
                        slash_arm = a
    if slash_arm is None:
        r.missing("lexer.rs:'/' arm", LEX)
        return
    from lib.inline import materialize

    # the lexer's cursor: the usize field its character table is subscripted with
    POS = "index"
    lx = q.find_struct(items, "Lexer")
    if lx is not None:
        usz = {fl["name"] for fl in lx["fields"] if fl["ty"].strip() == "usize"}
        used = [y["f"] for f_ in q.find_fns(items) if f_.get("body") is not None for x in q.walk(f_["body"]) if x["k"] == "Index" for y in q.walk(x["i"]) if y["k"] == "Field" and y["f"] in usz and q.show(x["i"]).replace(" ", "") in ("self." + y["f"], "lexer." + y["f"])]
        if used:
            POS = max(set(used), key=used.count)
    has_loop = lambda inl: any(y["k"] in ("While", "Loop", "For") for y in q.walk(inl["body"]))  # noqa: E731
    slash_arm = materialize(slash_arm, closures_only=False, pred=has_loop)  # e.g. lexer.skip_rest_of_line()
    loops = [x for x in q.walk(slash_arm["body"]) if x["k"] == "While"]
    r.count("comment skip loops", len(loops), 2, LEX)
    found_block = found_line = False
    for lp in loops:
        pairs = cond_pairs(lp["c"])
        chars = [c for _, c in pairs]
        if "\n" in chars:
            found_line = True
            try:
                ok = all(cond_atoms(lp["c"], {pairs[0]: v}) == (not v) for v in (True, False))
            except (ValueError, KeyError):
                ok = False
            r.ob(ok, "lexer.rs:line-comment:loop-condition", LEX, lp["l"], "a line comment must continue exactly while the next char is not '\\n'", sample="line comment: while c != '\\n'")
            # the newline itself must not be consumed: index advances by `next` only
            adv = [q.show(x["b"]) for x in q.walk(enclosing_if_then(slash_arm["body"], lp)) if x["k"] == "Binary" and x["op"] == "+=" and q.show(x["a"]).endswith("." + POS)]
            r.ob(adv == ["next"], "lexer.rs:line-comment:consumes-newline", LEX, lp["l"], f"after a line comment the cursor must stop before the newline (the Newline token separates statements); it advances by {adv}", sample="line comment: index += next (newline kept)")
        elif "*" in chars and "/" in chars:
            found_block = True
            star = next(p for p in pairs if p[1] == "*")
            slash = next(p for p in pairs if p[1] == "/")
            bad = None
            try:
                for a, b in itertools.product((True, False), repeat=2):
                    cont = cond_atoms(lp["c"], {star: a, slash: b})
                    if cont != (not (a and b)):
                        bad = (a, b, cont)
                        break
            except (ValueError, KeyError) as e:
                r.missing("lexer.rs:block-comment:loop-condition", LEX, str(e))
                continue
            r.ob(bad is None, "lexer.rs:block-comment:loop-condition", LEX, lp["l"],
                 f"the block-comment loop must continue exactly while `*/` does not match at the cursor; with (char is '*')={bad[0] if bad else ''}, (next is '/')={bad[1] if bad else ''} it {'continues' if bad and bad[2] else 'stops'}: a lone `*` or `/` inside a comment ends it",
                 sample="block comment: continue iff !(c == '*' && c2 == '/')")
            # the two chars tested are adjacent: peek(next) and peek(next + 1)
            lets = {q.pat_bindings(x["pat"])[0]: q.show(x["e"]) for x in q.walk(lp["c"]) if x["k"] == "Let" and q.pat_bindings(x["pat"])}
            a1, a2 = lets.get(star[0], ""), lets.get(slash[0], "")
            r.ob("(next)" in a1.replace(" ", "") and "(next+1)" in a2.replace(" ", ""), "lexer.rs:block-comment:adjacent-chars", LEX, lp["l"], f"the terminator test must look at adjacent characters: `*` at {a1}, `/` at {a2}")
            # the search for the terminator starts behind the two characters of the opener: the `*` of `/*` is not the `*` of `*/`
            import re as _re

            mv = _re.search(r"\((\w+)\)", a1.replace(" ", ""))
            scan = mv.group(1) if mv else "next"
            inits = [x for x in q.walk(enclosing_if_then(slash_arm["body"], lp)) if x["k"] == "Local" and x.get("init") is not None and q.pat_bindings(x["pat"]) == [scan] and x["l"] <= lp["l"]]
            start = q.show(inits[-1]["init"]) if inits else None
            r.ob(start == "2", "lexer.rs:block-comment:scan-starts-inside-the-opener", LEX, lp["l"],
                 f"the scan for `*/` starts at offset {start} from the `/` of the opener; it must start at 2, behind `/*`: starting at 1 lets the opener's own `*` pair with a `/` that begins the comment text, so `/*/ text */` ends after three characters and the text is lexed as code",
                 sample="block comment: scan starts at offset 2")
            adv = [q.show(x["b"]).replace(" ", "") for x in q.walk(enclosing_if_then(slash_arm["body"], lp)) if x["k"] == "Binary" and x["op"] == "+=" and q.show(x["a"]).endswith("." + POS)]
            r.ob(adv == ["(next+2)"], "lexer.rs:block-comment:terminator-length", LEX, lp["l"], f"after the loop the cursor must skip the 2-character terminator; it advances by {adv}", sample="block comment: index += next + 2")
    r.ob(found_block, "lexer.rs:block-comment:loop", LEX, slash_arm["l"], "no block-comment skip loop found")
    r.ob(found_line, "lexer.rs:line-comment:loop", LEX, slash_arm["l"], "no line-comment skip loop found")


def enclosing_if_then(body, target):
    best = body
    for x in q.walk(body):
        if x["k"] == "If":
            if any(y is target for y in q.walk(x["t"])):
                best = x["t"]
            elif x.get("e") is not None and x["e"]["k"] != "If" and any(y is target for y in q.walk(x["e"])):
                best = x["e"]
    return best


@rule("SEP", ["C29"], "list elements may be separated by the separator or a newline, and blank lines before an element are skipped")
def sep(ctx, r):
    items = ctx.file_items(PARSE)
    f = q.find_fn(items, "parse_delimited_list") if items else None
    if f is None:
        r.missing("parse_delimited_list", PARSE)
        return
    lp = [x for x in q.walk(f["body"]) if x["k"] == "Loop"]
    if not lp:
        r.missing("parse_delimited_list:loop", PARSE)
        return
    st = q.body_stmts(lp[0]["body"])
    first = st[0]
    r.ob(first["k"] == "ExprStmt" and q.show(first["e"]) == "self.skip_newlines()", "parse.rs:parse_delimited_list:newlines-before-element", PARSE, f["l"], "blank lines before each element (and before the closing delimiter) must be skipped", sample="parse_delimited_list: skip_newlines() first")
    # what happens after an element, for each kind of next token: the separator, a newline, anything else
    locs = {b: x["init"] for x in q.walk(lp[0]["body"]) if x["k"] == "Local" and x.get("init") is not None for b in q.pat_bindings(x["pat"])}
    pi = next((i for i, s_ in enumerate(st) if any(y["k"] == "MethodCall" and y["m"] == "push" for y in q.walk(s_))), None)

    def tagval(e, tag):
        t = q.show(e).replace(" ", "")
        if e["k"] == "Path" and e["p"] in locs:
            return tagval(locs[e["p"]], tag)
        if t.endswith("current_token().tag()"):
            return tag
        if t == "separator":
            return "sep"
        if t == "TokenTag::Newline":
            return "nl"
        if t == "closing_delimiter":
            return "close"
        raise ValueError(t)

    def cnd(c, tag):
        while c["k"] == "Paren":
            c = c["e"]
        if c["k"] == "Binary" and c["op"] in ("&&", "||"):
            a, b = cnd(c["a"], tag), cnd(c["b"], tag)
            return (a and b) if c["op"] == "&&" else (a or b)
        if c["k"] == "Binary" and c["op"] in ("==", "!="):
            eq = tagval(c["a"], tag) == tagval(c["b"], tag)
            return eq if c["op"] == "==" else not eq
        if c["k"] == "Unary" and c.get("op") in ("!", "Not"):
            return not cnd(c["e"], tag)
        raise ValueError(q.show(c))

    def run(stmts, tag):
        """'consume' if the token is consumed and the loop goes on, 'exit' if the loop is left."""
        for s_ in stmts:
            e = s_.get("e") if s_["k"] == "ExprStmt" else None
            if e is None:
                continue
            if e["k"] == "If":
                br = e["t"] if cnd(e["c"], tag) else e.get("e")
                if br is not None:
                    got = run(br["stmts"] if br["k"] == "Block" else [{"k": "ExprStmt", "e": br}], tag)
                    if got:
                        return got
            elif e["k"] == "Break":
                return "exit"
            elif e["k"] == "MethodCall" and e["m"] == "consume_token":
                return "consume"
        return None

    try:
        got = {tag: run(st[pi + 1:], tag) for tag in ("sep", "nl", "other")} if pi is not None else None
        ok = got == {"sep": "consume", "nl": "consume", "other": "exit"}
    except (ValueError, KeyError):
        got, ok = "not evaluable", False
    r.ob(ok, "parse.rs:parse_delimited_list:separator-or-newline", PARSE, f["l"], f"after an element either the separator or a newline must be accepted and anything else ends the list; per next token: {got}", sample="parse_delimited_list: separator -> next element, newline -> next element, else -> end")
    # statements: `;` and newline both end a statement
    uses = sum(1 for g, _ in q.iter_items(items) if g["k"] == "Fn" and g.get("body") is not None for x in q.walk(g["body"]) if x["k"] == "MethodCall" and x["m"] == "parse_delimited_list")
    r.count("uses of parse_delimited_list", uses, 5, PARSE)


@rule("NEWLINE-ENDS-EXPR", ["C29", "C31"], "a newline ends an expression exactly like `;` or `,`: the operator loop never looks for a continuation across newline tokens")
def newline_ends_expr(ctx, r):
    items = ctx.file_items(PARSE)
    f = q.find_fn(items, "parse_expr_bp") if items else None
    if f is None:
        r.missing("parse_expr_bp", PARSE)
        return
    loops = [x for x in q.walk(f["body"]) if x["k"] == "Loop"]
    if not loops:
        r.missing("parse_expr_bp:operator loop", PARSE)
        return
    lp = loops[0]
    ops = [x for x in q.walk(lp["body"]) if x["k"] == "MethodCall" and x["m"] in ("parse_binop", "parse_postfix_op")]
    r.count("operator look-aheads in the expression loop", len(ops), 2, PARSE)
    skips = [x for x in q.walk(lp["body"]) if x["k"] == "MethodCall" and x["m"] in ("skip_newlines", "skip_newline", "eat_newlines") and q.show(x["recv"]) == "self"]
    # allowed: after an operator has been accepted (inside the part that parses its right operand); not before the look-ahead
    first_op_line = min((o["l"] for o in ops), default=0)
    early = [x for x in skips if x["l"] <= max(o["l"] for o in ops)] if ops else skips
    r.ob(not early, "parse.rs:parse_expr_bp:operator-sought-across-newlines", PARSE, early[0]["l"] if early else lp["l"],
         "the expression loop skips newline tokens before it looks for an operator: `-` both continues an expression and starts one, so `a` newline `-b` becomes one subtraction, while `a; -b` and `a, -b` stay two items - the choice of separator changes the parse, silently",
         sample="parse_expr_bp: operators are looked for on the same line only")


@rule("LIT-RANGE", ["C30"], "a numeric literal is converted by parsing its whole spelling (sign included) and a spelling that does not fit is a diagnostic: no literal parse is unwrapped, cast or negated after the fact; `_` separators are dropped and digits kept in order")
def lit_range(ctx, r):
    from lib.inline import materialize

    items = ctx.file_items(PARSE)
    lex = ctx.file_items("abra_core/src/parse/lexer.rs")
    if items is None or lex is None:
        r.missing("parse.rs / lexer.rs")
        return
    n = 0
    for f, _ in q.iter_items(items):
        if f["k"] != "Fn" or f.get("body") is None:
            continue
        for x in q.walk(f["body"]):
            if not (x["k"] == "MethodCall" and x["m"] == "parse" and ("i64" in str(x.get("turbofish", "")) or "f64" in str(x.get("turbofish", "")) or "parse::<" in q.show(x))):
                continue
            n += 1
            # the parse result must be the scrutinee of a match with an Err arm that returns/pushes an error
            m = next((mm for mm in q.walk(f["body"]) if mm["k"] == "Match" and any(y is x for y in q.walk(mm["e"]))), None)
            ok = False
            if m is not None and (m["e"] is x or q.show(m["e"]) == q.show(x)):
                errs = [a for a in m["arms"] if "Err" in q.show_pat(a["pat"])]
                ok = bool(errs) and all(any(y["k"] == "Return" or (y["k"] == "MethodCall" and y["m"] == "push" and "errors" in q.show(y["recv"])) or (y["k"] == "Call" and q.show(y["f"]) == "Err") for y in q.walk(a["body"])) and any(y["k"] in ("Path", "Call", "Struct") and "Error::" in (y.get("p") or (q.show(y["f"]) if y["k"] == "Call" else "")) for y in q.walk(a["body"])) for a in errs)
            r.ob(ok, f"parse.rs:{f['name']}:{q.show(x['recv'])[:30]}.parse{x.get('turbofish') or ''}:literal-parse-not-checked", PARSE, x["l"],
                 f"{f['name']}: `{q.show(x)[:60]}` converts a literal's spelling; its failure (a value that does not fit) must be matched and reported as a diagnostic - an unwrap panics the front end, a fallback silently changes the value",
                 sample=f"{f['name']}: {q.show(x)[:40]} matched, Err -> diagnostic")
            # a negative literal is parsed with its sign: `-` + digits, so that the minimum integer is writable
        negs = [x for x in q.walk(f["body"]) if x["k"] == "Unary" and x.get("op") in ("-", "Neg") and any(y["k"] == "MethodCall" and y["m"] == "parse" for y in q.walk(x["e"]))]
        for x in negs:
            r.find(f"parse.rs:{f['name']}:negated-after-parse", PARSE, x["l"], f"{f['name']}: a literal is negated after parsing its digits (`{q.show(x)[:60]}`): the minimum integer, whose magnitude does not fit, cannot be written")
    r.count("literal spellings parsed in the parser", n, 6, PARSE)
    hn = q.find_fn(lex, "handle_num", impl_ty="Lexer")
    if hn is None:
        r.missing("Lexer::handle_num", "abra_core/src/parse/lexer.rs")
        return
    hn = materialize(hn, closures_only=False, pred=lambda inl: any(y["k"] in ("While", "Loop", "For") for y in q.walk(inl["body"])))  # digit runs may be scanned by a helper
    pushes = [x for x in q.walk(hn["body"]) if x["k"] == "MethodCall" and x["m"] == "push" and q.show(x["recv"]).replace("&mut ", "").strip("()") == "num"]
    und = [x for x in pushes if "'_'" in q.show(x["args"][0])]
    guarded = all(any(i["k"] == "If" and "is_ascii_digit" in q.show(i["c"]) and any(y is x for y in q.walk(i["t"])) for i in q.walk(hn["body"])) for x in pushes if q.show(x["args"][0]) == "c")
    r.ob(not und and guarded and len(pushes) >= 4, "lexer.rs:handle_num:separators", "abra_core/src/parse/lexer.rs", hn["l"],
         f"handle_num must append exactly the sign, the digits (under is_ascii_digit) and the decimal point to the spelling, never a `_` ({[q.show(x) for x in pushes]})", sample="handle_num: sign, digits, point appended; `_` skipped")

"""FIELD-ORDER (C14): every order-sensitive pattern traversal takes named sub-patterns in declaration order."""
from lib import synq as q
from lib.core import rule
from lib.inline import walk_inl as W

TB = "abra_core/src/translate_bytecode.rs"
EXH = "abra_core/src/statics/pat_exhaustiveness.rs"

ORDER_SENSITIVE = {
    TB: ["translate_pat_comparison", "handle_pat_binding", "traverse_arm_pat", "struct_pat_fields_in_order", "variant_named_pats_in_order"],
    EXH: ["from_ast_pat"],
}


def named_bindings(fn):
    """Names bound by `PatStructFields::Named(x)` / `PatVariantData::Named(x)` patterns anywhere in fn (match arms, params)."""
    out = []
    for x in q.walk(fn["body"]):
        if x["k"] == "Arm":
            for p in q.walk(x["pat"]):
                if p["k"] == "PTupleStruct" and q.last_seg(p["p"]) == "Named" and p["elems"] and p["elems"][0]["k"] == "PIdent":
                    out.append((p["elems"][0]["name"], x))
    return out


def decl_order_lookup(use, fn):
    """Is `use` (a Path node naming the list) inside `DECL.fields.iter().map(|f| .. named.iter().find(|(n, _)| n.v == f.name..) ..)`?"""
    for m in q.walk(fn["body"]):
        if m["k"] == "MethodCall" and m["m"] == "map" and m["args"] and m["args"][0]["k"] == "Closure":
            recv = q.show(m["recv"]).replace(" ", "")
            # the declaration's field list: `decl.fields.iter()`, or a parameter holding it (`field_defs: &[VariantField]`)
            field_params = [b for p_ in fn.get("params", []) if not p_.get("self") and "Field" in p_.get("ty", "") for b in q.pat_bindings(p_["pat"])]
            if ".fields.iter()" not in recv and not any(recv == fp + ".iter()" for fp in field_params):
                continue
            cl = m["args"][0]
            if not any(y is use for y in q.walk(cl["body"])):
                continue
            # the lookup must be by name equality against the declaration's field
            for y in q.walk(cl["body"]):
                if y["k"] == "MethodCall" and y["m"] in ("find", "position") and any(z is use for z in q.walk(y["recv"])):
                    pred = q.show(y["args"][0]) if y["args"] else ""
                    if "==" in pred and ".v" in pred:
                        return True
    return False


@rule("FIELD-ORDER", ["C14", "C12"], "named struct / variant sub-patterns are taken in declaration order by every traversal that compares, binds or deconstructs")
def field_order(ctx, r):
    n_sites = 0
    for file, names in ORDER_SENSITIVE.items():
        items = ctx.file_items(file)
        if items is None:
            r.missing(file)
            continue
        short = file.split("/")[-1]
        for name in names:
            fns = [f for f, _ in q.iter_items(items) if f["k"] == "Fn" and f["name"] == name and f.get("body") is not None]
            if not fns:
                r.missing(f"{short}:{name}", file)
                continue
            f = fns[0]
            params = [b for p in f["params"] if not p.get("self") for b in q.pat_bindings(p["pat"])]
            lists = [(nm, arm) for nm, arm in named_bindings(f)]
            # helper parameters of type &[(Rc<Identifier>, Rc<Pat>)] are named lists too
            for p in f["params"]:
                if not p.get("self") and "Rc<Identifier>" in p.get("ty", "") and "Rc<Pat>" in p.get("ty", ""):
                    lists.append((q.pat_bindings(p["pat"])[0], {"body": f["body"], "l": f["l"]}))
            for nm, arm in lists:
                uses = [x for x in q.walk(arm["body"]) if x["k"] == "Path" and x["p"] == nm]
                for u in uses:
                    n_sites += 1
                    # (a) passed to an ordering helper
                    as_arg = any(c["k"] == "MethodCall" and c["m"].endswith("_in_order") and any(a is u or (a["k"] == "Ref" and a["e"] is u) for a in c["args"]) for c in q.walk(arm["body"]))
                    # (b) handed to a helper of this file that takes it in declaration order itself
                    via_helper = False
                    for c in q.walk(arm["body"]):
                        if c["k"] not in ("Call", "MethodCall"):
                            continue
                        hn = c["m"] if c["k"] == "MethodCall" else (q.last_seg(c["f"]["p"]) if c["f"]["k"] == "Path" else None)
                        pos = next((i_ for i_, a in enumerate(c["args"]) if a is u or (a["k"] == "Ref" and a["e"] is u)), None)
                        h = next((g for g, _ in q.iter_items(items) if g["k"] == "Fn" and g["name"] == hn and g.get("body") is not None), None) if hn and pos is not None else None
                        if h is None or h is f:
                            continue
                        hp = [p_ for p_ in h["params"] if not p_.get("self")]
                        if pos < len(hp):
                            pn = q.pat_bindings(hp[pos]["pat"])
                            huses = [x for x in q.walk(h["body"]) if x["k"] == "Path" and pn and x["p"] == pn[0]]
                            via_helper = bool(huses) and all(decl_order_lookup(x, h) for x in huses)
                    ok = as_arg or via_helper or decl_order_lookup(u, f)
                    r.ob(ok, f"{short}:{name}:{nm}:source-order", file, u["l"],
                         f"{name}: the named sub-pattern list `{nm}` is consumed in source order; the fields of a struct or variant are laid out in declaration order, so `P(y = a, x = b)` would compare/bind the wrong components",
                         sample=f"{name}: `{nm}` taken in declaration order")
    r.count("uses of named sub-pattern lists", n_sites, 6, TB)
    # positional struct patterns and tuples are in order by construction; or-patterns: slots are declared from the left side
    items = ctx.file_items(TB)
    if items is None:
        return
    cl = q.find_fn(items, "collect_locals_pat", impl_ty="Translator")
    hb = q.find_fn(items, "handle_pat_binding", impl_ty="Translator")
    if cl is None or hb is None:
        r.missing("collect_locals_pat / handle_pat_binding", TB)
        return
    from rules.frontend import arm_of

    a = arm_of(cl, "PatKind", "Or")
    left = None
    if a is not None:
        from lib import astmodel as am

        fb = am.field_bindings(a["pat"], "Or")
        left = fb[0]["name"] if fb and fb[0]["k"] == "PIdent" else None
        visits_left = any(x["k"] == "MethodCall" and x["m"] == "collect_locals_pat" and q.show(x["args"][0]) == left for x in q.walk(a["body"]))
        r.ob(visits_left, "translate_bytecode.rs:collect_locals_pat:Or:slots-from-left", TB, a["l"], "collect_locals_pat must declare the slots of an or-pattern from its left side", sample="or-pattern: slots declared by the left side")
    b = arm_of(hb, "PatKind", "Binding")
    if b is not None:
        from lib.inline import walk_inl

        fallback = any(x["k"] == "Index" and "resolution_map" in q.show(x["e"]) for x in walk_inl(b["body"]))
        r.ob(fallback, "translate_bytecode.rs:handle_pat_binding:Binding:right-side-slot", TB, b["l"], "a binding on the right side of an or-pattern has no slot of its own: handle_pat_binding must fall back to the declaration it resolves to (the left side's slot)", sample="or-pattern: right-side bindings store into the left side's slot")
    # every DeconstructStruct of a struct/variant pattern is followed by traversal in the same order helper
    for name in ("translate_pat_comparison", "handle_pat_binding", "traverse_arm_pat"):
        f = q.find_fn(items, name, impl_ty="Translator")
        if f is None:
            continue
        a = arm_of(f, "PatKind", "Struct")
        if a is None:
            # translate_pat_comparison matches Struct in a nested match
            for x in q.walk(f["body"]):
                if x["k"] == "Arm" and "PatKind::Struct" in q.pat_heads(x["pat"]):
                    a = x
        if a is None:
            r.missing(f"{name}:Struct", TB)
            continue
        r.ob(any(x["k"] == "MethodCall" and x["m"] == "struct_pat_fields_in_order" for x in q.walk(a["body"])), f"translate_bytecode.rs:{name}:Struct:order-helper", TB, a["l"],
             f"{name} must take the fields of a struct pattern through struct_pat_fields_in_order", sample=f"{name}: Struct via struct_pat_fields_in_order")


PAYLOAD_ENUMS = {"PatVariantData": "abra_core/src/ast.rs", "PatStructFields": "abra_core/src/ast.rs"}

# (function, variant, field, payload variant) -> reason the traversal may leave that child alone
PAT_SKIP_JUSTIFIED = {
    ("gather_or_pattern_subtrees", "Or", 0, None): "flattens the right-nested spine of an or-chain: the left alternative is recorded as one alternative, not descended into",
    ("collect_locals_pat", "Or", 1, None): "both sides of an or-pattern bind the same names; slots are declared from the left side (see slots-from-left above)",
}


def _pat_traversals(ctx):
    from lib import astmodel as am

    out = []
    for file in sorted(ctx.syn["files"]):
        items = ctx.file_items(file)
        fns = {}
        for f, _ in q.iter_items(items):
            if f["k"] == "Fn" and f.get("body") is not None:
                fns.setdefault(f["name"], f)
        for name, f in fns.items():
            pm = [m for e, m in am.principal_matches(f) if e == "PatKind"]
            if not pm:
                continue
            callees = {q.last_seg(n) for _, n, _ in q.calls_in(f["body"])}
            if name not in callees:
                continue  # not a recursive traversal
            family = {name}
            for g in callees:
                if g in fns and g != name and any(q.last_seg(n) == name for _, n, _ in q.calls_in(fns[g]["body"])):
                    family.add(g)
            out.append((file, f, pm, family))
    return out


def _payload_binders(node, enum_name, pv):
    """Patterns `Enum::pv(x..)` under node, each with the body its bindings scope over: [(bindings, body)]."""
    out = []

    def pats_of(p):
        return [x for x in q.walk(p) if x["k"] == "PTupleStruct" and q.last_seg(x["p"]) == pv and (enum_name in x["p"] or "::" not in x["p"])]

    for x in q.walk(node):
        if x["k"] == "Arm":
            for p in pats_of(x["pat"]):
                out.append(([b for e in p["elems"] for b in q.pat_bindings(e)], x["body"]))
        elif x["k"] == "If" and x["c"]["k"] == "Let":
            for p in pats_of(x["c"]["pat"]):
                out.append(([b for e in p["elems"] for b in q.pat_bindings(e)], x["t"]))
        elif x["k"] == "Local" and x.get("init") is not None and x.get("else") is not None:
            for p in pats_of(x["pat"]):
                out.append(([b for e in p["elems"] for b in q.pat_bindings(e)], node))
    return out


def _helper_unpacks(ctx, file, body, binds, pen, pv):
    """Is the payload binding passed to (or the receiver of) a helper that has an arm `pen::pv(x)` using x?"""
    cands = []
    for x in q.walk(body):
        if x["k"] == "MethodCall":
            involved = (x["recv"]["k"] == "Path" and x["recv"]["p"] in binds) or any(q.idents_in(a) & set(binds) for a in x["args"])
            if involved:
                cands.append(x["m"])
        elif x["k"] == "Call" and x["f"]["k"] == "Path" and any(q.idents_in(a) & set(binds) for a in x["args"]):
            cands.append(q.last_seg(x["f"]["p"]))
    for hf in (file, PAYLOAD_ENUMS[pen]):
        for g, _ in q.iter_items(ctx.file_items(hf) or []):
            if g["k"] == "Fn" and g.get("body") is not None and g["name"] in cands:
                for a in q.walk(g["body"]):
                    if a["k"] == "Arm":
                        for p in q.walk(a["pat"]):
                            if p["k"] == "PTupleStruct" and q.last_seg(p["p"]) == pv and pen in p["p"]:
                                bs = [b for e in p["elems"] for b in q.pat_bindings(e)]
                                if bs and q.idents_in(a["body"]) & set(bs):
                                    return True
    return False


@rule("PAT-VISIT", ["C14", "C04", "C20", "C12", "C03"], "every recursive traversal of patterns descends into every sub-pattern: both sides of an or-pattern, tuple elements, and the positional and the named form of struct and variant payloads")
def pat_visit(ctx, r):
    from lib import astmodel as am

    enums = am.ast_enums(ctx, r)
    if enums is None:
        return
    ast_items = ctx.file_items(am.AST)
    payload = {}
    for en in PAYLOAD_ENUMS:
        e = q.find_enum(ast_items, en)
        if e is None:
            r.missing(f"ast.rs:enum {en}", am.AST)
            return
        payload[en] = [v["name"] for v in e["variants"]]
    travs = _pat_traversals(ctx)
    r.count("recursive pattern traversals", len(travs), 13, "abra_core/src")
    variants = enums["PatKind"]
    n = 0
    for file, f, pms, family in travs:
        short = file.split("/")[-1]
        status = {}
        for m in pms:
            for arm in m["arms"]:
                for v in am.arm_variants(arm, "PatKind"):
                    fields = variants.get(v) or []
                    subs = am.field_bindings(arm["pat"], v)
                    for i, (fname, fty, fcats) in enumerate(fields):
                        if "pat" not in fcats:
                            continue
                        sp = subs[i] if subs is not None and i < len(subs) and not any(s["k"] == "PRest" for s in subs) else None
                        pen = next((en for en in payload if en in fty), None)
                        if pen is None:
                            binds = q.pat_bindings(sp) if sp is not None else []
                            ok = bool(binds) and am.flows_into(arm["body"], binds, lambda nm: nm in family)
                            status.setdefault((v, i, None, fty), []).append((ok, arm["l"]))
                            continue
                        if sp is not None and q.show_pat(sp) == "None":
                            continue
                        for pv in payload[pen]:
                            ok = False
                            # destructured in the arm pattern itself
                            cands = []
                            if sp is not None:
                                for p in q.walk(sp):
                                    if p["k"] == "PTupleStruct" and q.last_seg(p["p"]) == pv:
                                        cands.append(([b for e in p["elems"] for b in q.pat_bindings(e)], arm["body"]))
                                mentions_other = any(p["k"] == "PTupleStruct" and q.last_seg(p["p"]) in payload[pen] for p in q.walk(sp))
                                if mentions_other and not cands:
                                    continue  # this arm is about another payload form
                            # or matched on inside the body
                            binds = q.pat_bindings(sp) if sp is not None else []
                            if binds:
                                cands += _payload_binders(arm["body"], pen, pv)
                            for bs, body in cands:
                                if bs and am.flows_into(body, bs, lambda nm: nm in family):
                                    ok = True
                            # or handed, whole, to a helper that takes the payload apart and whose result is traversed
                            if not ok and binds and am.flows_into(arm["body"], binds, lambda nm: nm in family):
                                ok = _helper_unpacks(ctx, file, arm["body"], binds, pen, pv)
                            status.setdefault((v, i, pv, fty), []).append((ok, arm["l"]))
        for (v, i, pv, fty), sts in sorted(status.items(), key=lambda kv: (kv[0][0], kv[0][1], kv[0][2] or "")):
            n += 1
            what = f"{v}.{i}" + (f":{pv}" if pv else "")
            just = PAT_SKIP_JUSTIFIED.get((f["name"], v, i, pv))
            if just:
                r.ob(True, "", file, sts[0][1], "", sample=f"{f['name']}: {what} left alone, justified: {just}")
                continue
            ok = any(s for s, _ in sts)
            r.ob(ok, f"{short}:{f['name']}:{what}:sub-pattern-not-visited", file, sts[0][1],
                 f"{f['name']} is a recursive traversal of patterns but never descends into the {('`' + pv + '` form of the ') if pv else ''}sub-pattern(s) of PatKind::{v} (field {i}: {fty}): or-alternatives, bindings or literals nested there are invisible to it",
                 sample=f"{f['name']}: {what} visited")
    r.count("(traversal, sub-pattern position) pairs", n, 60, "abra_core/src")


@rule("USEFUL-JOIN", ["C13"], "results of child rows are joined into their parent row: a write indexed by a property of the loop variable is many-to-one and must accumulate")
def useful_join(ctx, r):
    items = ctx.file_items(EXH)
    if items is None:
        r.missing(EXH)
        return
    n = 0
    for f, _ in q.iter_items(items):
        if f["k"] != "Fn" or f.get("body") is None:
            continue
        for lp in q.walk(f["body"]):
            if lp["k"] != "For":
                continue
            lvars = set(q.pat_bindings(lp["pat"]))
            # aliases of `container[loopvar.field]` bound inside the loop
            alias = {}
            for x in q.walk(lp["body"]):
                if x["k"] == "Local" and x.get("init") is not None:
                    for y in q.walk(x["init"]):
                        if y["k"] == "Index" and any(z["k"] == "Field" and z["e"]["k"] == "Path" and z["e"]["p"] in lvars for z in q.walk(y["i"])):
                            for b in q.pat_bindings(x["pat"]):
                                alias[b] = q.show(y)
            for x in q.walk(lp["body"]):
                is_assign = x["k"] == "Assign" or (x["k"] == "Binary" and x["op"].endswith("=") and x["op"] not in ("==", "!=", "<=", ">="))
                if not is_assign:
                    continue
                lhs = x["a"] if "a" in x else x.get("l")
                if lhs is None or lhs["k"] != "Field":
                    continue
                tgt = lhs["e"]
                via = None
                if tgt["k"] == "Path" and tgt["p"] in alias:
                    via = alias[tgt["p"]]
                elif tgt["k"] == "Index" and any(z["k"] == "Field" and z["e"]["k"] == "Path" and z["e"]["p"] in lvars for z in q.walk(tgt["i"])):
                    via = q.show(tgt)
                if via is None:
                    continue
                n += 1
                rhs = x.get("b") or x.get("r")
                compound = x["k"] == "Binary" and x["op"] in ("|=", "&=", "+=")
                selfjoin = rhs is not None and q.show(lhs) in q.show(rhs) and any(y["k"] == "Binary" and y["op"] in ("||", "|", "&&", "&") for y in q.walk(rhs))
                r.ob(compound or selfjoin, f"pat_exhaustiveness.rs:{f['name']}:{lhs['f']}:overwritten-per-child", EXH, x["l"],
                     f"{f['name']}: `{via}.{lhs['f']}` is written once per child row; several child rows share a parent (or-pattern alternatives, rows kept under several constructors), so a plain assignment keeps only the last child's answer - a reachable arm is reported redundant or the reverse",
                     sample=f"{f['name']}: {via}.{lhs['f']} accumulated over children")
    r.count("child-to-parent result writes", n, 1, EXH)


def _counter_vars(body):
    """Variables incremented inside a branch of a match/if on a type (`SolvedType::Void => {} _ => n += 1`, `if ty != Void { n += 1 }`): counts of non-void components."""
    out = set()
    for x in q.walk(body):
        if x["k"] in ("Match", "If"):
            scr = q.show(x.get("e") or x.get("c"))
            arms_txt = q.show(x)
            if "Void" in arms_txt or "Void" in scr:
                for y in q.walk(x):
                    if y["k"] == "Binary" and y["op"] == "+=" and y["a"]["k"] == "Path":
                        out.add(y["a"]["p"])
    return out


@rule("PAYLOAD-REPR", ["C01", "C14", "C12"], "whether a variant's payload is wrapped in a struct is decided by the declared number of fields at every site: constructor, pattern comparison, pattern binding and host bindings agree")
def payload_repr(ctx, r):
    items = ctx.file_items(TB)
    if items is None:
        r.missing(TB)
        return
    n = 0
    # constructor side: the arm that emits both ConstructStruct and ConstructVariant
    for f, _ in q.iter_items(items):
        if f["k"] != "Fn" or f.get("body") is None:
            continue
        for a in q.walk(f["body"]):
            if a["k"] != "Arm" or "EnumVariant" not in " ".join(q.pat_heads(a["pat"])):
                continue
            txt = q.show(a["body"])
            emits_struct = [x for x in q.walk(a["body"]) if x["k"] == "Call" and q.show(x["f"]) == "Instr::ConstructStruct"]
            emits_variant = any(x["k"] in ("Struct", "Call", "Path") and "Instr::ConstructVariant" in q.show(x)[:40] for x in q.walk(a["body"]))
            if not emits_struct or not emits_variant:
                continue
            counters = _counter_vars(a["body"])
            for e in emits_struct:
                n += 1
                conds = [q.show(i["c"]) for i in q.walk(a["body"]) if i["k"] == "If" and any(y is e for y in q.walk(i["t"]))]
                cond = conds[-1] if conds else "(unconditional)"
                uses_counter = any(c in q.idents_in(i["c"]) for i in q.walk(a["body"]) if i["k"] == "If" and any(y is e for y in q.walk(i["t"])) for c in counters)
                by_arity = ".len()" in cond
                r.ob(by_arity and not uses_counter, f"translate_bytecode.rs:{f['name']}:EnumVariant:wrapping-by-non-void-count", TB, e["l"],
                     f"{f['name']}: the constructor wraps a variant's payload in a struct under `{cond}`; patterns and host bindings decide by the declared number of fields, so a count that skips void fields ({sorted(counters)}) builds a bare payload that a multi-field pattern then deconstructs as a struct (internal 'expected struct' fault)",
                     sample=f"{f['name']}: payload wrapped under `{cond}`")
    # pattern side: the unwrapped case is chosen by the number of sub-patterns
    for name in ("translate_pat_comparison", "handle_pat_binding"):
        f = q.find_fn(items, name, impl_ty="Translator")
        if f is None:
            r.missing(name, TB)
            continue
        for a in W(f["body"]):
            if a["k"] == "Arm" and any(p["k"] == "PTupleStruct" and q.last_seg(p["p"]) == "Named" and "PatVariantData" in p["p"] for p in q.walk(a["pat"])):
                ifs = [i for i in W(a["body"]) if i["k"] == "If" and any(x["k"] in ("MethodCall", "Call") and "DeconstructStruct" in q.show(x) or (x["k"] == "MethodCall" and x["m"] == "translate_product_pat_comparison") for x in W(i.get("e") or {"k": "Lit"}))]
                for i in ifs[:1]:
                    n += 1
                    c = q.show(i["c"]).replace(" ", "")
                    r.ob(q.single_element_test(i["c"]) is not None, f"translate_bytecode.rs:{name}:Variant:Named:unwrapped-case", TB, i["l"], f"{name}: the bare-payload case of a named-field variant pattern must be chosen by the declared number of fields (`{c}`)", sample=f"{name}: bare payload iff `{c}`")
    # a void payload is a placeholder slot: both lowerings must test the *payload's* type (the variant pattern itself has the enum's type, never void)
    for name in ("translate_pat_comparison", "handle_pat_binding"):
        f = q.find_fn(items, name, impl_ty="Translator")
        if f is None:
            continue
        own = [b for p in f["params"] if not p.get("self") for b in q.pat_bindings(p["pat"])]
        patparam = next((b for p in f["params"] if not p.get("self") and "Pat" in p.get("ty", "") for b in q.pat_bindings(p["pat"])), None)
        for a in W(f["body"]):
            if a["k"] != "Arm" or not any(p["k"] == "PTupleStruct" and q.last_seg(p["p"]) in ("Positional", "Named") and "PatVariantData" in p["p"] for p in q.walk(a["pat"])):
                continue
            form = next(q.last_seg(p["p"]) for p in q.walk(a["pat"]) if p["k"] == "PTupleStruct" and "PatVariantData" in p["p"])
            tests = []
            for x in q.walk(a["body"]):
                if x["k"] == "Local" and x.get("init") is not None:
                    for y in q.walk(x["init"]):
                        if y["k"] == "MethodCall" and y["m"] == "get_ty" and len(y["args"]) >= 2:
                            v = q.pat_bindings(x["pat"])
                            if v and any(z["k"] == "Binary" and z["op"] in ("!=", "==") and "Void" in q.show(z) and v[0] in q.idents_in(z) for z in q.walk(a["body"])):
                                tests.append((v[0], q.show(y["args"][1]), x))
            n += 1
            bad = [t for t in tests if t[1].replace(" ", "").startswith(f"{patparam}.node()")]
            r.ob(bool(tests) and not bad, f"translate_bytecode.rs:{name}:Variant:{form}:void-test-subject", TB, a["l"],
                 f"{name}, {form} payload: the placeholder of a void payload must be recognised by the payload's own type; the tests here look at {[t[1] for t in tests] or 'nothing'} (`{patparam}` is the variant pattern: its type is the enum, never void), so a void payload's placeholder is left on the stack under the arm's value",
                 sample=f"{name}: {form} payload voidness from {[t[1] for t in tests]}")
    # the exhaustiveness pass: a void payload has no column, in either payload form
    ex_items = ctx.file_items(EXH)
    fa = None
    for ff, _ in q.iter_items(ex_items or []):
        if ff["k"] == "Fn" and ff["name"] == "from_ast_pat" and ff.get("body") is not None:
            fa = ff
    if fa is None:
        r.missing("pat_exhaustiveness.rs:from_ast_pat", EXH)
    else:
        for a in q.walk(fa["body"]):
            if a["k"] == "Arm":
                forms = [q.last_seg(p["p"]) for p in q.walk(a["pat"]) if p["k"] == "PTupleStruct" and "PatVariantData" in p["p"]]
                for form in forms:
                    n += 1
                    aware = any(y["k"] in ("Path", "PPath") and y.get("p") == "Type::Void" for y in W(a["body"])) or "Type::Void" in q.show(a["body"]) or any(y["k"] in ("Macro", "PMacro") and "Type::Void" in q.show(y) for y in W(a["body"]))
                    r.ob(aware, f"pat_exhaustiveness.rs:from_ast_pat:Variant:{form}:void-payload-becomes-a-column", EXH, a["l"],
                         f"from_ast_pat, {form} payload: the column types give a variant with a void payload no column, so its sub-pattern must not become a field: otherwise every later column of the row is shifted by one and a non-exhaustive match over a tuple is accepted",
                         sample=f"from_ast_pat: {form} payload drops a void sub-pattern")
    bc = ctx.file_items("abra_core/src/bindings_common.rs")
    g = q.find_fn(bc, "name_of_variant_data_ty") if bc else None
    if g is None:
        r.missing("bindings_common.rs:name_of_variant_data_ty", "abra_core/src/bindings_common.rs")
    else:
        n += 1
        ok = any(i["k"] == "If" and q.show(i["c"]).replace(" ", "").strip("()") in ("elems.len()==1",) for i in q.walk(g["body"]))
        r.ob(ok, "bindings_common.rs:name_of_variant_data_ty:unwrapped-case", "abra_core/src/bindings_common.rs", g["l"], "host bindings must use the bare payload type exactly for one declared field", sample="host bindings: bare payload iff elems.len() == 1")
    r.count("payload representation decision sites", n, 10, TB)


PLACEHOLDER_PRODUCERS = ("GetIndex", "DeconstructVariant", "ArrayPop")
PLACEHOLDER_CONSUMERS = ("SetIndex", "ArrayPush")


@rule("VOID-SLOT", ["C01", "C02"], "a value taken out of a slot that always holds something (array element, variant payload) is a placeholder when its type is void: the lowering that takes it out tests for void")
def void_slot(ctx, r):
    items = ctx.file_items(TB)
    if items is None:
        r.missing(TB)
        return
    n = 0
    for f, _ in q.iter_items(items):
        if f["k"] != "Fn" or f.get("body") is None:
            continue
        arms = [a for a in q.walk(f["body"]) if a["k"] == "Arm"]
        for x in q.walk(f["body"]):
            if not (x["k"] == "MethodCall" and x["m"] == "emit" and len(x["args"]) >= 2):
                continue
            head = q.show(x["args"][1]).split("(")[0].strip()
            if not (head.startswith("Instr::") and head.split("::")[1] in PLACEHOLDER_PRODUCERS):
                continue
            prod = head.split("::")[1]
            enclosing = [a for a in arms if any(y is x for y in q.walk(a["body"]))]
            # the outermost arm of the principal match (the construct being lowered)
            scope = enclosing[0] if enclosing else {"body": f["body"], "pat": {"k": "PWild"}, "l": f["l"]}
            heads = [q.last_seg(h) for h in q.pat_heads(scope["pat"]) if "::" in h] or ["(function body)"]
            n += 1
            aware = any(y["k"] == "Path" and y["p"] == "SolvedType::Void" for y in q.walk(scope["body"]))
            if not aware:
                # through a local closure of the function that tests for void
                closures = {b: l["init"] for l in q.walk(f["body"]) if l["k"] == "Local" and l.get("init") is not None and l["init"]["k"] == "Closure" for b in q.pat_bindings(l["pat"])}
                for y in q.walk(scope["body"]):
                    if y["k"] == "Call" and y["f"]["k"] == "Path" and y["f"]["p"] in closures and any(z["k"] == "Path" and z["p"] == "SolvedType::Void" for z in q.walk(closures[y["f"]["p"]])):
                        aware = True
            r.ob(aware, f"translate_bytecode.rs:{f['name']}:{'|'.join(heads)}:{prod}:not-void-aware", TB, x["l"],
                 f"{f['name']} ({'|'.join(heads)}): `{prod}` always puts a value on the stack; when the static type of that value is void it is a placeholder, and a void expression or binding must leave nothing - no test for void appears in this lowering, so the placeholder stays under whatever is pushed next (wrong tuple fields, or an internal fault on the next loop iteration)",
                 sample=f"{f['name']} {'|'.join(heads)}: {prod} with a void test")
    r.count("placeholder-producing emissions", n, 8, TB)
    # the other direction: an instruction that always takes a value for the slot (store into an array, push onto one) needs the
    # placeholder supplied when the element type is void, because evaluating a void expression leaves nothing
    m = 0
    for f, _ in q.iter_items(items):
        if f["k"] != "Fn" or f.get("body") is None:
            continue
        arms = [a for a in q.walk(f["body"]) if a["k"] == "Arm"]
        for x in q.walk(f["body"]):
            if not (x["k"] == "MethodCall" and x["m"] == "emit" and len(x["args"]) >= 2):
                continue
            head = q.show(x["args"][1]).split("(")[0].strip()
            if not (head.startswith("Instr::") and head.split("::")[1] in PLACEHOLDER_CONSUMERS):
                continue
            cons = head.split("::")[1]
            enclosing = [a for a in arms if any(y is x for y in q.walk(a["body"]))]
            # the outermost arm of the principal match (the construct being lowered), as above
            scope = enclosing[0] if enclosing else {"body": f["body"], "pat": {"k": "PWild"}, "l": f["l"]}
            heads = [q.last_seg(h) for h in q.pat_heads(scope["pat"]) if "::" in h] or ([q.show_pat(scope["pat"]).strip('"')] if enclosing else ["(function body)"])
            m += 1
            closures = {b: l["init"] for l in q.walk(f["body"]) if l["k"] == "Local" and l.get("init") is not None and l["init"]["k"] == "Closure" for b in q.pat_bindings(l["pat"])}
            tests_void = any(y["k"] == "Path" and y["p"] == "SolvedType::Void" for y in q.walk(scope["body"])) or any(
                y["k"] == "Call" and y["f"]["k"] == "Path" and y["f"]["p"] in closures and any(z["k"] == "Path" and z["p"] == "SolvedType::Void" for z in q.walk(closures[y["f"]["p"]])) for y in q.walk(scope["body"]))
            aware = tests_void and any(y["k"] == "MethodCall" and y["m"] == "emit" and "PushNil" in q.show(y["args"][1]) for y in q.walk(scope["body"]) if len(y.get("args", [])) >= 2)
            r.ob(aware, f"translate_bytecode.rs:{f['name']}:{'|'.join(heads)}:{cons}:no-placeholder-for-void", TB, x["l"],
                 f"{f['name']} ({'|'.join(heads)}): `{cons}` always takes the element from the stack; when the element type is void nothing was pushed for it, so the lowering must push a placeholder first (as the sibling lowerings of `a[i] = v` and `push` do) - without it the instruction takes the index as the element and the array as the index (internal 'expected int but got array' fault)",
                 sample=f"{f['name']} {'|'.join(heads)}: {cons} with a placeholder for void")
    r.count("slot-filling emissions", m, 4, TB)


@rule("WITNESS-STACK", ["C12"], "a witness row grows at its end, so the fields of a constructor being re-assembled are the last `arity` entries: removal is from the same end")
def witness_stack(ctx, r):
    items = ctx.file_items(EXH)
    if items is None:
        r.missing(EXH)
        return
    n_rm = 0
    n_ins = 0
    for impl in q.find_impls(items, self_ty="WitnessMatrix"):
        for f in impl["items"]:
            if f["k"] != "Fn" or f.get("body") is None:
                continue
            for lp in q.walk(f["body"]):
                if lp["k"] != "For" or "rows" not in q.show(lp["e"]):
                    continue
                rows = set(q.pat_bindings(lp["pat"]))
                for x in q.walk(lp["body"]):
                    if x["k"] != "MethodCall" or x["recv"]["k"] != "Path" or x["recv"]["p"] not in rows:
                        continue
                    if x["m"] in ("push", "extend", "append"):
                        n_ins += 1
                    elif x["m"] in ("insert", "push_front"):
                        r.find(f"pat_exhaustiveness.rs:{f['name']}:{x['m']}:row-grows-elsewhere", EXH, x["l"], f"{f['name']}: a witness row is extended with `{x['m']}`; rows are stacks that grow at the end")
                    elif x["m"] in ("drain", "remove", "split_off", "truncate", "pop", "swap_remove"):
                        n_rm += 1
                        ok = x["m"] in ("pop", "truncate", "split_off")
                        if x["m"] == "drain" and x["args"]:
                            a = x["args"][0]
                            while a["k"] == "Paren":
                                a = a["e"]
                            # `(len - arity)..` : from a position counted from the end, to the end
                            if a["k"] == "Range" and a.get("b") is None and a.get("a") is not None:
                                fr = a["a"]
                                while fr["k"] == "Paren":
                                    fr = fr["e"]
                                ok = fr["k"] == "Binary" and fr["op"] == "-" and ("len" in q.show(fr["a"]))
                        r.ob(ok, f"pat_exhaustiveness.rs:{f['name']}:{x['m']}:removes-from-the-wrong-end", EXH, x["l"],
                             f"{f['name']}: `{q.show(x)[:70]}` takes entries from the front of a witness row, but rows grow at the end (push_pattern / the re-assembled pattern are pushed): with more than one column pending, the fields of the constructor are the *last* entries, so the reported missing pattern is a rotation of the real one and may name a value an arm already matches",
                             sample=f"{f['name']}: fields taken from the end of the row ({q.show(x['args'][0]) if x['args'] else x['m']})")
    r.count("witness-row insertions", n_ins, 2, EXH)
    r.count("witness-row removals", n_rm, 1, EXH)


@rule("GENERIC-INST", ["C12", "C13", "C04", "C01"], "a column type taken from a declaration's field is instantiated with the type arguments of the column before the exhaustiveness pass uses it")
def generic_inst(ctx, r):
    items = ctx.file_items(EXH)
    if items is None:
        r.missing(EXH)
        return
    n = 0
    for f, _ in q.iter_items(items):
        if f["k"] != "Fn" or f.get("body") is None:
            continue
        for x in q.walk(f["body"]):
            if not (x["k"] == "MethodCall" and x["m"] == "to_solved_type" and x["recv"]["k"] == "Field" and x["recv"]["f"] == "ty"):
                continue
            n += 1
            ok = False
            for c in q.walk(f["body"]):
                if c["k"] == "Call" and q.show(c["f"]).endswith("subst_solved_ty") and any(y is x for a in c["args"] for y in q.walk(a)):
                    ok = True
            if not ok:
                # bound to a local that is then substituted
                for l in q.walk(f["body"]):
                    if l["k"] == "Local" and l.get("init") is not None and any(y is x for y in q.walk(l["init"])):
                        vs = set(q.pat_bindings(l["pat"]))
                        for c in q.walk(f["body"]):
                            if c["k"] == "Call" and q.show(c["f"]).endswith("subst_solved_ty") and any(q.idents_in(a) & vs for a in c["args"]):
                                ok = True
            r.ob(ok, f"pat_exhaustiveness.rs:{f['name']}:{q.show(x['recv'])}:declared-type-not-instantiated", EXH, x["l"],
                 f"{f['name']}: `{q.show(x)[:70]}` is the field's type as declared; for a generic struct or enum it still contains the declaration's type variables, so the column is treated as an unlistable type: exhaustive matches over `option<bool>` are rejected, unreachable arms are missed, and a tuple pattern inside `.some(..)` panics the checker",
                 sample=f"{f['name']}: {q.show(x['recv'])} instantiated with the column's type arguments")
    r.count("declared field types used as column types", n, 3, EXH)
    # the same for a column *count*: whether a payload occupies a column is a question about the instantiated payload type
    # (`option<void>` has none), so the written type of a field (`field.ty.kind`) never decides it
    for f, _ in q.iter_items(items):
        if f["k"] != "Fn" or f.get("body") is None:
            continue
        for x in q.walk(f["body"]):
            if x["k"] == "Field" and x["f"] == "kind" and q.strip_refs(x["e"])["k"] == "Field" and q.strip_refs(x["e"])["f"] == "ty":
                r.find(f"pat_exhaustiveness.rs:{f['name']}:{q.show(x)}:declared-type-kind-decides-columns", EXH, x["l"],
                       f"{f['name']}: `{q.show(x)}` looks at the type a field was declared with; for a generic enum that is the type variable, so `option<void>` is given a payload column here while the sibling computations (from_ast_pat, field_tys), which instantiate the payload type, give it none - `match o {{ .some(x) -> .. _ -> .. }}` on an option<void> then indexes an empty column list and the checker panics")
    # the generator: a declared field type that decides whether the field occupies a slot is read under the instance's type arguments
    titems = ctx.file_items(TB)
    m = 0
    for f, _ in q.iter_items(titems or []):
        if f["k"] != "Fn" or f.get("body") is None:
            continue
        for x in q.walk(f["body"]):
            if x["k"] == "MethodCall" and x["m"] == "to_solved_type" and x["recv"]["k"] == "Field" and x["recv"]["f"] == "ty":
                m += 1
                handles_poly = any(mm["k"] == "Match" and any(y is x for y in q.walk(mm["e"])) and any(q.last_seg(h) == "Poly" for a in mm["arms"] for h in q.pat_heads(a["pat"])) for mm in q.walk(f["body"]))
                r.ob(handles_poly, f"translate_bytecode.rs:{f['name']}:{q.show(x['recv'])}:declared-type-not-instantiated", TB, x["l"],
                     f"{f['name']}: `{q.show(x)[:60]}` is the field's declared type; whether the field occupies a slot depends on the instance (`Pair<void, int>`): a type parameter must be replaced by the instance's argument before it is compared with void, or field indices are off by one and GetField indexes past the end of the struct",
                     sample=f"{f['name']}: {q.show(x['recv'])} read under the instance's type arguments")
    r.count("declared field types read by the generator", m, 1, TB)


@rule("REPORT-BOTH", ["C13"], "the missing-cases report and the redundant-arms report are independent: once the matrix has been analysed, nothing returns before the useful flags have been read")
def report_both(ctx, r):
    items = ctx.file_items(EXH)
    if items is None:
        r.missing(EXH)
        return
    n = 0
    for f, _ in q.iter_items(items):
        if f["k"] != "Fn" or f.get("body") is None:
            continue
        stmts = f["body"]["stmts"]
        red = [i for i, s_ in enumerate(stmts) if any(x["k"] in ("Path", "Struct") and "Error::RedundantArms" in str(x.get("p")) for x in q.walk(s_))]
        comp = [i for i, s_ in enumerate(stmts) if any(x["k"] == "Call" and q.show(x["f"]).endswith("compute_exhaustiveness_and_usefulness") for x in q.walk(s_))]
        if not red or not comp:
            continue
        n += 1
        between = stmts[comp[0] + 1:red[-1]]
        exits = [x for s_ in between for x in q.walk(s_) if x["k"] == "Return" or (x["k"] == "Macro" and x.get("name") in ("panic", "unreachable", "todo"))]
        r.ob(not exits, f"pat_exhaustiveness.rs:{f['name']}:redundancy-report-skipped", EXH, exits[0]["l"] if exits else f["l"],
             f"{f['name']} leaves (line {exits[0]['l'] if exits else '?'}) after the matrix was analysed but before the useful flags are read: a match that is both non-exhaustive and has an unreachable arm gets only the first report, so an unreachable arm goes unreported",
             sample=f"{f['name']}: no exit between the analysis and the redundant-arms report")
        reads = any(x["k"] == "Field" and x["f"] == "useful" for s_ in stmts[comp[0] + 1:red[-1] + 1] for x in q.walk(s_))
        r.ob(reads, f"pat_exhaustiveness.rs:{f['name']}:useful-flags-not-read", EXH, f["l"], f"{f['name']} reports redundant arms without reading the rows' useful flags", sample=f"{f['name']}: redundant arms = rows with useful == false")
    r.count("functions reporting both diagnostics", n, 1, EXH)


@rule("MONO-VOID", ["C14", "C01", "C02"], "whether a value occupies a stack slot is decided from the type of the instance being compiled (get_ty(mono, ..)), never from the generic solution of the node")
def mono_void(ctx, r):
    items = ctx.file_items(TB)
    if items is None:
        r.missing(TB)
        return
    n = 0
    for f, _ in q.iter_items(items):
        if f["k"] != "Fn" or f.get("body") is None or f["name"] == "get_ty":
            continue
        lets = {}
        for x in q.walk(f["body"]):
            if x["k"] == "Local" and x.get("init") is not None:
                for b in q.pat_bindings(x["pat"]):
                    lets.setdefault(b, []).append(x["init"])
        for x in q.walk(f["body"]):
            if not (x["k"] == "Binary" and x["op"] in ("==", "!=") and any(q.show(s_).lstrip("&*") == "SolvedType::Void" for s_ in (x["a"], x["b"]))):
                continue
            other = x["b"] if q.show(x["a"]).lstrip("&*") == "SolvedType::Void" else x["a"]
            n += 1
            srcs = [other] + [i for v in q.idents_in(other) for i in lets.get(v, [])]
            generic = [s_ for s_ in srcs if any(y["k"] == "MethodCall" and y["m"] == "solution_of_node" for y in q.walk(s_))]
            r.ob(not generic, f"translate_bytecode.rs:{f['name']}:{q.show(other)[:40]}:void-test-on-generic-type", TB, x["l"],
                 f"{f['name']}: `{q.show(x)[:70]}` tests a type obtained with solution_of_node, i.e. the generic solution with the function's type parameters still in it; inside an instance compiled for T = void the answer is wrong and a pop is emitted for a value that was never pushed (or the reverse). Use get_ty(mono, ..)",
                 sample=f"{f['name']}: void test on an instance type")
    r.count("void tests in the generator", n, 30, TB)


@rule("VOID-EFFECTS", ["C02"], "whether a value is void decides whether it occupies a slot, never whether the expressions producing it are evaluated")
def void_effects(ctx, r):
    items = ctx.file_items(TB)
    if items is None:
        r.missing(TB)
        return
    n = 0
    for f, _ in q.iter_items(items):
        if f["k"] != "Fn" or f.get("body") is None or not f["name"].startswith("translate_"):
            continue

        def evals(node):
            return {q.show(x["args"][0]).lstrip("&") for x in q.walk(node) if x["k"] == "MethodCall" and x["m"] in ("translate_expr", "translate_stmt") and x["args"]} if node is not None else set()

        for c in q.walk(f["body"]):
            if c["k"] != "If" or "SolvedType::Void" not in q.show(c["c"]):
                continue
            t, e = evals(c["t"]), evals(c.get("e"))
            if not t and not e:
                continue
            n += 1
            only_one = sorted(t ^ e)
            r.ob(not only_one, f"translate_bytecode.rs:{f['name']}:{'+'.join(only_one)[:50]}:evaluated-only-when-{'non-' if t - e else ''}void", TB, c["l"],
                 f"{f['name']}: under `{q.show(c['c'])[:60]}` the sub-expression(s) {only_one} are translated in one branch only: when the value is void the call producing it (and its side effects, and any bounds check) silently disappears from the program",
                 sample=f"{f['name']}: operands evaluated on both sides of a void test")
    r.count("void tests guarding sub-expression translation", n, 0, TB)


@rule("OR-DECISIONS", ["C14", "C12"], "the record of which alternative of each or-pattern has been taken lives as long as the loop that walks the alternatives: a set created afresh inside that loop forgets the alternatives taken in earlier iterations")
def or_decisions(ctx, r):
    items = ctx.file_items(TB)
    if items is None:
        r.missing(TB)
        return
    n = 0
    for f, _ in q.iter_items(items):
        if f["k"] != "Fn" or f.get("body") is None:
            continue
        nodes = list(q.walk(f["body"]))
        order = {id(x): i for i, x in enumerate(nodes)}
        sets = [x for x in nodes if x["k"] == "Local" and x.get("init") is not None and x["pat"].get("k") == "PIdent" and q.show(x["init"]).replace(" ", "") in ("HashSet::default()", "HashSet::new()")]
        if not sets:
            continue
        blocks = [b for b in nodes if b["k"] == "Block"]
        loops = [l for l in nodes if l["k"] in ("For", "Loop", "While")]
        for c in nodes:
            if c["k"] != "MethodCall" or q.show(c["recv"]) != "self":
                continue
            for a in c["args"]:
                nm = q.show(q.strip_refs(a))
                cands = [s for s in sets if s["pat"]["name"] == nm and order[id(s)] < order[id(c)]
                         and any(any(st is s for st in b["stmts"]) and any(y is c for y in q.walk(b)) for b in blocks)]
                if not cands:
                    continue
                decl = max(cands, key=lambda s: order[id(s)])
                enclosing = [l for l in loops if any(y is c for y in q.walk(l["body"]))]
                if not enclosing:
                    continue
                n += 1
                inside = [l for l in enclosing if any(y is decl for y in q.walk(l["body"]))]
                r.ob(not inside, f"translate_bytecode.rs:{f['name']}:{c['m']}:{nm}:decision-set-recreated-per-iteration", TB, decl["l"],
                     f"{f['name']}: `{nm}` is handed to `{c['m']}` inside a loop that emits one piece of code per alternative of an or-pattern, but it is created inside that loop: every iteration starts with no alternative taken, so each label binds (or compares) through the left-most alternative although the other pass selected the alternative by its own, persistent set - `(n, 0) | (0, n)` matched by the right alternative binds n from the wrong component",
                     sample=f"{f['name']}: `{nm}` outlives the loop around {c['m']}")
    r.count("decision sets handed to pattern walks inside loops", n, 2, TB)


@rule("BINDING-PAT-TOTAL", ["C01", "C12"], "a pattern that binds without testing (`let`, `for`) is checked to match every value of its type: the exhaustiveness pass hands it to the usefulness analysis")
def binding_pat_total(ctx, r):
    items = ctx.file_items(EXH)
    ast = ctx.file_items("abra_core/src/ast.rs")
    if items is None or ast is None:
        r.missing("pat_exhaustiveness.rs / ast.rs")
        return
    sk = q.find_enum(ast, "StmtKind")
    if sk is None:
        r.missing("StmtKind", "abra_core/src/ast.rs")
        return
    # statement kinds that carry a pattern, and where
    carriers = {}
    for v in sk["variants"]:
        for i, fl in enumerate(v["fields"]):
            t = fl["ty"].replace(" ", "")
            if t in ("Rc<Pat>", "PatAnnotated") or "Rc<Pat>" in t:
                carriers[v["name"]] = i
    r.count("statement kinds carrying a binding pattern", len(carriers), 2, "abra_core/src/ast.rs")
    # functions of the pass that reach the analysis
    analysers = set()
    fns = {f["name"]: f for f, _ in q.iter_items(items) if f["k"] == "Fn" and f.get("body") is not None}
    changed = True
    while changed:
        changed = False
        for name, f in fns.items():
            if name in analysers:
                continue
            for c in q.walk(f["body"]):
                if c["k"] == "Call" and c["f"]["k"] == "Path" and (q.last_seg(c["f"]["p"]) == "compute_exhaustiveness_and_usefulness" or q.last_seg(c["f"]["p"]) in analysers):
                    # only functions that are handed patterns (or arms), not the walkers over statements and expressions
                    if any("Pat" in p_.get("ty", "") or "MatchArm" in p_.get("ty", "") for p_ in f["params"]):
                        analysers.add(name)
                        changed = True
                    break
    n = 0
    for fname, f in fns.items():
        for m in q.walk(f["body"]):
            if m["k"] != "Match" or not any(h.startswith("StmtKind::") for a in m["arms"] for h in q.pat_heads(a["pat"])):
                continue
            for a in m["arms"]:
                for p in q.walk(a["pat"]):
                    if p["k"] == "PTupleStruct" and p["p"].startswith("StmtKind::") and q.last_seg(p["p"]) in carriers:
                        v = q.last_seg(p["p"])
                        slot = p["elems"][carriers[v]] if carriers[v] < len(p["elems"]) else None
                        names = set(q.pat_bindings(slot)) if slot is not None else set()
                        n += 1
                        checked = any(c["k"] == "Call" and c["f"]["k"] == "Path" and q.last_seg(c["f"]["p"]) in analysers and any(q.idents_in(x) & names for x in c["args"]) for c in q.walk(a["body"]))
                        r.ob(bool(names) and checked, f"pat_exhaustiveness.rs:{fname}:{v}:binding-pattern-not-analysed", EXH, a["l"],
                             f"{fname}: the pattern of `{v}` binds its variables without any test at run time, but the pass never asks whether it matches every value: `let (option.some(s), n) = (o, 1)` is accepted and, for `o = none`, `s` is bound to whatever lies in the payload slot (internal 'expected string but got int' fault)",
                             sample=f"{fname}: {v} pattern analysed by {sorted(analysers)}")
    r.count("binding patterns met by the exhaustiveness pass", n, 2, EXH)


@rule("SUBST-DEEP", ["C13", "C12", "C04"], "instantiating a declared type with the column's type arguments reaches type parameters at any depth: the substitution recurses into every composite type unconditionally")
def subst_deep(ctx, r):
    TCF = "abra_core/src/statics/typecheck.rs"
    tc = ctx.file_items(TCF)
    st = q.find_enum(tc, "SolvedType") if tc else None
    if st is None:
        r.missing("enum SolvedType", TCF)
        return
    composite = {v["name"]: [i for i, fl in enumerate(v["fields"]) if "SolvedType" in fl["ty"]] for v in st["variants"]}
    composite = {k: v for k, v in composite.items() if v}
    r.count("composite type constructors", len(composite), 3, TCF)
    n = 0
    for file in (EXH,):
        items = ctx.file_items(file)
        if items is None:
            r.missing(file)
            continue
        short = file.split("/")[-1]
        for f, _ in q.iter_items(items):
            if f["k"] != "Fn" or f.get("body") is None:
                continue
            ps = [p for p in f["params"] if not p.get("self")]
            if not (any("HashMap<PolytypeDeclaration" in p.get("ty", "").replace(" ", "") for p in ps) and (f.get("ret") or "").strip() in ("Type", "SolvedType")):
                continue
            rec = lambda node: [c for c in q.walk(node) if c["k"] == "Call" and c["f"]["k"] == "Path" and q.last_seg(c["f"]["p"]) == f["name"]]  # noqa: E731
            if not rec(f["body"]):
                continue
            for m in q.walk(f["body"]):
                if m["k"] != "Match":
                    continue
                handled = {}
                for a in m["arms"]:
                    for h in q.pat_heads(a["pat"]):
                        if "::" in h and q.last_seg(h) in composite:
                            handled[q.last_seg(h)] = a
                if not handled:
                    continue
                for v, slots in sorted(composite.items()):
                    n += 1
                    a = handled.get(v)
                    key = f"{short}:{f['name']}:{v}"
                    if a is None:
                        r.find(key + ":not-descended", file, m["l"], f"{f['name']}: types built with `{v}` are returned as they are; a type parameter inside one (`option<(int, T)>`) is never replaced, so the column is treated as an open type and exhaustive listings of it are not recognised")
                        continue
                    r.ob(a.get("guard") is None, key + ":conditional-descent", file, a["l"],
                         f"{f['name']}: the arm for `{v}` descends only `if {q.show(a['guard']) if a.get('guard') else ''}`: a type parameter nested one level deeper than the test looks (`option<(int, T)>`, `option<option<T>>`) keeps its variable, the sub-column counts as an open type, `true` plus `false` no longer cover it and an unreachable catch-all arm after them goes unreported",
                         sample=f"{f['name']}: {v} rebuilt unconditionally")
                    # every type-valued component of the constructor goes through the recursion
                    binds = []
                    for p in q.walk(a["pat"]):
                        if p["k"] == "PTupleStruct" and q.last_seg(p["p"]) == v:
                            binds = [q.pat_bindings(p["elems"][i]) for i in slots if i < len(p["elems"])]
                    fed = {i_ for c in rec(a["body"]) for i_ in q.idents_in(c)} | {i_ for c in q.walk(a["body"]) if c["k"] == "MethodCall" and c["m"] in ("map", "for_each") and rec(c) for i_ in q.idents_in(c["recv"])}
                    r.ob(all(b and b[0] in fed for b in binds), key + ":component-not-substituted", file, a["l"],
                         f"{f['name']}: a type-valued component of `{v}` ({binds}) does not go through the substitution", sample=f"{f['name']}: every component of {v} substituted")
    r.count("(substitution function, composite constructor) pairs", n, 3, EXH)

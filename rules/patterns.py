"""FIELD-ORDER (C14): every order-sensitive pattern traversal takes named sub-patterns in declaration order."""
from lib import synq as q
from lib.core import rule

TB = "abra_core/src/translate_bytecode.rs"
EXH = "abra_core/src/statics/pat_exhaustiveness.rs"

ORDER_SENSITIVE = {
    TB: ["translate_pat_comparison", "handle_pat_binding", "traverse_arm_pat", "struct_pat_fields_in_order", "variant_named_pats_in_order"],
    EXH: ["from_ast_pat"],
}


def named_bindings(fn):
    """Names bound by `PatStructFields::Named(x)` / `PatVariantData::Named(x)` patterns anywhere in fn (match arms, params)."""
    out = []
    for x in q.walk(fn["body"]):
        if x["k"] == "Arm":
            for p in q.walk(x["pat"]):
                if p["k"] == "PTupleStruct" and q.last_seg(p["p"]) == "Named" and p["elems"] and p["elems"][0]["k"] == "PIdent":
                    out.append((p["elems"][0]["name"], x))
    return out


def decl_order_lookup(use, fn):
    """Is `use` (a Path node naming the list) inside `DECL.fields.iter().map(|f| .. named.iter().find(|(n, _)| n.v == f.name..) ..)`?"""
    for m in q.walk(fn["body"]):
        if m["k"] == "MethodCall" and m["m"] == "map" and m["args"] and m["args"][0]["k"] == "Closure":
            recv = q.show(m["recv"])
            if ".fields.iter()" not in recv.replace(" ", ""):
                continue
            cl = m["args"][0]
            if not any(y is use for y in q.walk(cl["body"])):
                continue
            # the lookup must be by name equality against the declaration's field
            for y in q.walk(cl["body"]):
                if y["k"] == "MethodCall" and y["m"] in ("find", "position") and any(z is use for z in q.walk(y["recv"])):
                    pred = q.show(y["args"][0]) if y["args"] else ""
                    if "==" in pred and ".v" in pred:
                        return True
    return False


@rule("FIELD-ORDER", ["C14", "C12"], "named struct / variant sub-patterns are taken in declaration order by every traversal that compares, binds or deconstructs")
def field_order(ctx, r):
    n_sites = 0
    for file, names in ORDER_SENSITIVE.items():
        items = ctx.file_items(file)
        if items is None:
            r.missing(file)
            continue
        short = file.split("/")[-1]
        for name in names:
            fns = [f for f, _ in q.iter_items(items) if f["k"] == "Fn" and f["name"] == name and f.get("body") is not None]
            if not fns:
                r.missing(f"{short}:{name}", file)
                continue
            f = fns[0]
            params = [b for p in f["params"] if not p.get("self") for b in q.pat_bindings(p["pat"])]
            lists = [(nm, arm) for nm, arm in named_bindings(f)]
            # helper parameters of type &[(Rc<Identifier>, Rc<Pat>)] are named lists too
            for p in f["params"]:
                if not p.get("self") and "Rc<Identifier>" in p.get("ty", "") and "Rc<Pat>" in p.get("ty", ""):
                    lists.append((q.pat_bindings(p["pat"])[0], {"body": f["body"], "l": f["l"]}))
            for nm, arm in lists:
                uses = [x for x in q.walk(arm["body"]) if x["k"] == "Path" and x["p"] == nm]
                for u in uses:
                    n_sites += 1
                    # (a) passed to an ordering helper
                    as_arg = any(c["k"] == "MethodCall" and c["m"].endswith("_in_order") and any(a is u or (a["k"] == "Ref" and a["e"] is u) for a in c["args"]) for c in q.walk(arm["body"]))
                    ok = as_arg or decl_order_lookup(u, f)
                    r.ob(ok, f"{short}:{name}:{nm}:source-order", file, u["l"],
                         f"{name}: the named sub-pattern list `{nm}` is consumed in source order; the fields of a struct or variant are laid out in declaration order, so `P(y = a, x = b)` would compare/bind the wrong components",
                         sample=f"{name}: `{nm}` taken in declaration order")
    r.count("uses of named sub-pattern lists", n_sites, 6, TB)
    # positional struct patterns and tuples are in order by construction; or-patterns: slots are declared from the left side
    items = ctx.file_items(TB)
    if items is None:
        return
    cl = q.find_fn(items, "collect_locals_pat", impl_ty="Translator")
    hb = q.find_fn(items, "handle_pat_binding", impl_ty="Translator")
    if cl is None or hb is None:
        r.missing("collect_locals_pat / handle_pat_binding", TB)
        return
    from rules.frontend import arm_of

    a = arm_of(cl, "PatKind", "Or")
    left = None
    if a is not None:
        from lib import astmodel as am

        fb = am.field_bindings(a["pat"], "Or")
        left = fb[0]["name"] if fb and fb[0]["k"] == "PIdent" else None
        visits_left = any(x["k"] == "MethodCall" and x["m"] == "collect_locals_pat" and q.show(x["args"][0]) == left for x in q.walk(a["body"]))
        r.ob(visits_left, "translate_bytecode.rs:collect_locals_pat:Or:slots-from-left", TB, a["l"], "collect_locals_pat must declare the slots of an or-pattern from its left side", sample="or-pattern: slots declared by the left side")
    b = arm_of(hb, "PatKind", "Binding")
    if b is not None:
        fallback = any(x["k"] == "Index" and "resolution_map" in q.show(x["e"]) for x in q.walk(b["body"]))
        r.ob(fallback, "translate_bytecode.rs:handle_pat_binding:Binding:right-side-slot", TB, b["l"], "a binding on the right side of an or-pattern has no slot of its own: handle_pat_binding must fall back to the declaration it resolves to (the left side's slot)", sample="or-pattern: right-side bindings store into the left side's slot")
    # every DeconstructStruct of a struct/variant pattern is followed by traversal in the same order helper
    for name in ("translate_pat_comparison", "handle_pat_binding", "traverse_arm_pat"):
        f = q.find_fn(items, name, impl_ty="Translator")
        if f is None:
            continue
        a = arm_of(f, "PatKind", "Struct")
        if a is None:
            # translate_pat_comparison matches Struct in a nested match
            for x in q.walk(f["body"]):
                if x["k"] == "Arm" and "PatKind::Struct" in q.pat_heads(x["pat"]):
                    a = x
        if a is None:
            r.missing(f"{name}:Struct", TB)
            continue
        r.ob(any(x["k"] == "MethodCall" and x["m"] == "struct_pat_fields_in_order" for x in q.walk(a["body"])), f"translate_bytecode.rs:{name}:Struct:order-helper", TB, a["l"],
             f"{name} must take the fields of a struct pattern through struct_pat_fields_in_order", sample=f"{name}: Struct via struct_pat_fields_in_order")

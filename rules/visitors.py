"""Visitor group: VISIT-TOTAL (no diverging arm for a constructible variant), VISIT-COMPLETE (no child skipped)."""
from lib import astmodel as am
from lib import synq as q
from lib.inline import walk_inl as W
from lib.core import rule

TB = "abra_core/src/translate_bytecode.rs"
RES = "abra_core/src/statics/resolve.rs"
TC = "abra_core/src/statics/typecheck.rs"
EXH = "abra_core/src/statics/pat_exhaustiveness.rs"
LSP = "abra_core/src/lsp_helper.rs"

# (file, function, enum, variant) -> reason the diverging arm cannot be reached by an accepted program.
# One named site per line; anything not listed is a finding.
DIVERGE_JUSTIFIED = {
    (TB, "translate_expr", "ExprKind", v): "callee of a call is a literal/array/tuple: the checker rejects calling a non-function type"
    for v in ("Nil", "Int", "Float", "Bool", "Str", "Array", "Tuple")
}
DIVERGE_JUSTIFIED[(TB, "translate_expr", "ExprKind", "TaskBlock")] = "callee of a call is `task {..}`: a task block has type void and calling void is a type error"

FAMILIES = {
    # name: (file, member name prefixes, child categories the family must reach, strictness)
    "exhaustiveness": (EXH, ("check_pattern_exhaustiveness_",), {"expr", "stmt", "arm"}),
    "captures": (TB, ("collect_captures_",), {"expr", "stmt", "arm"}),
    "locals": (TB, ("collect_locals_",), {"expr", "stmt", "arm", "pat"}),
    "resolver": (RES, ("resolve_names_",), {"expr", "stmt", "arm", "pat", "type", "arg"}),
    "lsp-find": (LSP, ("find_in_",), {"expr", "stmt", "arm"}),
    "lsp-ident": (LSP, ("find_ident_in_",), {"expr", "stmt", "arm", "pat"}),
    "lsp-vars": (LSP, ("collect_vars_in_", "collect_bindings_in_"), {"expr", "stmt", "arm"}),
}

# (family, function, variant, field index) -> reason a child may be skipped
SKIP_JUSTIFIED = {
    ("locals", "collect_locals_expr", "AnonymousFunction", 2): "a lambda body is a separate frame: its locals are collected when the lambda itself is compiled",
    ("locals", "collect_locals_expr", "TaskBlock", 0): "a task body is a separate thread frame",
    ("lsp-vars", "collect_vars_in_expr", "AnonymousFunction", 2): "completion lists variables visible at the cursor; descent into the lambda happens through its own scope entry",
    ("locals", "collect_locals_pat", "Or", 1): "both sides of an or-pattern bind the same names; slots are declared from the left side and the right side is mapped onto them (checked by FIELD-ORDER)",
}

PROP_FAMILIES_TOTAL = {
    "C03": [TB],
    "C04": [RES, TC, EXH, "abra_core/src/statics.rs"],
    "C34": [LSP],
}


def discover(ctx, r, files):
    out = []
    for file in files:
        items = ctx.file_items(file)
        if items is None:
            r.missing(file)
            continue
        for f, path in q.iter_items(items):
            if f["k"] != "Fn" or f.get("body") is None:
                continue
            for enum, m in am.principal_matches(f):
                out.append((file, f, enum, m))
    return out


def visit_total(ctx, r, files, floor):
    enums = am.ast_enums(ctx, r)
    if enums is None:
        return
    vs = discover(ctx, r, files)
    r.count("visitor matches", len(vs), floor)
    n = 0
    assign_lhs = assign_lhs_forms(ctx, r)
    typed = 0
    for file, f, enum, m in vs:
        variants = dict(enums[enum])
        if under_type_dispatch(f, m):
            # pattern-kind dispatch nested under a match on the solved type of the scrutinee: a typed fallback
            # (generate_constraints_pat gives each pattern kind its type); counted, not decided here
            typed += 1
            continue
        scr = q.show(m["e"])
        if enum == "ExprKind" and is_assign_lhs_scrutinee(f, m):
            if assign_lhs is None:
                r.missing("parse.rs:assignment-lhs-forms", "abra_core/src/parse.rs")
                continue
            variants = {v: variants[v] for v in variants if v in assign_lhs}
        for arm in m["arms"]:
            vs_here = am.arm_variants(arm, enum)
            heads = q.pat_heads(arm["pat"])
            div = q.only_diverges(arm["body"])
            if heads == ["_"] or (not vs_here and arm["pat"]["k"] in ("PWild", "PIdent")):
                if div:
                    # a diverging catch-all: every variant not named by another arm diverges
                    named = {v for a in m["arms"] for v in am.arm_variants(a, enum)}
                    for v in variants:
                        if v not in named:
                            n += 1
                            key = (file, f["name"], enum, v)
                            check_div(r, key, file, arm["l"], m, f, True)
                continue
            for v in vs_here:
                n += 1
                if div:
                    check_div(r, (file, f["name"], enum, v), file, arm["l"], m, f, False)
                else:
                    r.ob(True, "", file, arm["l"], "", sample=f"{f['name']}: {enum}::{v} handled")
    r.instances["visitor x variant pairs"] = n
    r.instances["typed sub-dispatch matches (not decided)"] = typed


def under_type_dispatch(f, m):
    """Is match m nested inside an arm of a match whose patterns are SolvedType::* / Type::*?"""
    def go(n, inside):
        if n is m:
            return inside
        if isinstance(n, dict) and n.get("k") == "Match":
            heads = [h for a in n["arms"] for h in q.pat_heads(a["pat"])]
            typed = any(h.startswith(("SolvedType::", "Type::")) for h in heads)
            for a in n["arms"]:
                res = go(a["body"], inside or typed)
                if res is not None:
                    return res
            return go(n["e"], inside)
        for c in (q.children(n) if isinstance(n, dict) else []):
            res = go(c, inside)
            if res is not None:
                return res
        return None

    return bool(go(f["body"], False))


def is_assign_lhs_scrutinee(f, m):
    """m scrutinises the first field of a StmtKind::Assign pattern binding in the same function."""
    name = q.show(m["e"]).replace("&*", "").replace(".kind", "")
    for x in q.walk(f["body"]):
        if x["k"] == "Arm":
            fb = am.field_bindings(x["pat"], "Assign")
            if fb and fb[0]["k"] == "PIdent" and fb[0]["name"] == name:
                return True
    return False


def assign_lhs_forms(ctx, r):
    """ExprKind variants the parser accepts on the left of an assignment (the matches! guarding StmtKind::Assign)."""
    items = ctx.file_items("abra_core/src/parse.rs")
    if items is None:
        return None
    for f, _ in q.iter_items(items):
        if f["k"] != "Fn" or f.get("body") is None:
            continue
        for x in q.walk(f["body"]):
            if x["k"] == "If" and any(y["k"] == "Path" and y["p"] == "StmtKind::Assign" for y in q.walk(x["t"])):
                for y in q.walk(x["c"]):
                    if y["k"] == "Macro" and y["name"] == "matches" and y.get("pat"):
                        return {q.last_seg(h) for h in q.pat_heads(y["pat"]) if h.startswith("ExprKind::")}
    return None


def check_div(r, key, file, line, m, f, catchall):
    file_, fn, enum, v = key
    short = file.split("/")[-1]
    if key in DIVERGE_JUSTIFIED:
        r.ob(True, "", file, line, "", sample=f"{fn}: {enum}::{v} diverges, justified: {DIVERGE_JUSTIFIED[key]}")
        r.notes.append(f"{short}:{fn}:{enum}::{v} diverging arm justified: {DIVERGE_JUSTIFIED[key]}")
        return
    scr = q.show(m["e"])
    ctxs = "" if scr in ("&*expr.kind", "&*stmt.kind", "&*pat.kind", "&*item.kind", "&*statement.kind", "&*typ.kind", "&*ty.kind", "&*self.kind") else ":" + scr.replace("&*", "").replace(".kind", "")
    r.find(f"{short}:{fn}{ctxs}:{enum}::{v}:diverges", file, line,
           f"{fn}: the arm for {enum}::{v}{' (catch-all)' if catchall else ''} only panics ({q.show(m['e'])}); the parser can build this variant and nothing recorded here makes it unreachable")


@rule("VISIT-TOTAL-GEN", ["C03"], "code generator visitors have no diverging arm for a parser-constructible AST variant (unless justified)")
def visit_total_gen(ctx, r):
    visit_total(ctx, r, PROP_FAMILIES_TOTAL["C03"], 20)


@rule("VISIT-TOTAL-FRONT", ["C04", "C34"], "resolver, type checker and exhaustiveness visitors have no diverging arm for a constructible AST variant")
def visit_total_front(ctx, r):
    visit_total(ctx, r, PROP_FAMILIES_TOTAL["C04"], 26)


@rule("VISIT-TOTAL-LSP", ["C34"], "editor-analysis visitors have no diverging arm for a constructible AST variant")
def visit_total_lsp(ctx, r):
    visit_total(ctx, r, PROP_FAMILIES_TOTAL["C34"], 12)


# ---------------------------------------------------------------------------------------- VISIT-COMPLETE


def family_fns(ctx, r, fam):
    file, prefixes, cats = FAMILIES[fam]
    items = ctx.file_items(file)
    if items is None:
        r.missing(file)
        return None
    fns = [f for f, _ in q.iter_items(items) if f["k"] == "Fn" and f.get("body") is not None and f["name"].startswith(prefixes)]
    return file, fns, cats, prefixes


def visit_complete(ctx, r, fam, floor):
    """Family-level: for every (variant, child field) some visitor of the family must pass the child on to the family."""
    enums = am.ast_enums(ctx, r)
    got = family_fns(ctx, r, fam)
    if enums is None or got is None:
        return
    file, fns, cats, prefixes = got
    names = {f["name"] for f in fns}
    status = {}  # (enum, variant, field index) -> [(fn, state, line, detail)]
    for f in fns:
        for enum, m in am.principal_matches(f):
            if enum not in ("ExprKind", "StmtKind", "PatKind", "ItemKind"):
                continue
            if under_type_dispatch(f, m):
                continue
            variants = enums[enum]
            for arm in m["arms"]:
                for v in am.arm_variants(arm, enum):
                    fields = variants.get(v)
                    if fields is None:
                        continue
                    subs = am.field_bindings(arm["pat"], v)
                    for i, (fname, fty, fcats) in enumerate(fields):
                        need = [c for c in fcats if c in cats]
                        if not need:
                            continue
                        sp = subs[i] if subs is not None and i < len(subs) else None
                        if subs is not None and any(s["k"] == "PRest" for s in subs):
                            sp = None
                        if sp is not None and q.show_pat(sp) == "None":
                            continue  # this arm is the no-child case of an Option field
                        binds = q.pat_bindings(sp) if sp is not None else []
                        if not binds:
                            st = ("discarded", q.show_pat(sp) if sp else "..")
                        elif am.flows_into(arm["body"], binds, lambda nm: nm in names):
                            st = ("visited", ", ".join(binds))
                        else:
                            st = ("bound-not-passed", ", ".join(binds))
                        status.setdefault((enum, v, i, fty, tuple(need)), []).append((f["name"], st, arm["l"]))
    n_vis = 0
    for (enum, v, i, fty, need), sts in sorted(status.items()):
        key = f"{file.split('/')[-1]}:{fam}:{enum}::{v}:field{i}"
        just = next((SKIP_JUSTIFIED[(fam, fn, v, i)] for fn, _, _ in sts if (fam, fn, v, i) in SKIP_JUSTIFIED), None)
        if just:
            r.ob(True, "", file, sts[0][2], "", sample=f"{fam}: {v}.{i} skipped, justified: {just}")
            r.notes.append(f"{key} skipped by design: {just}")
            continue
        ok = any(st[0] == "visited" for _, st, _ in sts)
        if ok:
            n_vis += 1
        desc = "; ".join(f"{fn}: {st[0]} (`{st[1]}`)" for fn, st, _ in sts)
        r.ob(ok, key + ":child-not-visited", file, sts[0][2],
             f"{fam} pass: {enum}::{v} has a {'/'.join(need)} child (field {i}: {fty}) that no visitor of the family passes on ({desc}); constructs inside it are never reached by this pass",
             sample=f"{fam}: {v}.{i} ({'/'.join(need)}) visited by {[fn for fn, st, _ in sts if st[0] == 'visited']}")
    r.count(f"{fam}: (variant, child) pairs", len(status), floor, file)
    r.instances[f"{fam}: children visited"] = n_vis
    r.instances[f"{fam}: functions"] = len(fns)


@rule("VISIT-COMPLETE-EXH", ["C12"], "the exhaustiveness pass reaches every match expression: no expr/stmt/arm child of any AST variant is skipped")
def vc_exh(ctx, r):
    visit_complete(ctx, r, "exhaustiveness", 30)


@rule("VISIT-COMPLETE-CAPTURES", ["C03", "C19", "C20"], "capture analysis reaches every variable use: no expr/stmt/arm child is skipped")
def vc_captures(ctx, r):
    visit_complete(ctx, r, "captures", 29)


@rule("VISIT-COMPLETE-LOCALS", ["C03", "C20"], "locals analysis reaches every binding site of the frame")
def vc_locals(ctx, r):
    visit_complete(ctx, r, "locals", 30)


@rule("VISIT-COMPLETE-RESOLVE", ["C03", "C21"], "the resolver reaches every identifier use: no expr/stmt/pat/type/argument child is skipped")
def vc_resolve(ctx, r):
    visit_complete(ctx, r, "resolver", 39)
    # function parameters: default values and annotations must be resolved wherever parameters are bound
    got = family_fns(ctx, r, "resolver")
    if got is None:
        return
    file, fns, cats, prefixes = got
    items = ctx.file_items(file)
    helpers = [f for f, _ in q.iter_items(items) if f["k"] == "Fn" and f.get("body") is not None and ("func_helper" in f["name"] or f["name"] == "resolve_names_fn_arg")]
    found = False
    for f in helpers:
        uses_default = any(x["k"] == "Field" and x["f"] == "default_val" for x in W(f["body"]))
        if uses_default:
            found = True
    r.ob(found, "resolve.rs:function-parameters:default_val-not-resolved", file, helpers[0]["l"] if helpers else 0,
         "no resolver function that binds function parameters visits `default_val`: identifiers in default-value expressions are never resolved (the generator then panics on the missing resolution)",
         sample="parameter default values are name-resolved")


@rule("VISIT-COMPLETE-LSP", ["C35", "C34"], "the editor's offset searches reach every expr/stmt/arm/pattern child, so every identifier occurrence can be found under the cursor")
def vc_lsp(ctx, r):
    visit_complete(ctx, r, "lsp-find", 30)
    visit_complete(ctx, r, "lsp-ident", 37)


@rule("LSP-SOURCE", ["C35"], "go-to-definition and hover read the very tables the compiler uses, keyed by the node found under the cursor")
def lsp_source(ctx, r):
    lib = ctx.file_items("abra_core/src/lib.rs")
    lsp = ctx.file_items(LSP)
    if lib is None or lsp is None:
        r.missing("lib.rs / lsp_helper.rs")
        return
    d = None
    t = None
    for f, _ in q.iter_items(lib):
        if f["k"] == "Fn" and f.get("body") is not None:
            if f["name"] == "definition_at":
                d = f
            if f["name"] == "type_at":
                t = f
    if d is None or t is None:
        r.missing("definition_at / type_at", "abra_core/src/lib.rs")
        return
    # definition_at: node found at the offset -> its id -> resolution_map -> declaration_location
    found = [b for x in q.walk(d["body"]) if x["k"] == "Local" and x.get("init") is not None and any(y["k"] == "Call" and "find_identifier_at_offset" in q.show(y["f"]) for y in q.walk(x["init"])) for b in q.pat_bindings(x["pat"])]
    ids = [b for x in q.walk(d["body"]) if x["k"] == "Local" and x.get("init") is not None and found and q.show(x["init"]).replace(" ", "") == f"{found[0]}.id()" for b in q.pat_bindings(x["pat"])]
    look = [x for x in q.walk(d["body"]) if x["k"] == "MethodCall" and x["m"] == "get" and q.show(x["recv"]).endswith("ctx.resolution_map")]
    ok = bool(found) and bool(look) and (q.show(look[0]["args"][0]).lstrip("&") in ids or q.show(look[0]["args"][0]).replace(" ", "").lstrip("&") == f"{found[0]}.id()")
    r.ob(ok, "lib.rs:definition_at:not-the-compilers-resolution", "abra_core/src/lib.rs", d["l"],
         "definition_at must look the identifier found under the cursor up in ctx.resolution_map by its node id - the table the type checker and the generator use - so that it names the declaration the compiler actually uses (the innermost binding), never a lookup by name",
         sample="definition_at: resolution_map[id of the identifier at the offset]")
    tail = d["body"]["stmts"][-1]
    r.ob(tail["k"] == "ExprStmt" and q.show(tail["e"]).startswith("declaration_location("), "lib.rs:definition_at:location", "abra_core/src/lib.rs", d["l"], "definition_at must return declaration_location(decl)")
    sol = [x for x in q.walk(t["body"]) if x["k"] == "MethodCall" and x["m"] == "solution_of_node" and q.show(x["recv"]).endswith("ctx")]
    node_v = [b for x in q.walk(t["body"]) if x["k"] == "Local" and x.get("init") is not None and any(y["k"] == "Call" and "find_innermost_node_at_offset" in q.show(y["f"]) for y in q.walk(x["init"])) for b in q.pat_bindings(x["pat"])]
    r.ob(bool(sol) and bool(node_v) and q.show(sol[0]["args"][0]) == node_v[0], "lib.rs:type_at:not-the-checkers-solution", "abra_core/src/lib.rs", t["l"],
         "type_at must report ctx.solution_of_node of the innermost node at the offset: the type the checker inferred", sample="type_at: solution_of_node(innermost node at the offset)")
    # declaration_location names the declaration's own name node for every kind that has a source position
    dl = q.find_fn(lsp, "declaration_location")
    if dl is None:
        r.missing("declaration_location", LSP)
        return
    m = next((x for x in q.walk(dl["body"]) if x["k"] == "Match"), None)
    n = 0
    for a in (m["arms"] if m else []):
        heads = [q.last_seg(h) for h in q.pat_heads(a["pat"])]
        body = q.show(a["body"]).replace(" ", "")
        if body.startswith("return"):
            continue
        n += 1
        binds = q.pat_bindings(a["pat"])
        ok = any(body.startswith(b + ".") or body.startswith(b + "[") or body == f"{b}.clone()" for b in binds) and (body.endswith(".node()") or body.endswith(".clone()"))
        r.ob(ok, f"lsp_helper.rs:declaration_location:{'|'.join(heads)}:location-not-from-the-declaration", LSP, a["l"],
             f"declaration_location, {heads}: the location must be taken from the declaration bound in this arm (its name node); it is `{body[:60]}`", sample=f"declaration_location {heads}: {body[:40]}")
    r.count("declaration kinds with a source location", n, 12, LSP)

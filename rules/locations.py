"""LOC-DISCIPLINE (C32): runtime error locations - tables are built after optimisation over the same instruction numbering the assembler uses,
looked up with the predecessor entry for pc-after-increment, and the trace is printed innermost first."""
import re
from lib import synq as q
from lib.core import rule
from rules.vm_ops import _arms

TB = "abra_core/src/translate_bytecode.rs"
ASM = "abra_core/src/assembly.rs"
VM = "abra_core/src/vm.rs"


@rule("LOC-DISCIPLINE", ["C32"], "source-location tables agree with the final instruction numbering; lookups use the predecessor entry; the traceback is innermost first")
def loc_discipline(ctx, r):
    t = ctx.file_items(TB)
    a = ctx.file_items(ASM)
    v = ctx.file_items(VM)
    if t is None or a is None or v is None:
        r.missing("translate_bytecode.rs / assembly.rs / vm.rs")
        return
    n = 0
    # (1) every expression and statement sets the current location before emitting
    for name in ("translate_expr", "translate_stmt"):
        f = q.find_fn(t, name, impl_ty="Translator")
        if f is None:
            r.missing(name, TB)
            continue
        n += 1
        st = q.body_stmts(f["body"])
        first = q.show(st[0].get("e") or {}) if st else ""
        r.ob(first.startswith("self.update_current_file_and_lineno(st, ") and ".node()" in first, f"translate_bytecode.rs:{name}:location-not-set-first", TB, f["l"],
             f"{name} must set the current file/line from its node before emitting anything (first statement is `{first[:70]}`): instructions would carry the location of the previous construct",
             sample=f"{name}: update_current_file_and_lineno first")
    # (2) an emitted instruction takes the current location
    lv = [impl for impl in q.find_impls(a, self_ty="Instr", trait="LineVariant")]
    if not lv:
        r.missing("assembly.rs:impl LineVariant for Instr", ASM)
    else:
        n += 1
        body = q.show(lv[0]["items"][0]["body"]["stmts"][-1]["e"])
        ok = all(s in body for s in ("lineno: st.curr_lineno", "file_id: st.curr_file", "func_id: st.curr_func"))
        r.ob(ok, "assembly.rs:LineVariant for Instr:location-fields", ASM, lv[0]["l"], f"an emitted instruction must record the translator's current line, file and function ({body[:120]})", sample="Instr.to_line: lineno/file_id/func_id from the translator state")
    ul = q.find_fn(t, "update_current_file_and_lineno", impl_ty="Translator")
    if ul is not None:
        n += 1
        sets = {q.show(x["a"]): q.show(x["b"]) for x in q.walk(ul["body"]) if x["k"] == "Assign"}
        ok = sets.get("st.curr_file") == "file_id" and sets.get("st.curr_lineno") == "line_no" and any(x["k"] == "MethodCall" and x["m"] == "line_number_for_index" and q.show(x["args"][0]) == "location.lo" for x in q.walk(ul["body"]))
        r.ob(ok, "translate_bytecode.rs:update_current_file_and_lineno", TB, ul["l"], f"the current line must be the line of the node's start offset in the node's file ({sets})", sample="update_current_file_and_lineno: line_number_for_index(location.lo)")
        # both are set for every node: an early exit keeps the file and line of whatever was translated before,
        # and a shortcut keyed on an offset alone confuses positions of different files
        top = ul["body"]["stmts"]
        exits = [x for x in q.walk(ul["body"]) if x["k"] == "Return"]
        uncond = {q.show(s_["e"]["a"]) for s_ in top if s_["k"] == "ExprStmt" and s_["e"]["k"] == "Assign"}
        r.ob(not exits and {"st.curr_file", "st.curr_lineno"} <= uncond, "translate_bytecode.rs:update_current_file_and_lineno:not-set-on-every-path", TB, exits[0]["l"] if exits else ul["l"],
             f"update_current_file_and_lineno does not set both the file and the line for every node (early exits: {len(exits)}; set unconditionally: {sorted(uncond)}): instructions of a function generated right after one from another file keep that file's name and line in run-time tracebacks",
             sample="update_current_file_and_lineno: file and line set unconditionally for every node")
    # (3) tables are built after optimisation, before assembly, over the same lines
    tr = q.find_fn(t, "translate", impl_ty="Translator")
    ta = q.find_fn(t, "translate_to_assembly", impl_ty="Translator")
    if tr is None or ta is None:
        r.missing("translate / translate_to_assembly", TB)
    else:
        n += 1
        order = [x["m"] if x["k"] == "MethodCall" else q.last_seg(q.show(x["f"])) for x in sorted((y for y in q.walk(tr["body"]) if (y["k"] == "MethodCall" and y["m"] in ("translate_to_assembly", "create_source_location_tables")) or (y["k"] == "Call" and q.last_seg(q.show(y["f"])) in ("gather_constants", "remove_labels_and_constants", "optimize"))), key=lambda y: y["l"])]
        r.ob(order == ["translate_to_assembly", "create_source_location_tables", "gather_constants", "remove_labels_and_constants"], "translate_bytecode.rs:translate:table-order", TB, tr["l"],
             f"translate must build the location tables from the final (optimised) lines before assembling them; call order is {order}", sample=f"translate: {' -> '.join(order)}")
        callers = [g["name"] for g, _ in q.iter_items(t) if g["k"] == "Fn" and g.get("body") is not None for x in q.walk(g["body"]) if x["k"] == "MethodCall" and x["m"] == "create_source_location_tables"]
        r.ob(callers == ["translate"], "translate_bytecode.rs:create_source_location_tables:callers", TB, tr["l"], f"the location tables must be built exactly once, by translate after optimisation; callers are {callers}", sample="create_source_location_tables <- translate only")
        opt = [x for x in q.walk(ta["body"]) if x["k"] == "Assign" and q.show(x["a"]) == "st.lines" and q.show(x["b"]).startswith("optimize(")]
        later_emit = any(x["k"] == "MethodCall" and x["m"] == "emit" and x["l"] > (opt[0]["l"] if opt else 0) for x in q.walk(ta["body"])) if opt else True
        r.ob(bool(opt) and not later_emit, "translate_bytecode.rs:translate_to_assembly:optimise-last", TB, ta["l"], "optimisation must be the last step of translate_to_assembly (nothing is emitted after it), so the tables see the final instruction numbering", sample="translate_to_assembly: st.lines = optimize(st.lines) last")
    # (4) both passes number instructions the same way: one index per Line::Instr, labels not counted
    cs = q.find_fn(t, "create_source_location_tables", impl_ty="Translator")
    rl = q.find_fn(a, "remove_labels_and_constants")
    if cs is None or rl is None:
        r.missing("create_source_location_tables / remove_labels_and_constants", TB)
    else:
        n += 1
        from lib.inline import materialize

        cs = materialize(cs, closures_only=False, pred=lambda inl: True)  # helpers such as push_unless_repeated(&mut table, index, value) read in place
        incs = [x for x in q.walk(cs["body"]) if x["k"] == "Binary" and x["op"] == "+=" and q.show(x["a"]) == "bytecode_index" and q.show(x["b"]) == "1"]
        inside = False
        for x in q.walk(cs["body"]):
            if x["k"] == "If" and x["c"]["k"] == "Let" and q.show_pat(x["c"]["pat"]).startswith("Line::Instr") and any(y is incs[0] for y in q.walk(x["t"])) if incs else False:
                inside = True
            # or: `let Line::Instr { .. } = line else { continue };` and the increment later in the same loop body
            if x["k"] in ("For", "While", "Loop") and incs:
                st_ = x["body"]["stmts"]
                gate = [i for i, s_ in enumerate(st_) if s_["k"] == "Local" and s_.get("else") is not None and q.show_pat(s_["pat"]).startswith("Line::Instr") and any(y["k"] == "Continue" for y in q.walk(s_["else"]))]
                inc_i = [i for i, s_ in enumerate(st_) if any(y is incs[0] for y in q.walk(s_)) and s_["k"] == "ExprStmt" and s_["e"] is incs[0]]
                if gate and inc_i and gate[0] < inc_i[0]:
                    inside = True
        r.ob(len(incs) == 1 and inside, "translate_bytecode.rs:create_source_location_tables:index-per-instruction", TB, cs["l"], "the table index must advance exactly once per Line::Instr (labels are not instructions)", sample="create_source_location_tables: bytecode_index += 1 per Line::Instr")
        ok2 = False
        for m in q.walk(rl["body"]):
            if m["k"] == "Match":
                for arm in m["arms"]:
                    hs = q.pat_heads(arm["pat"])
                    if "Line::Instr" in hs:
                        ok2 = any(x["k"] == "Binary" and x["op"] == "+=" and q.show(x["b"]) == "1" for x in q.walk(arm["body"]))
                    if "Line::Label" in hs and any(x["k"] == "Binary" and x["op"] == "+=" for x in q.walk(arm["body"])):
                        ok2 = False
                break
        r.ob(ok2, "assembly.rs:remove_labels_and_constants:offset-per-instruction", ASM, rl["l"], "label offsets must count Line::Instr only, like the location tables", sample="remove_labels_and_constants: offset += 1 per Line::Instr")
        for tbl, val in (("filename_table", "file_id"), ("lineno_table", "lineno"), ("function_name_table", "func_id")):
            pushes = [x for x in q.walk(cs["body"]) if x["k"] == "MethodCall" and x["m"] == "push" and q.show(x["recv"]).replace("&mut ", "").strip("()").replace(" ", "") == f"st.{tbl}"]
            ok = len(pushes) == 1 and "bytecode_index" in q.show(pushes[0]["args"][0]) and val in q.show(pushes[0]["args"][0])
            r.ob(ok, f"translate_bytecode.rs:create_source_location_tables:{tbl}", TB, cs["l"], f"{tbl} must record (bytecode_index, {val}) when the value changes", sample=f"{tbl}: (bytecode_index, {val})")
            # each table is run-length encoded on its own: whether it records an entry may depend on nothing but its own last entry
            others = [t for t in ("filename_table", "lineno_table", "function_name_table") if t != tbl]
            for pu in pushes:
                foreign = []

                def anc(node, acc):
                    if node is pu:
                        foreign.extend(acc)
                        return True
                    if node["k"] == "If":
                        c = q.show(node["c"])
                        if any(y is pu for y in q.walk(node["t"])):
                            return anc_children(node["t"], acc + [("then", c)])
                        if node.get("e") is not None and any(y is pu for y in q.walk(node["e"])):
                            return anc_children(node["e"], acc + [("else", c)])
                        return False
                    return anc_children(node, acc)

                def anc_children(node, acc):
                    for ch in q.children(node) if hasattr(q, "children") else _kids(node):
                        if any(y is pu for y in q.walk(ch)):
                            return anc(ch, acc)
                    return False

                def _kids(node):
                    out = []
                    for v2 in node.values():
                        if isinstance(v2, dict) and "k" in v2:
                            out.append(v2)
                        elif isinstance(v2, list):
                            out.extend(x for x in v2 if isinstance(x, dict) and "k" in x)
                    return out

                anc(cs["body"], [])
                bad = [(pol, c) for pol, c in foreign if any(o in c for o in others)]
                r.ob(not bad, f"translate_bytecode.rs:create_source_location_tables:{tbl}:depends-on-another-table", TB, pu["l"],
                     f"whether {tbl} records an entry depends on another table ({bad}): when the other value changes at the same instruction this table misses its entry, and the fault is reported with the previous function's {val}",
                     sample=f"{tbl}: recorded independently of the other tables")
    # (5) the VM looks up pc-after-increment with the predecessor entry, in both outcomes of the binary search
    pe = q.find_fn(v, "pc_to_error_location", impl_ty="VmGreenThread")
    if pe is None:
        r.missing("pc_to_error_location", VM)
    else:
        ms = [m for m in q.walk(pe["body"]) if m["k"] == "Match" and "binary_search_by_key" in q.show(m["e"])]
        r.count("location table lookups", len(ms), 3, VM)
        for m in ms:
            n += 1
            tbl = q.show(m["e"]).split(".binary_search_by_key")[0].split(".")[-1]
            arms = m["arms"]
            pat = q.show_pat(arms[0]["pat"]).replace(" ", "")
            both = len(arms) == 1 and pat in ("Ok(idx)|Err(idx)", "Err(idx)|Ok(idx)")
            pred = any(x["k"] == "If" and q.show(x["c"]).replace(" ", "") == "(idx>=1)" and "idx - 1" in q.show(x["t"]["stmts"][-1].get("e") or {}) .replace("(", "").replace(")", "") for x in q.walk(arms[0]["body"])) if both else False
            key = "&(pc.0)" in q.show(m["e"]).replace(" ", "") or "&pc.0" in q.show(m["e"]).replace(" ", "")
            r.ob(both and pred and key, f"vm.rs:pc_to_error_location:{tbl}:lookup", VM, m["l"],
                 f"{tbl}: the pc passed in is one past the instruction (fault: pc was already incremented; return address: instruction after the call), so both Ok(idx) and Err(idx) must take entry idx-1; match is `{pat}`",
                 sample=f"{tbl}: Ok(idx)|Err(idx) -> entry idx-1")
    st = q.find_fn(v, "step", impl_ty="VmGreenThread")
    if st is not None:
        n += 1
        inc = [x for x in q.walk(st["body"]) if x["k"] == "Binary" and x["op"] == "+=" and q.show(x["a"]) == "self.pc.0"]
        mt = [x for x in q.walk(st["body"]) if x["k"] == "Match" and q.show(x["e"]) == "instr"]
        r.ob(bool(inc) and bool(mt) and inc[0]["l"] < mt[0]["l"], "vm.rs:step:pc-increment-before-dispatch", VM, st["l"], "pc must be incremented before the instruction is dispatched (error lookup and return addresses assume pc = instruction + 1)", sample="step: pc += 1 before match")
    for fname in ("make_error", "fail"):
        f = q.find_fn(v, fname, impl_ty="VmGreenThread")
        if f is not None:
            txt = q.show(f["body"]["stmts"][-1].get("e") or {}) if f["body"]["stmts"] else ""
            body_txt = " ".join(q.show(x) for x in q.walk(f["body"]) if x["k"] == "Struct")
            r.ob("location: self.pc_to_error_location(self.pc)" in body_txt and "trace: self.make_stack_trace()" in body_txt, f"vm.rs:{fname}:location", VM, f["l"], f"{fname} must report the location of the current pc and the current call stack", sample=f"{fname}: location = pc_to_error_location(self.pc), trace = make_stack_trace()")
    # (6) frames record the return address; the trace is collected outermost first and printed reversed once
    arms = _arms(ctx, r)
    if arms is not None:
        for vname, arm, an in arms:
            if vname in ("Call", "CallFuncObj"):
                n += 1
                from lib.inline import walk_inl

                seq = list(walk_inl(arm["body"]))  # also inside a helper such as enter_function(target, nargs)
                frames = [i for i, x in enumerate(seq) if x["k"] == "Struct" and q.last_seg(x["p"]) == "CallFrame"]
                ok = bool(frames) and any(fl["name"] == "pc" and q.show(fl["e"]) == "self.pc" for fl in seq[frames[0]]["fields"])
                # and the frame is pushed before pc is redirected
                redirect = [i for i, x in enumerate(seq) if x["k"] == "Assign" and q.show(x["a"]) == "self.pc"]
                ok = ok and bool(redirect) and frames[0] < redirect[0]
                r.ob(ok, f"vm.rs:step:{vname}:return-address", VM, arm["l"], f"{vname} must push a frame holding the return address (self.pc after increment) before jumping", sample=f"{vname}: CallFrame{{pc: self.pc}} then jump")
    mk = q.find_fn(v, "make_stack_trace", impl_ty="VmGreenThread")
    if mk is not None:
        n += 1
        loops = [x for x in q.walk(mk["body"]) if x["k"] == "For"]
        ok = bool(loops) and q.show(loops[0]["e"]).replace("&", "") == "self.call_stack" and any(x["k"] == "MethodCall" and x["m"] == "pc_to_error_location" and q.show(x["args"][0]) == "frame.pc" for x in q.walk(loops[0]["body"]))
        r.ob(ok, "vm.rs:make_stack_trace:order", VM, mk["l"], "make_stack_trace must map every frame of call_stack, outermost first, to the location of its return address", sample="make_stack_trace: call_stack in order, frame.pc")
    disp = q.find_impls(v, self_ty="VmError", trait="Display")
    if not disp:
        r.missing("impl Display for VmError", VM)
    else:
        n += 1
        f = disp[0]["items"][0]
        loops = [x for x in q.walk(f["body"]) if x["k"] == "For"]
        it = q.show(loops[-1]["e"]).replace(" ", "") if loops else ""
        ok = it == "std::iter::once(&self.location).chain(self.trace.iter().rev())"
        r.ob(ok, "vm.rs:VmError::fmt:trace-order", VM, f["l"], f"the traceback must print the failure location first and then the call sites innermost first (the stored trace reversed exactly once); it iterates `{it}`", sample="traceback: once(location).chain(trace.iter().rev())")
    r.count("location-discipline sites", n, 12, TB)


LEX = "abra_core/src/parse/lexer.rs"
ASTF = "abra_core/src/ast.rs"
PARSE = "abra_core/src/parse.rs"


@rule("UNITS", ["C33", "C32"], "source positions have one unit everywhere: the lexer counts chars, the line table, diagnostics and the end-of-file token count bytes, so spans are converted where they leave the lexer")
def units(ctx, r):
    lex = ctx.file_items(LEX)
    astf = ctx.file_items(ASTF)
    par = ctx.file_items(PARSE)
    if lex is None or astf is None or par is None:
        r.missing("lexer.rs / ast.rs / parse.rs")
        return
    st = q.find_struct(lex, "Lexer")
    if st is None:
        r.missing("struct Lexer", LEX)
        return
    char_based = any(fl["ty"].replace(" ", "") == "Vec<char>" for fl in st["fields"])
    # consumers
    ls = q.find_fn(astf, "line_starts")
    byte_lines = ls is not None and any(x["k"] == "MethodCall" and x["m"] in ("match_indices", "char_indices", "bytes", "find") for x in q.walk(ls["body"]))
    char_lines = ls is not None and any(x["k"] == "MethodCall" and x["m"] == "chars" for x in q.walk(ls["body"]))
    eof_bytes = False
    for f, _ in q.iter_items(par):
        if f["k"] == "Fn" and f.get("body") is not None:
            for x in q.walk(f["body"]):
                if x["k"] == "Local" and "file_len" in q.pat_bindings(x["pat"]) and x.get("init") is not None:
                    t = q.show(x["init"]) + "".join(q.show(y) for y in q.walk(x["init"]) if y["k"] == "MethodCall")
                    eof_bytes = "source.len()" in t.replace(" ", "")
    r.ob(ls is not None, "ast.rs:line_starts", ASTF, 0, "line table", sample=f"line table in {'bytes' if byte_lines else 'chars' if char_lines else '?'}; EOF token in {'bytes' if eof_bytes else '?'}; lexer counts {'chars' if char_based else 'bytes'}")
    consumers_bytes = byte_lines and not char_lines
    if not char_based:
        r.ob(consumers_bytes, "lexer.rs:Lexer:unit", LEX, st["l"], "a byte-based lexer needs a byte-based line table")
        return
    # producer: char-based lexer, byte-based consumers -> conversion at the exit
    it = q.find_fn(lex, "into_tokens", impl_ty="Lexer")
    conv = it is not None and any(x["k"] == "MethodCall" and x["m"] == "len_utf8" for x in q.walk(it["body"])) and any(
        x["k"] in ("Assign",) and q.show(x["a"]).endswith(("span.lo", "span.hi")) for x in q.walk(it["body"])) 
    n_assign = sum(1 for x in q.walk(it["body"]) if x["k"] == "Assign" and q.show(x["a"]).endswith(("span.lo", "span.hi"))) if it else 0
    r.ob((not consumers_bytes) or (conv and n_assign >= 2), "lexer.rs:into_tokens:spans-leave-in-chars", LEX, it["l"] if it else st["l"],
         "the lexer indexes a Vec<char> and builds spans from those indices, while the line table (match_indices), codespan labels and the end-of-file token (source.len()) are byte offsets: after any non-ASCII text every diagnostic is drawn too far left - possibly inside a multi-byte character - and run-time errors name an earlier line. Both ends of every span must be converted with len_utf8 where tokens leave the lexer",
         sample="into_tokens: span.lo and span.hi converted through a len_utf8 prefix table")
    # spans handed to diagnostics directly from the lexer must go through a byte conversion too
    n_direct = 0
    for f, _ in q.iter_items(lex):
        if f["k"] != "Fn" or f.get("body") is None:
            continue
        helpers = {b for l in q.walk(f["body"]) if l["k"] == "Local" and l.get("init") is not None and l["init"]["k"] == "Closure" and any(y["k"] == "MethodCall" and y["m"] == "len_utf8" for y in q.walk(l["init"])) for b in q.pat_bindings(l["pat"])}
        for x in q.walk(f["body"]):
            if x["k"] == "MethodCall" and x["m"] == "push" and q.show(x["recv"]).endswith(".errors"):
                for sp in q.walk(x):
                    if sp["k"] == "Struct" and str(sp.get("p")) == "Span":
                        n_direct += 1
                        ok = all(any((y["k"] == "Call" and y["f"]["k"] == "Path" and y["f"]["p"] in helpers) or (y["k"] == "MethodCall" and y["m"] == "byte_offset") for y in q.walk(fl["e"])) for fl in sp.get("fields", []))
                        r.ob(ok, f"lexer.rs:{f['name']}:error-span-in-chars", LEX, sp["l"],
                             f"{f['name']} reports an error with a span built from raw positions ({', '.join(q.show(fl['e']) for fl in sp.get('fields', []))}): those count chars (and may be relative to a string literal), diagnostics read bytes from the start of the file",
                             sample=f"{f['name']}: error span converted to file byte offsets")
    r.count("error spans created in the lexer", n_direct, 2, LEX)
    # an error that carries a bare position instead of a span: the position is the cursor converted to bytes, never the cursor itself
    usz = {fl["name"] for fl in st["fields"] if fl["ty"].strip() == "usize"}
    n_pos = 0
    for f, _ in q.iter_items(lex):
        if f["k"] != "Fn" or f.get("body") is None:
            continue
        conv_locals = {b for l in q.walk(f["body"]) if l["k"] == "Local" and l.get("init") is not None and any(y["k"] == "MethodCall" and y["m"] == "byte_offset" for y in q.walk(l["init"])) for b in q.pat_bindings(l["pat"])}
        raw_locals = {b for l in q.walk(f["body"]) if l["k"] == "Local" and l.get("init") is not None and l["init"]["k"] == "Field" and l["init"]["f"] in usz for b in q.pat_bindings(l["pat"])}
        for x in q.walk(f["body"]):
            if not (x["k"] == "MethodCall" and x["m"] == "push" and q.show(x["recv"]).endswith(".errors") and x["args"]):
                continue
            e = x["args"][0]
            while e["k"] == "MethodCall" and e["m"] in ("into", "clone"):
                e = e["recv"]
            if e["k"] != "Call":
                continue
            for a in e["args"]:
                if a["k"] == "Struct":
                    continue  # spans: the clause above
                raw = [y for y in q.walk(a) if y["k"] == "Field" and y["f"] in usz and not any(c["k"] == "MethodCall" and c["m"] == "byte_offset" and any(z is y for z in q.walk(c)) for c in q.walk(a))]
                if a["k"] == "Path" and a["p"] in raw_locals:
                    raw = [a]
                is_pos = bool(raw) or (a["k"] == "Path" and a["p"] in conv_locals)
                if not is_pos:
                    continue
                n_pos += 1
                r.ob(not raw, f"lexer.rs:{f['name']}:{q.last_seg(q.show(e['f']))}:error-position-in-chars", LEX, x["l"],
                     f"{f['name']} reports {q.last_seg(q.show(e['f']))} at `{q.show(a)}`, the lexer's cursor, which counts chars; the renderer uses it as a byte offset, so after non-ASCII text the diagnostic points at earlier, unrelated source",
                     sample=f"{f['name']}: {q.last_seg(q.show(e['f']))} at a byte offset")
    r.count("bare error positions created in the lexer", n_pos, 1, LEX)
    # a position handed to such a function as the base of its error spans is a byte offset at every call site
    n_base = 0
    lex_fns = [f for f, _ in q.iter_items(lex) if f["k"] == "Fn" and f.get("body") is not None]
    for f in lex_fns:
        usz = [b for p_ in f["params"] if not p_.get("self") and p_.get("ty", "").strip() == "usize" for b in q.pat_bindings(p_["pat"])]
        if not usz:
            continue
        # parameters that flow into a byte-converting helper of the function (a closure with len_utf8) or straight into an error span
        based = set()
        for l in q.walk(f["body"]):
            if l["k"] == "Local" and l.get("init") is not None and l["init"]["k"] == "Closure" and any(y["k"] == "MethodCall" and y["m"] == "len_utf8" for y in q.walk(l["init"])):
                based |= set(usz) & q.idents_in(l["init"])
        if not based or not any(x["k"] == "MethodCall" and x["m"] == "push" and q.show(x["recv"]).endswith(".errors") for x in q.walk(f["body"])):
            continue
        pnames = [b for p_ in f["params"] if not p_.get("self") for b in q.pat_bindings(p_["pat"])[:1]]
        for g in lex_fns:
            for c in q.walk(g["body"]):
                if c["k"] == "Call" and c["f"]["k"] == "Path" and q.last_seg(c["f"]["p"]) == f["name"]:
                    for bp in sorted(based):
                        i_ = pnames.index(bp)
                        if i_ >= len(c["args"]):
                            continue
                        n_base += 1
                        a = c["args"][i_]
                        conv = any(y["k"] == "MethodCall" and y["m"] == "byte_offset" for y in q.walk(a))
                        if not conv and a["k"] == "Path":
                            conv = any(l["k"] == "Local" and l.get("init") is not None and a["p"] in q.pat_bindings(l["pat"]) and any(y["k"] == "MethodCall" and y["m"] == "byte_offset" for y in q.walk(l["init"])) for l in q.walk(g["body"]))
                        r.ob(conv, f"lexer.rs:{g['name']}:{f['name']}:{bp}:char-position-as-byte-base", LEX, c["l"],
                             f"{g['name']} calls {f['name']} with `{q.show(a)}` as `{bp}`; {f['name']} adds byte lengths to it and reports errors there, so it must be a byte offset of the file (`byte_offset(..)`): a char position is too small by the bytes-minus-chars of all earlier non-ASCII text, and the escape-sequence diagnostic lands on unrelated source, possibly inside a multi-byte character",
                             sample=f"{g['name']}: {f['name']}(.., {bp} = byte offset)")
    r.count("byte-offset bases handed to error-reporting helpers", n_base, 2, LEX)


_CURSOR = ["index"]  # the lexer's cursor field, discovered per tree by span_advance (the field a pushed span's `lo` is read from)


def _is_self_field(e, name):
    if name == "index":
        name = _CURSOR[0]
    return e["k"] == "Field" and e["f"] == name and e["e"]["k"] == "Path" and e["e"]["p"] == "self"


def _addends(e, env, cur, depth=0):
    """the expression as a sorted list of addend texts; `self.index` stands for the symbolic cursor `cur`; None when it is not a sum we can read"""
    while e["k"] == "Paren":
        e = e["e"]
    if _is_self_field(e, "index"):
        return list(cur)
    if e["k"] == "Binary" and e["op"] == "+":
        a, b = _addends(e["a"], env, cur, depth), _addends(e["b"], env, cur, depth)
        return None if a is None or b is None else a + b
    if e["k"] == "Path" and e["p"] in env and depth < 6:
        return _addends(env[e["p"]], env, cur, depth + 1)
    if any(_is_self_field(y, "index") for y in q.walk(e)):
        return None
    return [q.show(e)]


def _emit_summary(items, f, stack=()):
    """(hi, end) of a straight-line lexer helper that pushes one token: the pushed span's `hi` and the cursor at exit, both as addend lists over the cursor at entry ('@'); None when the helper is not of that shape"""
    env, cur, hi = {}, ["@"], None
    for s in q.body_stmts(f["body"]):
        if s["k"] == "Local" and s["pat"]["k"] == "PIdent" and s.get("init") is not None:
            init = s["init"]
            if init["k"] == "Struct" and q.last_seg(init["p"]) == "Span":
                h = [fl["e"] for fl in init["fields"] if fl["name"] == "hi"]
                if len(h) != 1:
                    return None
                env["<span:" + s["pat"]["name"] + ">"] = _addends(h[0], env, cur)
            else:
                env[s["pat"]["name"]] = init
            continue
        e = s.get("e") if s["k"] == "ExprStmt" else None
        if e is None:
            return None
        if e["k"] == "Binary" and e["op"] == "+=" and _is_self_field(e["a"], "index"):
            d = _addends(e["b"], env, cur)
            if d is None:
                return None
            cur = cur + d
            continue
        if e["k"] == "MethodCall" and e["m"] == "push" and _is_self_field(e["recv"], "tokens"):
            tok = e["args"][0] if e["args"] else None
            if hi is not None or tok is None or tok["k"] != "Struct":
                return None
            sp = [fl["e"] for fl in tok["fields"] if fl["name"] == "span"]
            if len(sp) != 1 or sp[0]["k"] != "Path" or env.get("<span:" + sp[0]["p"] + ">") is None:
                return None
            hi = env["<span:" + sp[0]["p"] + ">"]
            continue
        if e["k"] == "MethodCall" and e["recv"]["k"] == "Path" and e["recv"]["p"] == "self" and e["m"] not in stack:
            g = q.find_fn(items, e["m"], impl_ty=q.fn_owner(items, f))
            sub = _emit_summary(items, g, stack + (f["name"],)) if g is not None else None
            if sub is None or hi is not None:
                return None
            names = [p["pat"]["name"] for p in g["params"] if not p.get("self") and p.get("pat", {}).get("k") == "PIdent"]
            if len(names) != len(e["args"]):
                return None
            argtxt = dict(zip(names, e["args"]))

            def subst(lst):
                out = []
                for t in lst:
                    if t == "@":
                        out += cur
                    else:
                        for nm, a in argtxt.items():
                            t = re.sub(r"\b" + re.escape(nm) + r"\b", q.show(a), t)
                        out.append(t)
                return out

            hi, cur = subst(sub[0]), subst(sub[1])
            continue
        return None
    return None if hi is None else (sorted(hi), sorted(cur))


@rule("SPAN-ADVANCE", ["C33"], "a lexer helper that pushes a token and advances the cursor leaves the cursor at the end of the span it pushed: the characters it consumes for the token (separators included) are the characters the token's span covers")
def span_advance(ctx, r):
    file = "abra_core/src/parse/lexer.rs"
    items = ctx.file_items(file)
    if items is None:
        r.missing(file)
        return
    n = 0
    los = {}
    for f, _ in q.iter_items(items):
        if f["k"] == "Fn" and f.get("body") is not None:
            for y in q.walk(f["body"]):
                if y["k"] == "Struct" and q.last_seg(y["p"]) == "Span":
                    for fl in y["fields"]:
                        v = fl["e"]
                        if fl["name"] == "lo" and v["k"] == "Field" and v["e"]["k"] == "Path" and v["e"]["p"] == "self":
                            los[v["f"]] = los.get(v["f"], 0) + 1
    if not los:
        r.missing("a span whose start is read from a field of the lexer", file)
        return
    _CURSOR[0] = max(sorted(los), key=lambda k: los[k])
    for f, _ in q.iter_items(items):
        if f["k"] != "Fn" or f.get("body") is None:
            continue
        try:
            sm = _emit_summary(items, f)
        except (KeyError, TypeError, IndexError):
            sm = None
        if sm is None:
            continue
        n += 1
        hi, end = sm
        r.ob(hi == end, f"lexer.rs:{f['name']}:cursor-not-at-span-end", file, f["l"],
             f"{f['name']}: the pushed token's span ends at cursor + [{' + '.join(t for t in hi if t != '@')}] but the helper leaves the cursor at cursor + [{' + '.join(t for t in end if t != '@')}]: the characters consumed for the token and the characters its span covers differ, so a diagnostic on this token (or on a construct ending with it) does not cover it",
             sample=f"{f['name']}: span end = cursor at exit = entry + [{' + '.join(t for t in hi if t != '@')}]")
    r.count("straight-line token-pushing helpers evaluated", n, 1, file)

"""Runtime (scheduler / status) rules: STEP-ACCOUNT, STATUS-MAP, MAIN-DONE."""
from lib import synq as q
from lib.core import rule
from rules.vm_ops import VM, _arms


def rt_fn(ctx, r, name, ty="Runtime"):
    items = ctx.file_items(VM)
    if items is None:
        r.missing("vm.rs")
        return None
    f = q.find_fn(items, name, impl_ty=ty)
    if f is None:
        r.missing(f"{ty}::{name}", VM)
    return f


@rule("STEP-ACCOUNT", ["C10", "C11"], "a budget of k executes at most k instructions: each executed unit is paid for, under remaining_steps > 0; GC work per instruction does not depend on the budget")
def step_account(ctx, r):
    f = rt_fn(ctx, r, "run_threads_round_robin")
    if f is None:
        return
    execs = [x for x in q.walk(f["body"]) if x["k"] == "MethodCall" and x["m"] in ("run_n_steps", "run", "step")]
    r.count("instruction-executing calls in the scheduler", len(execs), 1, VM)
    loops = [x for x in q.walk(f["body"]) if x["k"] == "While"]
    for x in execs:
        amount = q.show(x["args"][0]) if x["args"] else "unbounded"
        r.ob(x["m"] == "run_n_steps" and amount == "1", "vm.rs:run_threads_round_robin:unit-not-one", VM, x["l"],
             f"the scheduler must step a thread by the literal unit 1 (it calls {x['m']}({amount})): a larger slice makes GC pacing and interleaving depend on the embedder's budget", sample="scheduler: thread.run_n_steps(1)")
        # inside the while whose condition requires remaining_steps > 0
        lp = next((w for w in loops if any(y is x for y in q.walk(w["body"]))), None)
        cond = q.show(lp["c"]).replace(" ", "") if lp else ""
        r.ob("remaining_steps>0" in cond, "vm.rs:run_threads_round_robin:not-budget-guarded", VM, x["l"], f"instruction execution must be dominated by `remaining_steps > 0` (loop condition: {cond})", sample=f"scheduler loop: while {cond}")
        # paid for in the same block
        blk = enclosing_block(f["body"], x)
        decs = [y for y in q.walk(blk) if y["k"] == "Binary" and y["op"] == "-=" and q.show(y["a"]) == "remaining_steps"] if blk else []
        incs = [y for y in q.walk(blk) if y["k"] == "Binary" and y["op"] == "+=" and q.show(y["a"]) == "steps_run"] if blk else []
        ok = len(decs) == 1 and q.show(decs[0]["b"]) == amount and len(incs) == 1 and q.show(incs[0]["b"]) == amount
        r.ob(ok, "vm.rs:run_threads_round_robin:step-not-accounted", VM, x["l"],
             f"each executed unit must decrement remaining_steps and increment steps_run by the same amount ({amount}); found decrements {[q.show(d['b']) for d in decs]}, increments {[q.show(i['b']) for i in incs]}",
             sample="scheduler: remaining_steps -= 1; steps_run += 1 next to the step")
        gate = enclosing_if_cond(f["body"], x)
        r.ob(gate is not None and "can_run" in gate, "vm.rs:run_threads_round_robin:runs-blocked-thread", VM, x["l"], f"a thread must only be stepped when can_run() (guard: {gate})")
    g = rt_fn(ctx, r, "run_n_steps", "VmGreenThread")
    if g is not None:
        lp = [w for w in q.walk(g["body"]) if w["k"] == "While"]
        ok = False
        if lp:
            w = lp[0]
            steps = [y for y in q.walk(w["body"]) if y["k"] == "MethodCall" and y["m"] == "step"]
            decs = [y for y in q.walk(w["body"]) if y["k"] == "Binary" and y["op"] == "-=" and q.show(y["b"]) == "1"]
            ok = len(steps) == 1 and len(decs) == 1 and "steps>0" in q.show(w["c"]).replace(" ", "")
        r.ob(ok, "vm.rs:VmGreenThread::run_n_steps:one-step-per-unit", VM, g["l"], "run_n_steps must execute exactly one step() per unit of its budget", sample="run_n_steps: while steps > 0 { maybe_gc; step; steps -= 1 }")
    c = rt_fn(ctx, r, "can_run", "VmGreenThread")
    if c is not None:
        txt = q.show(c["body"]["stmts"][-1]["e"]) if c["body"]["stmts"] else ""
        need = ["pending_host_func", "error", "done"]
        r.ob(all(n in txt for n in need), "vm.rs:can_run:incomplete", VM, c["l"], f"can_run must exclude threads with a pending host call, an error, or done (`{txt}`)", sample=f"can_run: {txt[:90]}")


def enclosing_block(body, target):
    best = None
    for b in q.walk(body):
        if b["k"] == "Block" and any(y is target for y in q.walk(b)):
            best = b
    return best


def enclosing_if_cond(body, target):
    best = None
    for b in q.walk(body):
        if b["k"] == "If" and any(y is target for y in q.walk(b["t"])):
            best = q.show(b["c"])
    return best


@rule("STATUS-MAP", ["C11"], "thread and runtime status are mapped truthfully: pending host call, then done, then error; Done->Done, Error->MainThreadError(same), otherwise OutOfSteps")
def status_map(ctx, r):
    s = rt_fn(ctx, r, "status", "VmGreenThread")
    if s is not None:
        order = []

        def chain(e):
            if e is None:
                return
            if e["k"] == "If":
                c = q.show(e["c"])
                res = [q.last_seg(x["p"]) for x in q.walk(e["t"]) if x["k"] == "Path" and x["p"].startswith("VmStatus::")]
                order.append((c, res[0] if res else "?"))
                chain(e.get("e"))
            elif e["k"] == "Block":
                for st in e["stmts"]:
                    if st["k"] == "ExprStmt":
                        chain(st["e"])
            elif e["k"] == "Match":
                for a in e["arms"]:
                    res = [q.last_seg(x["p"]) for x in q.walk(a["body"]) if x["k"] == "Path" and x["p"].startswith("VmStatus::")]
                    order.append((q.show(e["e"]) + " matches " + q.show_pat(a["pat"]), res[0] if res else "?"))

        chain(s["body"])
        seq = [res for _, res in order]
        r.ob(seq == ["PendingHostFunc", "Done", "Error", "OutOfSteps"], "vm.rs:VmGreenThread::status:order", VM, s["l"],
             f"status() must test pending host call, then done, then error, else out of steps; it yields {order}", sample=f"status(): {seq}")
        conds = " | ".join(c for c, _ in order)
        r.ob("pending_host_func" in order[0][0] and "done" in order[1][0] and "error" in order[2][0] if len(order) >= 3 else False,
             "vm.rs:VmGreenThread::status:conditions", VM, s["l"], f"status() conditions: {conds}")
        # the error reported is the stored one
        errs = [x for x in q.walk(s["body"]) if x["k"] == "Call" and q.show(x["f"]) == "VmStatus::Error"]
        r.ob(bool(errs) and "err" in q.show(errs[0]["args"][0]), "vm.rs:VmGreenThread::status:error-payload", VM, s["l"], "status() must report the stored error")
    u = rt_fn(ctx, r, "update_status_helper")
    if u is not None:
        tbl = {}
        for m in q.walk(u["body"]):
            if m["k"] == "Match" and "status()" in q.show(m["e"]):
                for a in m["arms"]:
                    for h in q.pat_heads(a["pat"]):
                        res = [x for x in q.walk(a["body"]) if (x["k"] == "Path" and x["p"].startswith("RuntimeStatusKind::")) or (x["k"] == "Call" and q.show(x["f"]).startswith("RuntimeStatusKind::"))]
                        val = None
                        if res:
                            x0 = res[0]
                            val = q.last_seg(x0["p"]) if x0["k"] == "Path" else q.last_seg(q.show(x0["f"])) + "(" + ",".join(q.show(y) for y in x0["args"]) + ")"
                        tbl[q.show_pat(a["pat"])] = val
        want = {"VmStatus::Done": "Done", "VmStatus::PendingHostFunc(_)": "PendingHostFunc", "VmStatus::Error(e)": "MainThreadError(e)", "VmStatus::OutOfSteps": None}
        r.ob(tbl == want, "vm.rs:Runtime::update_status_helper:mapping", VM, u["l"], f"main-thread status mapping is {tbl}; required {want}", sample=f"update_status_helper: {tbl}")
        tail = q.body_stmts(u["body"])[-1]
        r.ob(q.show(tail.get("e")) == "RuntimeStatusKind::OutOfSteps", "vm.rs:Runtime::update_status_helper:default", VM, u["l"], "the default status must be OutOfSteps")
    # the HostFunc arm only records the id and yields
    arms = _arms(ctx, r)
    if arms is None:
        return
    by = {v: (arm, an) for v, arm, an in arms}
    if "HostFunc" not in by:
        r.missing("step:HostFunc", VM)
        return
    arm, an = by["HostFunc"]
    kinds = [ev.kind for ev in an.events]
    stack_touch = [k for k in kinds if k in ("pop", "read", "push", "store", "popn", "peek", "settop")]
    sets = [ev for ev in an.events if ev.kind == "assign" and ev.data[0] == ("self", "pending_host_func")]
    rets = [ev for ev in an.events if ev.kind == "ret"]
    ok = not stack_touch and len(sets) == 1 and sets[0].data[1] == ("Some", ("instr", 0, an.binds[0])) and len(rets) == 1
    r.ob(ok, "vm.rs:step:HostFunc:not-a-pure-yield", VM, arm["l"], f"the HostFunc arm must record exactly the function id and yield without touching the operand stack (the arguments); events {kinds}", sample="HostFunc: pending_host_func = Some(id); return false; stack untouched")
    if "Stop" in by:
        arm, an = by["Stop"]
        sets = [ev for ev in an.events if ev.kind == "assign" and ev.data[0] == ("self", "done")]
        r.ob(len(sets) == 1 and not [e for e in an.events if e.kind in ("pop", "push", "read", "store")], "vm.rs:step:Stop", VM, arm["l"], "Stop must set done and leave the stack (the final value) untouched", sample="Stop: done = true, stack untouched")


@rule("MAIN-DONE", ["C11"], "completion is reported exactly when the main thread is done, regardless of other threads")
def main_done(ctx, r):
    f = rt_fn(ctx, r, "finish_thread_turn")
    if f is None:
        return
    trues = []
    for x in q.walk(f["body"]):
        if x["k"] == "Return" and x.get("e") is not None and q.show(x["e"]) == "true":
            trues.append(x)
    conds = []
    for x in q.walk(f["body"]):
        if x["k"] == "If" and any(y in trues for y in q.walk(x["t"])):
            conds.append(q.show(x["c"]).replace(" ", ""))
    tail = q.body_stmts(f["body"])[-1]
    ok = len(trues) == 1 and conds and conds[-1] in ("(thread.is_main&&thread.done)", "(thread.done&&thread.is_main)") and q.show(tail.get("e")) == "false"
    r.ob(ok, "vm.rs:finish_thread_turn:completion-condition", VM, f["l"], f"finish_thread_turn must return true exactly for `thread.is_main && thread.done` (returns true under {conds})", sample=f"finish_thread_turn: true iff {conds}")
    saved = any(x["k"] == "Assign" and q.show(x["a"]) == "self.finished_main_thread" for x in q.walk(f["body"]))
    r.ob(saved, "vm.rs:finish_thread_turn:main-thread-dropped", VM, f["l"], "the finished main thread must be kept (its stack top is the program's result)")
    # callers propagate
    n = 0
    for name in ("run_threads_round_robin", "drain_new_threads"):
        g = rt_fn(ctx, r, name)
        if g is None:
            continue
        for x in q.walk(g["body"]):
            if x["k"] == "If" and "finish_thread_turn" in q.show(x["c"]):
                n += 1
                rets = [q.show(y["e"]) for y in q.walk(x["t"]) if y["k"] == "Return" and y.get("e") is not None]
                r.ob(bool(rets) and all(t.startswith("true") or t.startswith("(true") for t in rets), f"vm.rs:{name}:completion-not-propagated", VM, x["l"], f"{name} must report completion as soon as finish_thread_turn returns true (returns {rets})", sample=f"{name}: propagates completion")
    r.count("callers of finish_thread_turn", n, 2, VM)
    h = rt_fn(ctx, r, "run_n_steps")
    if h is not None:
        ifs = [x for x in q.walk(h["body"]) if x["k"] == "If" and q.show(x["c"]) == "main_thread_done"]
        ok = bool(ifs) and any(y["k"] == "Path" and y["p"] == "RuntimeStatusKind::Done" for y in q.walk(ifs[0]["t"]))
        r.ob(ok, "vm.rs:Runtime::run_n_steps:done-status", VM, h["l"], "run_n_steps must report Done when the scheduler reports main-thread completion", sample="run_n_steps: main_thread_done -> Done")

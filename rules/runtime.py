"""Runtime (scheduler / status) rules: STEP-ACCOUNT, STATUS-MAP, MAIN-DONE."""
from lib import synq as q
from lib.core import rule
from rules.vm_ops import VM, _arms


def rt_fn(ctx, r, name, ty="Runtime"):
    items = ctx.file_items(VM)
    if items is None:
        r.missing("vm.rs")
        return None
    f = q.find_fn(items, name, impl_ty=ty)
    if f is None:
        r.missing(f"{ty}::{name}", VM)
    return f


@rule("STEP-ACCOUNT", ["C10", "C11"], "a budget of k executes at most k instructions: each executed unit is paid for, under remaining_steps > 0; GC work per instruction does not depend on the budget")
def step_account(ctx, r):
    f = rt_fn(ctx, r, "run_threads_round_robin")
    if f is None:
        return
    execs = [x for x in q.walk(f["body"]) if x["k"] == "MethodCall" and x["m"] in ("run_n_steps", "run", "step")]
    r.count("instruction-executing calls in the scheduler", len(execs), 1, VM)
    loops = [x for x in q.walk(f["body"]) if x["k"] == "While"]
    # the budget: the parameter of integer type, or a mutable local initialised from it; the count: a mutable local starting at 0
    int_params = [b for p_ in f["params"] if not p_.get("self") and p_.get("ty", "").strip() in ("u32", "u64", "usize") for b in q.pat_bindings(p_["pat"])]
    budget = set(int_params)
    counters = set()
    for l_ in q.walk(f["body"]):
        if l_["k"] == "Local" and l_.get("init") is not None and l_["pat"].get("k") == "PIdent":
            if l_["init"]["k"] == "Path" and l_["init"]["p"] in int_params:
                budget.add(l_["pat"]["name"])
            if l_["init"]["k"] == "Lit" and str(l_["init"].get("v")).rstrip("u3264size_") == "0":
                counters.add(l_["pat"]["name"])
    for x in execs:
        amount = q.show(x["args"][0]) if x["args"] else "unbounded"
        r.ob(x["m"] == "run_n_steps" and amount == "1", "vm.rs:run_threads_round_robin:unit-not-one", VM, x["l"],
             f"the scheduler must step a thread by the literal unit 1 (it calls {x['m']}({amount})): a larger slice makes GC pacing and interleaving depend on the embedder's budget", sample="scheduler: thread.run_n_steps(1)")
        # inside the while whose condition requires budget > 0
        lp = next((w for w in loops if any(y is x for y in q.walk(w["body"]))), None)
        cond = q.show(lp["c"]).replace(" ", "") if lp else ""
        guarded = lp is not None and any(pol and c_["k"] == "Binary" and ((c_["op"] == ">" and q.show(c_["a"]) in budget and q.show(c_["b"]) == "0") or (c_["op"] == "!=" and q.show(c_["a"]) in budget and q.show(c_["b"]) == "0") or (c_["op"] == "<" and q.show(c_["b"]) in budget and q.show(c_["a"]) == "0")) for c_, pol in q.cond_atoms([(lp["c"], True)]))
        r.ob(guarded, "vm.rs:run_threads_round_robin:not-budget-guarded", VM, x["l"], f"instruction execution must be dominated by `<remaining budget> > 0` (loop condition: {cond}; budget variable(s) {sorted(budget)})", sample=f"scheduler loop: while {cond}")
        # paid for in the same block
        blk = enclosing_block(f["body"], x)
        decs = [y for y in q.walk(blk) if y["k"] == "Binary" and y["op"] == "-=" and q.show(y["a"]) in budget] if blk else []
        incs = [y for y in q.walk(blk) if y["k"] == "Binary" and y["op"] == "+=" and q.show(y["a"]) in counters] if blk else []
        ok = len(decs) == 1 and q.show(decs[0]["b"]) == amount and len(incs) == 1 and q.show(incs[0]["b"]) == amount
        r.ob(ok, "vm.rs:run_threads_round_robin:step-not-accounted", VM, x["l"],
             f"each executed unit must decrement the remaining budget and increment the executed count by the same amount ({amount}); found decrements {[q.show(d['b']) for d in decs]}, increments {[q.show(i['b']) for i in incs]}",
             sample="scheduler: budget -= 1; count += 1 next to the step")
        atoms = q.cond_atoms(q.path_conds(f["body"], x) or [])
        gate = [("" if pol else "not ") + q.show(c_) for c_, pol in atoms]
        r.ob(any(pol and c_["k"] == "MethodCall" and c_["m"] == "can_run" for c_, pol in atoms), "vm.rs:run_threads_round_robin:runs-blocked-thread", VM, x["l"], f"a thread must only be stepped when can_run() (reached under: {gate})")
    g = rt_fn(ctx, r, "run_n_steps", "VmGreenThread")
    if g is not None:
        gp = [b for p_ in g["params"] if not p_.get("self") for b in q.pat_bindings(p_["pat"])]
        ok = False
        for w in q.walk(g["body"]):
            if w["k"] == "While":
                steps = [y for y in q.walk(w["body"]) if y["k"] == "MethodCall" and y["m"] == "step"]
                decs = [y for y in q.walk(w["body"]) if y["k"] == "Binary" and y["op"] == "-=" and q.show(y["b"]) == "1" and q.show(y["a"]) in gp]
                ok = ok or (len(steps) == 1 and len(decs) == 1 and any(q.show(y["a"]) + ">0" in q.show(w["c"]).replace(" ", "") for y in decs))
            if w["k"] == "For" and w["e"]["k"] == "Range" and q.show(w["e"].get("a") or {"k": "Lit", "v": "0"}) == "0" and w["e"].get("b") is not None and q.show(w["e"]["b"]) in gp and not w["e"].get("incl"):
                steps = [y for y in q.walk(w["body"]) if y["k"] == "MethodCall" and y["m"] == "step"]
                inner = [y for y in q.walk(w["body"]) if y["k"] in ("While", "For", "Loop")]
                ok = ok or (len(steps) == 1 and not inner)
        r.ob(ok, "vm.rs:VmGreenThread::run_n_steps:one-step-per-unit", VM, g["l"], "run_n_steps must execute exactly one step() per unit of its budget", sample="run_n_steps: one step() per unit of the budget")
    c = rt_fn(ctx, r, "can_run", "VmGreenThread")
    if c is not None:
        txt = q.show(c["body"]["stmts"][-1]["e"]) if c["body"]["stmts"] else ""
        need = ["pending_host_func", "error", "done"]
        r.ob(all(n in txt for n in need), "vm.rs:can_run:incomplete", VM, c["l"], f"can_run must exclude threads with a pending host call, an error, or done (`{txt}`)", sample=f"can_run: {txt[:90]}")


def cond_calls(fn, cond):
    """Names of `self.<m>(..)` calls a condition depends on, looking through boolean locals (`let done = self.a() || self.b(); if done ..`)."""
    out = []
    seen = set()

    def go(e):
        for x in q.walk(e):
            if x["k"] == "MethodCall" and q.show(x["recv"]) == "self":
                out.append(x["m"])
            if x["k"] == "Path" and x["p"] not in seen:
                seen.add(x["p"])
                for l in q.walk(fn["body"]):
                    if l["k"] == "Local" and l.get("init") is not None and x["p"] in q.pat_bindings(l["pat"]):
                        go(l["init"])

    go(cond)
    return out


def enclosing_block(body, target):
    best = None
    for b in q.walk(body):
        if b["k"] == "Block" and any(y is target for y in q.walk(b)):
            best = b
    return best


def enclosing_if_cond(body, target):
    best = None
    for b in q.walk(body):
        if b["k"] == "If" and any(y is target for y in q.walk(b["t"])):
            best = q.show(b["c"])
    return best


@rule("STATUS-MAP", ["C11"], "thread and runtime status are mapped truthfully: pending host call, then done, then error; Done->Done, Error->MainThreadError(same), otherwise OutOfSteps")
def status_map(ctx, r):
    s = rt_fn(ctx, r, "status", "VmGreenThread")
    if s is not None:
        order = []

        def chain(e):
            if e is None:
                return
            if e["k"] == "If":
                c = q.show(e["c"])
                res = [q.last_seg(x["p"]) for x in q.walk(e["t"]) if x["k"] == "Path" and x["p"].startswith("VmStatus::")]
                order.append((c, res[0] if res else "?"))
                chain(e.get("e"))
            elif e["k"] == "Block":
                for st in e["stmts"]:
                    if st["k"] == "ExprStmt":
                        chain(st["e"])
            elif e["k"] == "Match":
                for a in e["arms"]:
                    res = [q.last_seg(x["p"]) for x in q.walk(a["body"]) if x["k"] == "Path" and x["p"].startswith("VmStatus::")]
                    order.append((q.show(e["e"]) + " matches " + q.show_pat(a["pat"]), res[0] if res else "?"))

        chain(s["body"])
        # evaluated, not matched: the result for every combination of (pending host call?, done?, error stored?)
        ATOMS = (("pending_host_func", "P"), ("done", "D"), ("error", "E"))

        def atom_of(e):
            t = q.show(e)
            for key, a in ATOMS:
                if "self." + key in t.replace("& ", "&").replace("&self", "self"):
                    return a
            return None

        def pat_ok(pat, val):
            t = q.show_pat(pat).replace(" ", "")
            if t == "_" or (pat["k"] == "PIdent" and t not in ("true", "false", "None")):
                return True
            if t.startswith(("Some(", "&Some(")):
                return val is True
            if t in ("None", "&None"):
                return val is False
            if t in ("true", "false"):
                return val is (t == "true")
            raise ValueError("pattern " + t)

        def cond_val(c, env):
            while c["k"] == "Paren":
                c = c["e"]
            if c["k"] == "Let":
                a = atom_of(c["e"])
                if a is None:
                    raise ValueError(q.show(c))
                return pat_ok(c["pat"], env[a])
            if c["k"] == "Unary" and c.get("op") in ("!", "Not"):
                return not cond_val(c["e"], env)
            if c["k"] == "Binary" and c["op"] in ("&&", "||"):
                x, y = cond_val(c["a"], env), cond_val(c["b"], env)
                return (x and y) if c["op"] == "&&" else (x or y)
            if c["k"] == "MethodCall" and c["m"] in ("is_some", "is_none") and atom_of(c["recv"]):
                v = env[atom_of(c["recv"])]
                return v if c["m"] == "is_some" else not v
            a = atom_of(c)
            if a is not None and c["k"] in ("Field", "Path"):
                return env[a]
            raise ValueError(q.show(c))

        def value(e, env):
            while e["k"] == "Paren":
                e = e["e"]
            if e["k"] == "Block":
                last = e["stmts"][-1]
                return value(last["e"], env)
            if e["k"] == "If":
                return value(e["t"], env) if cond_val(e["c"], env) else value(e["e"], env)
            if e["k"] == "Match":
                sc = e["e"]
                while sc["k"] in ("Paren", "Ref"):
                    sc = sc["e"]
                comps = sc["elems"] if sc["k"] == "Tuple" else [sc]
                atoms = [atom_of(c) for c in comps]
                if None in atoms:
                    raise ValueError(q.show(sc))
                for a in e["arms"]:
                    pats = a["pat"]["elems"] if a["pat"]["k"] == "PTuple" else [a["pat"]]
                    if len(pats) == len(atoms) and all(pat_ok(p_, env[at]) for p_, at in zip(pats, atoms)):
                        return value(a["body"], env)
                raise ValueError("no arm")
            for x in q.walk(e):
                if x["k"] == "Path" and x["p"].startswith("VmStatus::"):
                    return q.last_seg(x["p"])
                if x["k"] == "Call" and q.show(x["f"]).startswith("VmStatus::"):
                    return q.last_seg(q.show(x["f"]))
            raise ValueError(q.show(e))

        try:
            table = {}
            for P in (False, True):
                for D in (False, True):
                    for E in (False, True):
                        table[(P, D, E)] = value(s["body"], {"P": P, "D": D, "E": E})
            want_t = {(P, D, E): ("PendingHostFunc" if P else "Done" if D else "Error" if E else "OutOfSteps") for P in (False, True) for D in (False, True) for E in (False, True)}
            bad = {k: (v, want_t[k]) for k, v in table.items() if v != want_t[k]}
            r.ob(not bad, "vm.rs:VmGreenThread::status:order", VM, s["l"],
                 f"status() must report a pending host call first, then done, then a stored error, else out of steps; for (pending, done, error) it differs at {bad}", sample="status(): truth table over (pending, done, error) = pending > done > error > out of steps")
        except (ValueError, KeyError, IndexError, TypeError) as ex:
            r.missing("vm.rs:VmGreenThread::status:form", VM, f"not evaluable: {ex}")
        # the error reported is the stored one
        errs = [x for x in q.walk(s["body"]) if x["k"] == "Call" and q.show(x["f"]) == "VmStatus::Error"]
        r.ob(bool(errs) and "err" in q.show(errs[0]["args"][0]), "vm.rs:VmGreenThread::status:error-payload", VM, s["l"], "status() must report the stored error")
    u = rt_fn(ctx, r, "update_status_helper")
    if u is not None:
        tbl = {}
        for m in q.walk(u["body"]):
            if m["k"] == "Match" and "status()" in q.show(m["e"]):
                for a in m["arms"]:
                    for h in q.pat_heads(a["pat"]):
                        res = [x for x in q.walk(a["body"]) if (x["k"] == "Path" and x["p"].startswith("RuntimeStatusKind::")) or (x["k"] == "Call" and q.show(x["f"]).startswith("RuntimeStatusKind::"))]
                        val = None
                        if res:
                            x0 = res[0]
                            val = q.last_seg(x0["p"]) if x0["k"] == "Path" else q.last_seg(q.show(x0["f"])) + "(" + ",".join(q.show(y) for y in x0["args"]) + ")"
                        tbl[q.show_pat(a["pat"])] = val
        want = {"VmStatus::Done": "Done", "VmStatus::PendingHostFunc(_)": "PendingHostFunc", "VmStatus::Error(e)": "MainThreadError(e)", "VmStatus::OutOfSteps": None}
        r.ob(tbl == want, "vm.rs:Runtime::update_status_helper:mapping", VM, u["l"], f"main-thread status mapping is {tbl}; required {want}", sample=f"update_status_helper: {tbl}")
        tail = q.body_stmts(u["body"])[-1]
        te = tail.get("e") or {}
        okd = q.show(te) == "RuntimeStatusKind::OutOfSteps"
        if not okd and te.get("k") == "If" and te.get("e") is not None:
            # `if <some other thread waits on the host> { PendingHostFunc } else { OutOfSteps }`
            cvars = q.idents_in(te["c"])
            src = " ".join(q.show(l["init"]) for l in q.walk(u["body"]) if l["k"] == "Local" and l.get("init") is not None and set(q.pat_bindings(l["pat"])) & cvars) + " " + q.show(te["c"])
            th = [q.last_seg(x["p"]) for x in q.walk(te["t"]) if x["k"] == "Path" and x["p"].startswith("RuntimeStatusKind::")]
            el = [q.last_seg(x["p"]) for x in q.walk(te["e"]) if x["k"] == "Path" and x["p"].startswith("RuntimeStatusKind::")]
            okd = th == ["PendingHostFunc"] and el == ["OutOfSteps"] and "PendingHostFunc" in src + "".join(q.show(y) for l in q.walk(u["body"]) if l["k"] == "Local" for y in q.walk(l.get("init") or {}) if y.get("k") == "Macro")
        r.ob(okd, "vm.rs:Runtime::update_status_helper:default", VM, u["l"], "when the main thread is merely out of steps the status is OutOfSteps, unless another thread waits on a host call")
    # the HostFunc arm only records the id and yields
    arms = _arms(ctx, r)
    if arms is None:
        return
    by = {v: (arm, an) for v, arm, an in arms}
    if "HostFunc" not in by:
        r.missing("step:HostFunc", VM)
        return
    arm, an = by["HostFunc"]
    kinds = [ev.kind for ev in an.events]
    stack_touch = [k for k in kinds if k in ("pop", "read", "push", "store", "popn", "peek", "settop")]
    sets = [ev for ev in an.events if ev.kind == "assign" and ev.data[0] == ("self", "pending_host_func")]
    rets = [ev for ev in an.events if ev.kind == "ret"]
    ok = not stack_touch and len(sets) == 1 and sets[0].data[1] == ("Some", ("instr", 0, an.binds[0])) and len(rets) == 1
    r.ob(ok, "vm.rs:step:HostFunc:not-a-pure-yield", VM, arm["l"], f"the HostFunc arm must record exactly the function id and yield without touching the operand stack (the arguments); events {kinds}", sample="HostFunc: pending_host_func = Some(id); return false; stack untouched")
    if "Stop" in by:
        arm, an = by["Stop"]
        sets = [ev for ev in an.events if ev.kind == "assign" and ev.data[0] == ("self", "done")]
        r.ob(len(sets) == 1 and not [e for e in an.events if e.kind in ("pop", "push", "read", "store")], "vm.rs:step:Stop", VM, arm["l"], "Stop must set done and leave the stack (the final value) untouched", sample="Stop: done = true, stack untouched")


@rule("MAIN-DONE", ["C11"], "completion is reported exactly when the main thread is done, regardless of other threads")
def main_done(ctx, r):
    f = rt_fn(ctx, r, "finish_thread_turn")
    if f is None:
        return
    # path condition of every `return true`, evaluated over the truth table of (is_main, done)
    def path_conds(target):
        out = []
        for c in q.walk(f["body"]):
            if c["k"] == "If":
                if any(y is target for y in q.walk(c["t"])):
                    out.append((c["c"], True))
                elif c.get("e") is not None and any(y is target for y in q.walk(c["e"])):
                    out.append((c["c"], False))
        return out

    def ev(e, env):
        while e["k"] == "Paren":
            e = e["e"]
        if e["k"] == "Binary" and e["op"] in ("&&", "||"):
            a, b = ev(e["a"], env), ev(e["b"], env)
            return (a and b) if e["op"] == "&&" else (a or b)
        if e["k"] == "Unary" and e.get("op") in ("!", "Not"):
            return not ev(e["e"], env)
        t = q.show(e).replace(" ", "")
        if t in env:
            return env[t]
        raise ValueError(t)

    trues = [x for x in q.walk(f["body"]) if x["k"] == "Return" and x.get("e") is not None and q.show(x["e"]) == "true"]
    tail = q.body_stmts(f["body"])[-1]
    table = {}
    ok = bool(trues) and q.show(tail.get("e")) == "false"
    try:
        for im in (False, True):
            for dn in (False, True):
                env = {"thread.is_main": im, "thread.done": dn}
                table[(im, dn)] = any(all(ev(c, env) == pol for c, pol in path_conds(t)) for t in trues)
        ok = ok and table == {(False, False): False, (False, True): False, (True, False): False, (True, True): True}
    except ValueError as e:
        ok = False
        table = f"not evaluable: {e}"
    conds = table
    r.ob(ok, "vm.rs:finish_thread_turn:completion-condition", VM, f["l"], f"finish_thread_turn must return true exactly for `thread.is_main && thread.done` (truth table over (is_main, done): {conds})", sample="finish_thread_turn: true iff is_main && done (truth table)")
    saved = any(x["k"] == "Assign" and q.show(x["a"]) == "self.finished_main_thread" for x in q.walk(f["body"]))
    r.ob(saved, "vm.rs:finish_thread_turn:main-thread-dropped", VM, f["l"], "the finished main thread must be kept (its stack top is the program's result)")
    # callers propagate: they return at once, and where their result carries a completion flag it is `true`
    n = 0
    for name in ("run_threads_round_robin", "drain_new_threads"):
        g = rt_fn(ctx, r, name)
        if g is None:
            continue
        has_flag = "bool" in (g.get("ret") or "")
        for x in q.walk(g["body"]):
            if x["k"] == "If" and "finish_thread_turn" in cond_calls(g, x["c"]):
                n += 1
                rets = [q.show(y["e"]) if y.get("e") is not None else "" for y in q.walk(x["t"]) if y["k"] == "Return"]
                ok = bool(rets) and (not has_flag or all(t.startswith("true") or t.startswith("(true") for t in rets))
                r.ob(ok, f"vm.rs:{name}:completion-not-propagated", VM, x["l"], f"{name} must stop and report completion as soon as finish_thread_turn returns true (returns {rets})", sample=f"{name}: propagates completion")
    r.count("callers of finish_thread_turn", n, 2, VM)
    h = rt_fn(ctx, r, "run_n_steps")
    g = rt_fn(ctx, r, "run_threads_round_robin")
    if h is not None and g is not None:
        ret = (g.get("ret") or "").replace(" ", "")
        if "bool" in ret:
            # the flag's position in the scheduler's result, and the variable run_n_steps binds to it
            parts = ret.strip("()").split(",")
            idx = parts.index("bool") if "bool" in parts else 0
            flag = None
            for x in q.walk(h["body"]):
                if x["k"] == "Local" and x.get("init") is not None and "run_threads_round_robin" in q.show(x["init"]):
                    b = q.pat_bindings(x["pat"])
                    flag = b[idx] if idx < len(b) else None
            ok = False
            for x in q.walk(h["body"]):
                if x["k"] != "If" or flag is None:
                    continue
                c_ = q.show(x["c"]).replace(" ", "").strip("()")
                branch = x["t"] if c_ == flag else (x.get("e") if c_ in ("!" + flag, "!(" + flag + ")") else None)
                if branch is None or not any(y["k"] == "Path" and y["p"] == "RuntimeStatusKind::Done" for y in q.walk(branch)):
                    continue
                if any(y["k"] == "Return" for y in q.walk(branch)):
                    ok = True  # reported at once
                # or the branch is the value of the status kind that the function returns
                for l_ in q.walk(h["body"]):
                    if l_["k"] == "Local" and l_.get("init") is x and l_["pat"].get("k") == "PIdent":
                        nm = l_["pat"]["name"]
                        if any(y["k"] == "Struct" and "RuntimeStatus" in str(y.get("p")) and any(fl.get("name") == "kind" and q.show(fl["e"]) == nm for fl in y.get("fields", [])) for y in q.walk(h["body"])):
                            ok = True
            r.ob(ok, "vm.rs:Runtime::run_n_steps:done-status", VM, h["l"], f"run_n_steps must report Done when the scheduler's completion flag (`{flag}`) is set", sample=f"run_n_steps: {flag} -> Done")
        else:
            # no flag: the status must come from update_status_helper alone, whose first test is the main thread (STATUS-MAP)
            kinds = [q.show(fl["e"]) for x in q.walk(h["body"]) if x["k"] == "Struct" and "RuntimeStatus" in str(x.get("p")) for fl in x.get("fields", []) if fl.get("name") == "kind"]
            ok = bool(kinds) and all("update_status_helper" in k for k in kinds)
            r.ob(ok, "vm.rs:Runtime::run_n_steps:done-status", VM, h["l"], f"run_n_steps must derive its status from the main thread first (status expressions: {kinds})", sample="run_n_steps: status from update_status_helper")


def _mutators(items, ty="Runtime"):
    """Methods of the runtime that change which threads are queued (transitively): they touch run_queue with a mutating method or receive from new_threads."""
    fns = {f["name"]: f for impl in q.find_impls(items, self_ty=ty) for f in impl["items"] if f["k"] == "Fn" and f.get("body") is not None}
    direct = set()
    for n, f in fns.items():
        for x in q.walk(f["body"]):
            if x["k"] == "MethodCall":
                recv = q.show(x["recv"]).replace(" ", "")
                if (recv.endswith("self.run_queue") and x["m"] in ("push_back", "push_front", "pop_front", "pop_back", "insert", "remove", "retain", "clear", "rotate_left", "rotate_right", "swap", "drain", "append", "extend", "truncate")) or (
                    recv.endswith("self.new_threads") and x["m"] in ("try_recv", "recv", "try_iter", "iter", "recv_timeout")
                ):
                    direct.add(n)
    changed = True
    while changed:
        changed = False
        for n, f in fns.items():
            if n in direct:
                continue
            if any(x["k"] == "MethodCall" and q.show(x["recv"]) == "self" and x["m"] in direct for x in q.walk(f["body"])):
                direct.add(n)
                changed = True
    return direct, fns


@rule("SLICE-INVARIANT", ["C10"], "what the scheduler does between two instructions does not depend on whether a budget boundary falls there: queue maintenance happens after every turn, never only at slice entry or exit")
def slice_invariant(ctx, r):
    items = ctx.file_items(VM)
    f = rt_fn(ctx, r, "run_threads_round_robin")
    if f is None or items is None:
        return
    muts, fns = _mutators(items)
    r.count("runtime methods that change the set of queued threads", len(muts), 3, VM)
    stmts = f["body"]["stmts"]
    li = next((i for i, s in enumerate(stmts) if any(x["k"] == "While" for x in q.walk(s)) and any(x["k"] == "MethodCall" and x["m"] == "run_n_steps" for x in q.walk(s))), None)
    if li is None:
        r.missing("run_threads_round_robin:stepping loop", VM)
        return
    loop = next(x for x in q.walk(stmts[li]) if x["k"] == "While")

    def mut_calls(nodes):
        out = []
        for n in nodes:
            for x in q.walk(n):
                if x["k"] == "MethodCall" and q.show(x["recv"]) == "self" and x["m"] in muts:
                    out.append(x)
                elif x["k"] == "MethodCall" and q.show(x["recv"]).replace(" ", "").endswith("self.run_queue") and x["m"] in ("push_back", "push_front", "pop_front", "pop_back", "clear", "retain", "remove", "insert"):
                    out.append(x)
        return out

    pre = mut_calls(stmts[:li])
    post = mut_calls(stmts[li + 1:])
    body_stmts = loop["body"]["stmts"]
    # index of the statement that steps the thread
    si = next((i for i, s in enumerate(body_stmts) if any(x["k"] == "MethodCall" and x["m"] == "run_n_steps" for x in q.walk(s))), None)
    if si is None:
        r.missing("run_threads_round_robin:step statement", VM)
        return
    # top-level statements after the step: `if self.m(..) { return .. }`, `self.m(..);` count as unconditional calls of m
    uncond = set()
    for s in body_stmts[si + 1:]:
        e = s.get("e") if s["k"] == "ExprStmt" else None
        if e is None:
            continue
        if e["k"] == "If":
            uncond.update(cond_calls(f, e["c"]))
        elif e["k"] == "MethodCall" and q.show(e["recv"]) == "self":
            uncond.add(e["m"])
    for x in post:
        r.find(f"vm.rs:run_threads_round_robin:{x['m']}:queue-changed-at-slice-exit", VM, x["l"],
               f"`{x['m']}` changes the set of queued threads after the stepping loop, i.e. only when a budget is exhausted: where a spawned or returning thread joins the queue then depends on the embedder's step budget")
    for x in pre:
        name = x["m"]
        r.ob(name in uncond, f"vm.rs:run_threads_round_robin:{name}:only-at-slice-entry", VM, x["l"],
             f"`{name}` runs at slice entry but not after every turn of the stepping loop: a thread spawned in the middle of a slice would join the queue at the next budget boundary, so the interleaving depends on the budget",
             sample=f"scheduler: {name} at entry and after every turn")
    r.ob(not post, "vm.rs:run_threads_round_robin:slice-exit-is-pure", VM, f["l"], "no queue maintenance after the stepping loop", sample="scheduler: nothing but the result after the loop")
    # every turn puts the thread back (or retires it) through one routine, unconditionally
    r.ob("finish_thread_turn" in uncond or any(m in uncond for m in muts - {"drain_new_threads"}), "vm.rs:run_threads_round_robin:thread-not-returned-every-turn", VM, loop["l"],
         "the popped thread must be handed back to the queue (or retired) after every turn, whether or not it ran", sample="scheduler: finish_thread_turn after every turn")
    # nothing jumps over the hand-back: a `continue` (or a `break` after the pop) drops the popped thread on the floor
    jumps = []
    for i, s_ in enumerate(body_stmts):
        for x in q.walk(s_):
            if x["k"] == "Continue":
                jumps.append(x)
            elif x["k"] == "Break" and not (s_["k"] == "Local" and s_.get("else") is not None and any(y is x for y in q.walk(s_["else"]))):
                jumps.append(x)
    r.ob(not jumps, "vm.rs:run_threads_round_robin:popped-thread-dropped", VM, jumps[0]["l"] if jumps else loop["l"],
         f"a `{jumps[0]['k'].lower() if jumps else 'continue'}` inside the stepping loop skips the hand-back of the popped thread: a thread that cannot run at its turn (waiting for a host call to be serviced, blocked on a channel) is freed instead of re-queued, and whether that happens depends on how many turns the budget allows before the embedder services the call",
         sample="scheduler: no continue/break between popping a thread and handing it back")
    # loop-carried locals other than the accounting pair must be reset-free across slices: skipped counter only gates termination
    carried = [q.pat_bindings(s["pat"])[0] for s in stmts[:li] if s["k"] == "Local" and s.get("pat") and q.pat_bindings(s["pat"])]
    used_in_cond = [v for v in carried if v in q.show(loop["c"])]
    order_uses = []
    for v in carried:
        if v in ("remaining_steps", "steps_run"):
            continue
        for x in q.walk(loop["body"]):
            if x["k"] in ("If", "Match") and v in q.show(x.get("c") or x.get("e") or {"k": "Lit", "v": ""}):
                order_uses.append(v)
    r.ob(not order_uses, "vm.rs:run_threads_round_robin:per-slice-state-steers-scheduling", VM, loop["l"],
         f"per-slice local state {order_uses} steers which thread runs: it is reset at every budget boundary, so scheduling would depend on the budget (it may only bound the loop: {used_in_cond})",
         sample=f"scheduler: per-slice locals {used_in_cond} only bound the loop")

"""MIRROR (C36): host bindings carry values without loss - to_vm and from_vm are mirror images; arguments are popped in reverse declaration order;
host function ids are taken from the same ordered set in the generator and in the binding generator."""
import re

from lib import synq as q
from lib.core import rule

HB = "abra_core/src/host_bindings.rs"
FB = "abra_core/src/foreign_bindings.rs"
VM = "abra_core/src/vm.rs"
TB = "abra_core/src/translate_bytecode.rs"

SCALAR = {"pop_int": "push_int", "pop_float": "push_float", "pop_bool": "push_bool"}


def method_calls(fn, recv="vm"):
    return [x for x in q.walk_post(fn["body"]) if x["k"] == "MethodCall" and q.show(x["recv"]) == recv]


@rule("MIRROR", ["C36"], "to_vm/from_vm of each host-visible type are mirror images; host arguments are popped in reverse declaration order; ids come from one ordered set")
def mirror(ctx, r):
    items = ctx.file_items(HB)
    vitems = ctx.file_items(VM)
    if items is None or vitems is None:
        r.missing("host_bindings.rs / vm.rs")
        return
    n = 0
    for impl in q.find_impls(items, trait="VmType"):
        ty = impl["self_ty"]
        fns = {f["name"]: f for f in impl["items"] if f["k"] == "Fn"}
        fr, to = fns.get("from_vm"), fns.get("to_vm")
        if fr is None or to is None:
            r.find(f"host_bindings.rs:VmType for {ty}:incomplete", HB, impl["l"], f"VmType for {ty} lacks from_vm or to_vm")
            continue
        n += 1
        pops = [x["m"] for x in method_calls(fr)]
        pushes = [x["m"] for x in method_calls(to)]
        key = f"host_bindings.rs:VmType for {ty}"
        if pops and pops[0] in SCALAR and len(pops) == 1:
            r.ob(pushes == [SCALAR[pops[0]]], key + ":scalar-mismatch", HB, to["l"], f"{ty}: from_vm uses {pops}, to_vm uses {pushes}: a value written as one runtime type is read back as another", sample=f"{ty}: {pops[0]} / {pushes}")
        elif ty == "String":
            r.ob(pushes == ["push_str"] and "pop" in pops and "view_string" in [x["m"] for x in q.walk(fr["body"]) if x["k"] == "MethodCall"], key + ":string", HB, to["l"], f"String must be pushed with push_str and read with pop + view_string (from_vm {pops}, to_vm {pushes})", sample="String: push_str / pop.view_string")
        elif ty == "()":
            r.ob(pops == ["pop"] and len(pushes) == 1, key + ":unit", HB, to["l"], f"(): a unit inside an enum occupies exactly one dummy slot (from_vm {pops}, to_vm {pushes})", sample="(): one dummy slot")
        elif ty.startswith("Option<") or ty.startswith("Result<"):
            # from_vm: deconstruct_variant, pop_int tag, then payload; to_vm: payload then construct_variant (tags checked by TAG-AGREE)
            ok_from = pops[:2] == ["deconstruct_variant", "pop_int"]
            ok_to = True
            for m in q.walk(to["body"]):
                if m["k"] == "Match":
                    for a in m["arms"]:
                        calls = [x["m"] for x in q.walk_post(a["body"]) if x["k"] == "MethodCall"]
                        if "construct_variant" in calls:
                            ok_to = ok_to and calls.index("to_vm") < calls.index("construct_variant") and calls.count("to_vm") == 1
            r.ob(ok_from and ok_to, key + ":variant-protocol", HB, to["l"], f"{ty}: from_vm must deconstruct, read the tag, then the payload; to_vm must push exactly one payload and then construct the variant (from_vm starts {pops[:2]})", sample=f"{ty}: payload ; construct_variant / deconstruct_variant ; tag ; payload")
        elif ty.startswith("Vec<"):
            ok_to = pushes == ["construct_array"] and any(x["k"] == "For" and any(y["k"] == "MethodCall" and y["m"] == "to_vm" for y in q.walk(x["body"])) for x in q.walk(to["body"]))
            ok_len = any(x["k"] == "MethodCall" and x["m"] == "construct_array" and q.show(x["args"][0]) == "len" for x in q.walk(to["body"])) and any(x["k"] == "Local" and q.pat_bindings(x["pat"]) == ["len"] and q.show(x["init"]) == "self.len()" for x in q.walk(to["body"]))
            ok_from = pops[:2] == ["array_len", "deconstruct_array"] and any(x["k"] == "For" and "len" in q.show(x["e"]) and any(y["k"] == "MethodCall" and y["m"] == "push" for y in q.walk(x["body"])) for x in q.walk(fr["body"]))
            r.ob(ok_to and ok_len and ok_from, key + ":array-protocol", HB, to["l"], f"{ty}: to_vm must push every element in order and construct an array of that length; from_vm must read the length, deconstruct, and pop that many elements in order", sample=f"{ty}: elements in order ; construct_array(len) / array_len ; deconstruct_array ; len pops")
        else:
            r.notes.append(f"VmType for {ty}: not a modelled shape")
    r.count("hand-written VmType implementations", n, 8, HB)
    # every way out of a from_vm has taken the value off the stack (a length or type peek does not)
    n_exits = 0
    for file in (HB, FB):
        fitems = ctx.file_items(file)
        if fitems is None:
            r.missing(file)
            continue
        short = file.split("/")[-1]
        for impl in q.find_impls(fitems):
            if not (impl.get("trait") or "").startswith("Vm"):
                continue
            for f in impl["items"]:
                if f["k"] != "Fn" or f["name"] not in ("from_vm", "from_vm_unsafe") or f.get("body") is None:
                    continue

                def consumes(node):
                    for x in q.walk(node):
                        if x["k"] == "MethodCall" and q.show(x["recv"]) == "vm" and x["m"].startswith(("pop", "deconstruct")):
                            return True
                        if x["k"] == "Call":
                            fn = q.show(x["f"])
                            if fn.endswith(("::from_vm", "::from_vm_unsafe")) or ".pop" in fn or ".deconstruct" in fn:
                                return True
                    return False

                exits = [x for x in q.walk(f["body"]) if x["k"] == "Return"]
                for ex in exits:
                    n_exits += 1
                    doms = []
                    for b in q.walk(f["body"]):
                        if b["k"] == "Block":
                            for i, st_ in enumerate(b["stmts"]):
                                if any(y is ex for y in q.walk(st_)):
                                    doms.extend(b["stmts"][:i])
                    ok = any(consumes(d) for d in doms) or (ex.get("e") is not None and consumes(ex["e"]))
                    r.ob(ok, f"{short}:VmType for {impl['self_ty']}:from_vm:exit-without-consuming", file, ex["l"],
                         f"from_vm of {impl['self_ty']} returns at line {ex['l']} without having popped or deconstructed the value it converts (array_len / top only look): the value stays on the VM stack and the next argument or element the host unpacks reads it instead",
                         sample=f"{impl['self_ty']}: early exit of from_vm has consumed the value")
                # a variant taken apart leaves its tag and its payload: once the tag is popped, every arm that decides by the
                # tag takes the payload too (a variant without data still carries a placeholder)
                if any(x["k"] == "MethodCall" and x["m"] == "deconstruct_variant" for x in q.walk(f["body"])):
                    for m_ in q.walk(f["body"]):
                        if m_["k"] != "Match":
                            continue
                        for a_ in m_["arms"]:
                            if a_["pat"].get("k") != "PLit":
                                continue
                            n_exits += 1
                            takes = any((x["k"] == "Call" and q.show(x["f"]).endswith(("::from_vm", "::from_vm_unsafe"))) or (x["k"] == "MethodCall" and q.show(x["recv"]) == "vm" and x["m"].startswith("pop")) for x in q.walk(a_["body"]))
                            r.ob(takes, f"{short}:VmType for {impl['self_ty']}:from_vm:tag-{a_['pat'].get('v')}:payload-left-on-the-stack", file, a_["l"],
                                 f"from_vm of {impl['self_ty']}: the arm for tag {a_['pat'].get('v')} does not take the payload that deconstruct_variant pushed (a data-less variant carries a placeholder): it stays on the VM stack, and the previous argument or the next element the host unpacks receives it instead of its own value",
                                 sample=f"{impl['self_ty']}: tag {a_['pat'].get('v')} arm takes the payload")
                n_exits += 1
                r.ob(consumes(f["body"]), f"{short}:VmType for {impl['self_ty']}:from_vm:never-consumes", file, f["l"], f"from_vm of {impl['self_ty']} never takes a value off the VM stack", sample=f"{impl['self_ty']}: from_vm consumes")
    r.count("from_vm exits", n_exits, 16, HB)
    # tuples (macro): textual shape of the macro body
    mac = next((it for it, _ in q.iter_items(items) if it["k"] == "ItemMacro" and it.get("name") == "macro_rules" and "deconstruct_struct" in it.get("tokens", "") and "from_vm" in it.get("tokens", "")), None)
    if mac is None:
        r.missing("host_bindings.rs:tuple_impls!", HB)
    else:
        t = re.sub(r"\s+", "", mac["tokens"])
        ok = "vm.deconstruct_struct();" in t and "$($name::from_vm(vm),)+" in t and "$($name.to_vm(vm);)+" in t and "vm.construct_struct(count)" in t
        ok = ok and t.index("$($name.to_vm(vm);)+") < t.index("vm.construct_struct(count)") and t.index("vm.deconstruct_struct();") < t.index("$($name::from_vm(vm),)+")
        r.ob(ok, "host_bindings.rs:tuple_impls:protocol", HB, mac["l"], "tuples: to_vm must push the components in order and construct a struct of that many fields; from_vm must deconstruct and pop the components in order", sample="tuples: components in order ; construct_struct(count) / deconstruct_struct ; pops in order")
    # the VM's deconstruct_* push reversed (first component on top) and construct_* keep order
    for name, rev in (("deconstruct_struct", True), ("deconstruct_array", True)):
        f = q.find_fn(vitems, name, impl_ty="VmGreenThread")
        if f is None:
            r.missing(f"vm.rs:{name}", VM)
            continue
        ext = [x for x in q.walk(f["body"]) if x["k"] == "MethodCall" and x["m"] == "extend" and q.show(x["recv"]).endswith("value_stack")]
        ok = bool(ext) and q.show(ext[0]["args"][0]).endswith(".rev()")
        r.ob(ok, f"vm.rs:{name}:order", VM, f["l"], f"{name} must push the components reversed so that the first component is on top (the readers pop in declaration order)", sample=f"{name}: extend(components.rev())")
    pn = q.find_fn(vitems, "pop_n", impl_ty="VmGreenThread")
    if pn is not None:
        ok = any(x["k"] == "MethodCall" and x["m"] == "drain" for x in q.walk(pn["body"])) and not any(x["k"] == "MethodCall" and x["m"] == "rev" for x in q.walk(pn["body"]))
        r.ob(ok, "vm.rs:pop_n:order", VM, pn["l"], "pop_n must return the popped values in push order (construct_struct/array rely on it)", sample="pop_n: drain(len - n..) keeps push order")
    # generated argument marshalling: reverse declaration order
    gen = next((f for f, _ in q.iter_items(items) if f["k"] == "Fn" and f.get("body") is not None and any(x["k"] == "Lit" and x.get("t") == "str" and "fn from_vm(vm: &mut VmGreenThread, pending_host_func: u16)" in x["v"] for x in q.walk(f["body"]))), None)
    if gen is None:
        r.missing("host_bindings.rs:HostFunctionArgs generator", HB)
    else:
        loops = [x for x in q.walk(gen["body"]) if x["k"] == "For" and "args" in q.show(x["e"]) and any(y["k"] == "Macro" and "from_vm(vm)" in y["tokens"] for y in q.walk(x["body"]))]
        ok = bool(loops) and q.show(loops[0]["e"]).replace(" ", "").endswith(".enumerate().rev()")
        r.ob(ok, "host_bindings.rs:HostFunctionArgs::from_vm:pop-order", HB, loops[0]["l"] if loops else gen["l"],
             f"arguments are pushed left to right, so the generated from_vm must pop them in reverse declaration order while keeping their indices (`enumerate().rev()`); it iterates `{q.show(loops[0]['e']) if loops else '?'}`",
             sample="HostFunctionArgs::from_vm: args.iter().enumerate().rev()")
        ids = [x for x in q.walk(gen["body"]) if x["k"] == "For" and q.show(x["e"]).replace(" ", "") == "ctx.host_funcs.iter().enumerate()"]
        r.ob(bool(ids), "host_bindings.rs:HostFunctionArgs::from_vm:ids", HB, gen["l"], "the generated dispatch must number host functions by their position in ctx.host_funcs", sample="HostFunctionArgs: ids = position in ctx.host_funcs")
    titems = ctx.file_items(TB)
    eh = q.find_fn(titems, "emit_host", impl_ty="Translator") if titems else None
    if eh is None:
        r.missing("translate_bytecode.rs:emit_host", TB)
    else:
        ok = any(x["k"] == "MethodCall" and x["m"] == "get_id" and q.show(x["recv"]).endswith("statics.host_funcs") for x in q.walk(eh["body"]))
        r.ob(ok, "translate_bytecode.rs:emit_host:id-source", TB, eh["l"], "HostFunc ids must be the ids of the same statics.host_funcs set the binding generator enumerates", sample="emit_host: statics.host_funcs.get_id(decl)")
    # the resolver leaves host_funcs in a deterministic (sorted) order
    ritems = ctx.file_items("abra_core/src/statics/resolve.rs")
    rs = q.find_fn(ritems, "resolve") if ritems else None
    if rs is not None:
        srt = any(x["k"] == "MethodCall" and x["m"] in ("sort_by", "sort_by_key", "sort") for x in q.walk(rs["body"])) and any(x["k"] == "MethodCall" and x["m"] == "insert" and "host_funcs" in q.show(x["recv"]) for x in q.walk(rs["body"]))
        r.ob(srt, "resolve.rs:resolve:host-funcs-order", "abra_core/src/statics/resolve.rs", rs["l"], "host functions must be renumbered in a deterministic order (sorted by name) after resolution", sample="resolve: host_funcs sorted by name, re-inserted")

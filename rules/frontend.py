"""Front-end / generator structural rules: CTX-BARRIER, MUT-PAIR, SCOPE, IMPORT-KINDS, GUARD, PASS-ORDER,
CALL-SIBLING, TYPED-FALLBACK, EPILOGUE, TYPE-TOTAL, LIT-CANON, ASSIGN-CAPTURED."""
from lib import astmodel as am
from lib import synq as q
from lib.inline import walk_inl as W
from lib.core import rule
from rules.pipe import binop_tables, assign_tables, actions

TB = "abra_core/src/translate_bytecode.rs"
RES = "abra_core/src/statics/resolve.rs"
TC = "abra_core/src/statics/typecheck.rs"
EXH = "abra_core/src/statics/pat_exhaustiveness.rs"
STATICS = "abra_core/src/statics.rs"
LIB = "abra_core/src/lib.rs"


def fn_named(ctx, r, file, name, impl_ty=None):
    items = ctx.file_items(file)
    if items is None:
        r.missing(file)
        return None
    f = q.find_fn(items, name, impl_ty=impl_ty)
    if f is None:
        r.missing(f"{file.split('/')[-1]}:{name}", file)
    return f


def arm_of(fn, enum, variant, scrut_contains=".kind"):
    for e, m in am.principal_matches(fn):
        if e != enum:
            continue
        for arm in m["arms"]:
            if variant in am.arm_variants(arm, enum):
                return arm
    return None


def stmts_flat(node):
    """Statements of a block in order, descending into nested blocks/ifs/loops (source order)."""
    out = []
    for x in q.walk(node):
        if x["k"] in ("ExprStmt", "Local"):
            out.append(x)
    return out


def calls_in_order(node):
    out = []
    for x in q.walk_post(node):
        if x["k"] == "MethodCall":
            out.append((x["m"], x))
        elif x["k"] == "Call" and x["f"]["k"] == "Path":
            out.append((q.last_seg(x["f"]["p"]), x))
    out.sort(key=lambda t: (t[1]["l"], 0))
    return out


# ----------------------------------------------------------------------------------------- CTX-BARRIER


def barrier_ok(body, stack_field, value="None"):
    """`ctx.<stack_field>.push(None)` precedes every generate_constraints_expr call in body and a pop follows."""
    pushes = [x for x in q.walk(body) if x["k"] == "MethodCall" and x["m"] == "push" and q.show(x["recv"]).endswith("." + stack_field) and q.show(x["args"][0]) == value]
    pops = [x for x in q.walk(body) if x["k"] == "MethodCall" and x["m"] == "pop" and q.show(x["recv"]).endswith("." + stack_field)]
    gens = [x for x in q.walk(body) if x["k"] == "Call" and x["f"]["k"] == "Path" and q.last_seg(x["f"]["p"]).startswith("generate_constraints_expr")]
    if not pushes or not pops or not gens:
        return False, f"push(None)×{len(pushes)}, pop×{len(pops)}, body visits×{len(gens)}"
    first_push = min(p["l"] for p in pushes)
    last_pop = max(p["l"] for p in pops)
    ok = all(first_push < g["l"] < last_pop or (first_push <= g["l"] <= last_pop and first_push != last_pop) for g in gens)
    return ok, f"push at line {first_push}, pop at {last_pop}, body visits at {[g['l'] for g in gens]}"


@rule("CTX-BARRIER", ["C03"], "every function boundary in the type checker pushes a loop barrier around its body (break/continue cannot escape a lambda or task)")
def ctx_barrier(ctx, r):
    items = ctx.file_items(TC)
    if items is None:
        r.missing("typecheck.rs")
        return
    n = 0
    # (1) the Break/Continue arm honours the barrier
    gs = q.find_fn(items, "generate_constraints_stmt")
    if gs is None:
        r.missing("generate_constraints_stmt", TC)
        return
    arm = arm_of(gs, "StmtKind", "Break")
    ok = False
    if arm is not None:
        # evaluated over the three shapes of `loop_stack.last()`: no loop at all, a function boundary, a loop
        CASES = ("None", "Some(None)", "Some(Some)")

        def pat_matches(pat_txt, case):
            for alt in pat_txt.replace(" ", "").split("|"):
                if alt in ("_",) or (alt.isidentifier() and alt not in ("None",)):
                    return True
                if alt == "None" and case == "None":
                    return True
                if alt == "Some(None)" and case == "Some(None)":
                    return True
                if alt.startswith("Some(Some(") and case == "Some(Some)":
                    return True
                if alt in ("Some(_)", "Some(..)") and case != "None":
                    return True
            return False

        flags = {}
        for l in q.walk(arm["body"]):
            if l["k"] == "Local" and l.get("init") is not None:
                for b in q.pat_bindings(l["pat"]):
                    flags[b] = l["init"]

        def is_last(e):
            t = q.show(e).replace(" ", "")
            if t.endswith("loop_stack.last()"):
                return True
            return e["k"] == "Path" and e["p"] in flags and is_last(flags[e["p"]])

        def cond(c, case):
            while c["k"] == "Paren":
                c = c["e"]
            if c["k"] == "Unary" and c.get("op") in ("!", "Not"):
                return not cond(c["e"], case)
            if c["k"] == "Path" and c["p"] in flags:
                return cond(flags[c["p"]], case)
            if c["k"] == "Macro" and c.get("name") == "matches" and c.get("pat") is not None and c.get("args") and is_last(c["args"][0]):
                return pat_matches(q.show_pat(c["pat"]), case)
            if c["k"] == "Let" and is_last(c["e"]):
                return pat_matches(q.show_pat(c["pat"]), case)
            raise ValueError(q.show(c))

        def reports(node, case):
            k = node["k"]
            if k == "Block":
                return any(reports(s_, case) for s_ in node["stmts"])
            if k == "ExprStmt":
                return reports(node["e"], case)
            if k == "Local":
                return False
            if k == "If":
                if cond(node["c"], case):
                    return reports(node["t"], case)
                return reports(node["e"], case) if node.get("e") is not None else False
            if k == "Match" and is_last(node["e"]):
                for a in node["arms"]:
                    if pat_matches(q.show_pat(a["pat"]), case):
                        return reports(a["body"], case)
                return False
            return any(y["k"] == "MethodCall" and y["m"] == "push" and q.show(y["recv"]).endswith(".errors") for y in q.walk(node))

        try:
            got = {c: reports(arm["body"], c) for c in CASES}
            ok = got == {"None": True, "Some(None)": True, "Some(Some)": False}
        except (ValueError, KeyError):
            ok = False
    r.ob(ok, "typecheck.rs:generate_constraints_stmt:Break:barrier-not-honoured", TC, arm["l"] if arm else 0,
         "break/continue must report NotInLoop when the innermost loop_stack entry is the function barrier `Some(None)`", sample="Break/Continue: Some(None) -> NotInLoop")
    # (2) every function-boundary construct pushes the barrier: functions that push func_ret_stack, and the TaskBlock arm
    for f, _ in q.iter_items(items):
        if f["k"] != "Fn" or f.get("body") is None:
            continue
        if any(x["k"] == "MethodCall" and x["m"] == "push" and q.show(x["recv"]).endswith(".func_ret_stack") for x in q.walk(f["body"])):
            n += 1
            ok, why = barrier_ok(f["body"], "loop_stack")
            r.ob(ok, f"typecheck.rs:{f['name']}:no-loop-barrier", TC, f["l"],
                 f"{f['name']} starts a function body (pushes func_ret_stack) but does not push a `None` loop barrier around it ({why}): `break` inside a lambda within a loop is accepted and the generator panics",
                 sample=f"{f['name']}: loop barrier around the body ({why})")
    ge = q.find_fn(items, "generate_constraints_expr")
    arm = arm_of(ge, "ExprKind", "TaskBlock") if ge else None
    if arm is None:
        r.missing("generate_constraints_expr:TaskBlock", TC)
    else:
        n += 1
        ok, why = barrier_ok(arm["body"], "loop_stack")
        r.ob(ok, "typecheck.rs:generate_constraints_expr:TaskBlock:no-loop-barrier", TC, arm["l"],
             f"the TaskBlock arm does not push a `None` loop barrier around the task body ({why})", sample=f"TaskBlock: loop barrier ({why})")
        # a task body has no enclosing function either: `?`/`return` must not see the enclosing function's return type
        iso = any(x["k"] == "Call" and q.show(x["f"]).endswith("mem::take") and "func_ret_stack" in q.show(x["args"][0]) for x in q.walk(arm["body"])) and \
            any(x["k"] == "Assign" and q.show(x["a"]).endswith(".func_ret_stack") for x in q.walk(arm["body"]))
        pushes_ret = any(x["k"] == "MethodCall" and x["m"] == "push" and q.show(x["recv"]).endswith(".func_ret_stack") for x in q.walk(arm["body"]))
        r.ob(iso or pushes_ret, "typecheck.rs:generate_constraints_expr:TaskBlock:enclosing-function-visible", TC, arm["l"],
             "inside a task the checker still sees the enclosing function's return type (func_ret_stack is neither isolated nor given a new entry), so `?` in a task inside a function is accepted; the generator compiles a task as a top-level frame with an empty return stack and panics",
             sample="TaskBlock: func_ret_stack isolated for the task body")
    # (3) loops push Some(id) and pop
    loops = 0
    for v in ("WhileLoop", "ForLoop"):
        a = arm_of(gs, "StmtKind", v)
        if a is None:
            r.missing(f"generate_constraints_stmt:{v}", TC)
            continue
        loops += 1
        seq = list(W(a["body"]))  # also looks inside helpers the arm delegates to
        pushes = [i for i, x in enumerate(seq) if x["k"] == "MethodCall" and x["m"] == "push" and q.show(x["recv"]).endswith(".loop_stack") and q.show(x["args"][0]).startswith("Some(")]
        pops = [i for i, x in enumerate(seq) if x["k"] == "MethodCall" and x["m"] == "pop" and q.show(x["recv"]).endswith(".loop_stack")]
        r.ob(len(pushes) == 1 and len(pops) == 1 and pushes[0] < pops[0], f"typecheck.rs:generate_constraints_stmt:{v}:loop-stack", TC, a["l"], f"{v} must push its id on loop_stack before its body and pop it after")
    r.count("function-boundary constructs", n, 2, TC)


# ----------------------------------------------------------------------------------------- MUT-PAIR / SCOPE


def binding_sites(ctx, r):
    """Call sites `resolve_names_pat(ctx, TABLE, PAT, true)` outside resolve_names_pat itself: [(fn, arm variant, call node, block)]."""
    items = ctx.file_items(RES)
    if items is None:
        r.missing("resolve.rs")
        return []
    out = []
    for f, _ in q.iter_items(items):
        if f["k"] != "Fn" or f.get("body") is None or f["name"] == "resolve_names_pat":
            continue
        for enum, m in am.principal_matches(f):
            for arm in m["arms"]:
                for x in q.walk(arm["body"]):
                    if x["k"] == "Call" and x["f"]["k"] == "Path" and q.last_seg(x["f"]["p"]) == "resolve_names_pat" and len(x["args"]) == 4 and q.show(x["args"][3]) == "true":
                        out.append((f, "|".join(am.arm_variants(arm, enum)), x, arm))
    return out


@rule("MUT-PAIR", ["C20", "C04"], "every pattern that introduces variable declarations is recorded in pat_is_mutable (the assignment check indexes it with a panicking [])")
def mut_pair(ctx, r):
    sites = binding_sites(ctx, r)
    r.count("binding-introducing sites", len(sites), 3, RES)
    for f, variant, call, arm in sites:
        pat = q.show(call["args"][2])
        recs = [x for x in q.walk(arm["body"]) if x["k"] == "Call" and x["f"]["k"] == "Path" and q.last_seg(x["f"]["p"]) == "record_pat_mutability" and q.show(x["args"][1]) == pat]
        r.ob(bool(recs), f"resolve.rs:{f['name']}:{variant}:pattern-mutability-not-recorded", RES, call["l"],
             f"{f['name']} ({variant}): `{pat}` introduces variable declarations but record_pat_mutability is not called on it; assigning to such a variable makes the type checker index pat_is_mutable with a missing key and panic",
             sample=f"{f['name']} {variant}: {pat} recorded in pat_is_mutable")
    # the reader: typecheck's Assign arm
    tci = ctx.file_items(TC)
    gs = q.find_fn(tci, "generate_constraints_stmt") if tci else None
    arm = arm_of(gs, "StmtKind", "Assign") if gs else None
    if arm is None:
        r.missing("generate_constraints_stmt:Assign", TC)
        return
    reads = [x for x in q.walk(arm["body"]) if (x["k"] == "Index" and q.show(x["e"]).endswith(".pat_is_mutable")) or (x["k"] == "MethodCall" and x["m"] == "get" and q.show(x["recv"]).endswith(".pat_is_mutable"))]
    r.ob(bool(reads), "typecheck.rs:generate_constraints_stmt:Assign:immutability-check-missing", TC, arm["l"],
         "the Assign arm no longer consults pat_is_mutable: assignment to a `let` binding would be accepted", sample="Assign consults pat_is_mutable")


SCOPE_TABLE = {
    # construct -> where its bindings must live
    "Let": "current",
    "ForLoop": "fresh",
    "Match": "fresh",
    "AnonymousFunction": "fresh",
}


@rule("SCOPE", ["C21", "C02", "C35"], "constructs with a body bind their variables in a scope created for that construct (let binds in the current scope)")
def scope(ctx, r):
    items = ctx.file_items(RES)
    if items is None:
        r.missing("resolve.rs")
        return
    sites = binding_sites(ctx, r)
    seen = set()
    for f, variant, call, arm in sites:
        for v in variant.split("|"):
            want = SCOPE_TABLE.get(v)
            if want is None:
                continue
            seen.add(v)
            table = q.show(call["args"][1]).lstrip("&")
            # is `table` a local of this arm initialised with .new_scope()/.new_closure_scope() before the call?
            fresh = False
            for x in q.walk(arm["body"]):
                if x["k"] == "Local" and x.get("init") is not None and table in q.pat_bindings(x["pat"]) and x["l"] <= call["l"]:
                    init = x["init"]
                    if init["k"] == "MethodCall" and init["m"] in ("new_scope", "new_closure_scope"):
                        fresh = True
            # a construct with several sibling bodies (match arms) gets one scope per sibling
            loops = [x for x in q.walk(arm["body"]) if x["k"] == "For" and any(y is call for y in q.walk(x["body"]))]
            if want == "fresh" and fresh and loops:
                inner = loops[-1]
                per_sibling = any(x["k"] == "Local" and x.get("init") is not None and table in q.pat_bindings(x["pat"]) and x["init"]["k"] == "MethodCall" and x["init"]["m"] in ("new_scope", "new_closure_scope") for x in q.walk(inner["body"]))
                r.ob(per_sibling, f"resolve.rs:{f['name']}:{v}:scope-shared-between-siblings", RES, call["l"],
                     f"{f['name']}: the patterns of `{v}` are bound inside `for {q.show_pat(inner['pat'])} in {q.show(inner['e'])}` but the scope they are bound in is created once, outside that loop: a variable bound by an earlier sibling stays visible in the later ones and shadows the enclosing variable of the same name",
                     sample=f"{v}: one scope per sibling ({q.show(inner['e'])})")
            ok = fresh if want == "fresh" else not fresh
            r.ob(ok, f"resolve.rs:{f['name']}:{v}:binding-scope", RES, call["l"],
                 f"{f['name']}: the pattern of `{v}` is bound in {'a fresh scope' if fresh else 'the enclosing scope'}; it must be bound in {'a scope created for the construct (its variables are visible in the body only)' if want == 'fresh' else 'the current scope'}",
                 sample=f"{v}: pattern bound in {'fresh' if fresh else 'current'} scope")
    # functions that are siblings in a list (methods of an extend / implement block) get one scope each
    n_sib = 0
    for ff, _ in q.iter_items(items):
        if ff["k"] != "Fn" or ff.get("body") is None:
            continue
        for lp in q.walk(ff["body"]):
            if lp["k"] != "For":
                continue
            for c in q.walk(lp["body"]):
                if c["k"] == "Call" and c["f"]["k"] == "Path" and q.last_seg(c["f"]["p"]) == "resolve_names_func_helper" and len(c["args"]) >= 2:
                    n_sib += 1
                    table = q.show(c["args"][1]).lstrip("&")
                    own = any(x["k"] == "Local" and x.get("init") is not None and table in q.pat_bindings(x["pat"]) and x["init"]["k"] == "MethodCall" and x["init"]["m"] in ("new_scope", "new_closure_scope") for x in q.walk(lp["body"]))
                    r.ob(own, f"resolve.rs:{ff['name']}:{q.show(lp['e'])}:scope-shared-between-siblings", RES, c["l"],
                         f"{ff['name']}: the functions of `{q.show(lp['e'])}` are resolved one after another in the same scope `{table}`: the parameters of an earlier method stay visible in the later ones (`fn bb(self) {{ n }}` is accepted because `aa` has a parameter n, and the VM then reads a slot that does not exist)",
                         sample=f"{q.show(lp['e'])}: one scope per method")
    r.count("function lists resolved in a loop", n_sib, 2, RES)
    # lambdas and named functions bind parameters through resolve_names_func_helper on a fresh scope
    re_ = q.find_fn(items, "resolve_names_expr")
    arm = arm_of(re_, "ExprKind", "AnonymousFunction") if re_ else None
    if arm is None:
        r.missing("resolve_names_expr:AnonymousFunction", RES)
    else:
        seen.add("AnonymousFunction")
        call = next((x for x in q.walk(arm["body"]) if x["k"] == "Call" and x["f"]["k"] == "Path" and q.last_seg(x["f"]["p"]) == "resolve_names_func_helper"), None)
        fresh = False
        if call is not None:
            table = q.show(call["args"][1]).lstrip("&")
            for x in q.walk(arm["body"]):
                if x["k"] == "Local" and x.get("init") is not None and table in q.pat_bindings(x["pat"]) and x["init"]["k"] == "MethodCall" and x["init"]["m"] in ("new_scope", "new_closure_scope"):
                    fresh = True
        r.ob(fresh, "resolve.rs:resolve_names_expr:AnonymousFunction:binding-scope", RES, arm["l"], "lambda parameters must be bound in a scope created for the lambda", sample="AnonymousFunction: parameters in a fresh scope")
    # blocks and while bodies open a scope
    for fn, enum, v in (("resolve_names_expr", "ExprKind", "Block"), ("resolve_names_stmt", "StmtKind", "WhileLoop")):
        f = q.find_fn(items, fn)
        a = arm_of(f, enum, v) if f else None
        if a is None:
            r.missing(f"{fn}:{v}", RES)
            continue
        opens = any(x["k"] == "MethodCall" and x["m"] == "new_scope" for x in q.walk(a["body"]))
        r.ob(opens, f"resolve.rs:{fn}:{v}:no-scope", RES, a["l"], f"{v} must open a new scope for its statements", sample=f"{v}: opens a scope")
    # a statement nested in an expression or statement (branch of `if`, arm of `match`, body of a loop or block) is resolved
    # in a scope created inside that construct, and sibling branches do not share it
    n_nested = 0
    for fn, enum in (("resolve_names_expr", "ExprKind"), ("resolve_names_stmt", "StmtKind")):
        f = q.find_fn(items, fn)
        if f is None:
            r.missing(fn, RES)
            continue
        for m in q.walk(f["body"]):
            if m["k"] != "Match":
                continue
            for a in m["arms"]:
                heads = [q.last_seg(h) for h in q.pat_heads(a["pat"]) if h.startswith(enum + "::")]
                if not heads:
                    continue
                v = "|".join(heads)
                fresh_locals = {}
                for x in q.walk(a["body"]):
                    if x["k"] == "Local" and x.get("init") is not None and x["init"]["k"] == "MethodCall" and x["init"]["m"] in ("new_scope", "new_closure_scope"):
                        for nm in q.pat_bindings(x["pat"]):
                            fresh_locals.setdefault(nm, []).append(x)
                used = {}
                for c in q.walk(a["body"]):
                    if not (c["k"] == "Call" and c["f"]["k"] == "Path" and len(c["args"]) >= 3):
                        continue
                    direct = q.last_seg(c["f"]["p"]) == "resolve_names_stmt"
                    # or a helper that resolves each statement of a list in the table it is given
                    callee = q.find_fn(items, q.last_seg(c["f"]["p"]))
                    takes_stmts = callee is not None and len(callee["params"]) >= 3 and "Stmt" in callee["params"][2].get("ty", "")
                    via = takes_stmts and callee.get("body") is not None and any(y["k"] == "Call" and y["f"]["k"] == "Path" and q.last_seg(y["f"]["p"]) == "resolve_names_stmt" for y in q.walk(callee["body"]))
                    if not (direct or via):
                        continue
                    n_nested += 1
                    t = c["args"][1]
                    while t["k"] in ("Ref", "Paren"):
                        t = t["e"]
                    inline_fresh = t["k"] == "MethodCall" and t["m"] in ("new_scope", "new_closure_scope")
                    name = q.show(t)
                    local_fresh = [x for x in fresh_locals.get(name, []) if x["l"] <= c["l"]]
                    r.ob(inline_fresh or bool(local_fresh), f"resolve.rs:{fn}:{v}:nested-statement-in-enclosing-scope", RES, c["l"],
                         f"{fn}: the statement `{q.show(c['args'][2])}` of `{v}` is resolved in `{name}`, the scope the construct itself appears in: a declaration made by that statement (`if c let x = 5`) stays visible after the construct, and when the branch is not taken the VM reads a slot that was never written",
                         sample=f"{v}: nested statement resolved in a scope of its own")
                    if local_fresh:
                        # the same local scope used for two different (non-loop) statements = siblings sharing a scope
                        in_loop = any(x["k"] == "For" and any(y is c for y in q.walk(x["body"])) for x in q.walk(a["body"]))
                        if not in_loop:
                            used.setdefault((name, local_fresh[-1]["l"]), []).append(c)
                for (name, _), cs in used.items():
                    r.ob(len(cs) <= 1, f"resolve.rs:{fn}:{v}:scope-shared-between-siblings", RES, cs[-1]["l"],
                         f"{fn}: {len(cs)} alternative statements of `{v}` are resolved in the same scope `{name}`: a declaration in the first branch is visible in the second",
                         sample=f"{v}: one scope per branch")
    r.count("nested statements resolved", n_nested, 4, RES)
    r.count("binding constructs checked", len(seen), 4, RES)


@rule("IMPORT-KINDS", ["C21"], "every import kind is handled; inclusion and exclusion use predicates of opposite polarity over the same list")
def import_kinds(ctx, r):
    items = ctx.file_items(RES)
    ast = ctx.file_items(am.AST)
    if items is None or ast is None:
        r.missing("resolve.rs/ast.rs")
        return
    ik = q.find_enum(ast, "ImportKind")
    f = q.find_fn(items, "resolve_imports_file")
    if ik is None or f is None:
        r.missing("ImportKind/resolve_imports_file", RES)
        return
    arms = {}
    for m in q.walk(f["body"]):
        if m["k"] == "Match":
            for a in m["arms"]:
                for h in q.pat_heads(a["pat"]):
                    if h.startswith("ImportKind::"):
                        arms[q.last_seg(h)] = a
    for v in ik["variants"]:
        r.ob(v["name"] in arms, f"resolve.rs:resolve_imports_file:{v['name']}:unhandled", RES, f["l"], f"import kind {v['name']} is not handled")
    r.count("import kinds", len(arms), 4, RES)

    def pred_polarity(arm):
        for x in q.walk(arm["body"]):
            if x["k"] == "Closure":
                body = x["body"]
                neg = False
                while body["k"] == "Unary" and body["op"] == "!":
                    neg = not neg
                    body = body["e"]
                if body["k"] == "MethodCall" and body["m"] in ("any", "contains"):
                    inner = q.show(body)
                    return ("exclude" if neg else "include"), inner
                if body["k"] == "MethodCall" and body["m"] == "all":
                    return "?", q.show(body)
        return None, None

    # the list a selective import is filtered by is that import's own list (bound by the arm), not a collection that lives
    # across the loop over the file's imports
    for kind in ("Inclusion", "Exclusion"):
        a = arms.get(kind)
        if a is None:
            continue
        own = set(q.pat_bindings(a["pat"]))
        derived = set(own)
        for l_ in q.walk(a["body"]):
            if l_["k"] == "Local" and l_.get("init") is not None and l_["init"]["k"] != "Closure" and q.idents_in(l_["init"]) & derived:
                derived |= set(q.pat_bindings(l_["pat"]))
        for cl in q.walk(a["body"]):
            if cl["k"] != "Closure":
                continue
            for x in q.walk(cl["body"]):
                if x["k"] == "MethodCall" and x["m"] in ("any", "contains", "all"):
                    roots = q.idents_in(x["recv"]) - set(q.pat_bindings(p_) for p_ in [])  # identifiers of the tested collection
                    roots = {i_ for i_ in roots if i_ not in [b for p_ in cl.get("params", []) for b in q.pat_bindings(p_)]}
                    r.ob(bool(roots) and roots <= derived, f"resolve.rs:resolve_imports_file:{kind}:list-outlives-the-import", RES, x["l"],
                         f"`use m.(..)` / `use m except ..` must be filtered by the list written in that import; the predicate tests `{q.show(x['recv'])}`, which is not bound by the {kind} arm ({sorted(roots - derived)} lives outside it): names listed by an earlier import of the same file leak into later ones, so an import hides or shows names it does not mention",
                         sample=f"{kind}: filtered by its own list ({sorted(roots)})")
    if "Inclusion" in arms and "Exclusion" in arms:
        pi, ti = pred_polarity(arms["Inclusion"])
        pe, te = pred_polarity(arms["Exclusion"])
        r.ob(pi == "include", "resolve.rs:resolve_imports_file:Inclusion:predicate-polarity", RES, arms["Inclusion"]["l"], f"`use m.a, b` must import exactly the listed names; predicate is {pi}: {ti}", sample=f"Inclusion: {ti}")
        r.ob(pe == "exclude", "resolve.rs:resolve_imports_file:Exclusion:predicate-polarity", RES, arms["Exclusion"]["l"], f"`use m except a` must import all but the listed names; predicate is {pe}: {te}", sample=f"Exclusion: !{te}")
        r.ob(ti == te, "resolve.rs:resolve_imports_file:predicates-differ", RES, arms["Exclusion"]["l"], f"inclusion and exclusion must test membership the same way: {ti} vs {te}")
        for k in ("Inclusion", "Exclusion"):
            uses = any(x["k"] == "MethodCall" and x["m"] == "add_other_pred" for x in q.walk(arms[k]["body"]))
            r.ob(uses, f"resolve.rs:resolve_imports_file:{k}:not-filtered", RES, arms[k]["l"], f"{k} must add the imported namespace through the filtering add_other_pred")
    # the filter must apply to every kind of child the namespace copies (declarations and child namespaces alike)
    ns_impls = [f for impl in q.find_impls(items, self_ty="Namespace") for f in impl["items"] if f["k"] == "Fn" and f["name"] == "add_other_pred"]
    if not ns_impls:
        r.missing("Namespace::add_other_pred", RES)
    else:
        ap = ns_impls[0]
        pname = next((q.pat_bindings(p["pat"])[0] for p in ap["params"] if not p.get("self") and "Fn" in p.get("ty", "")), "pred")
        copies = 0
        for lp in (x for x in q.walk(ap["body"]) if x["k"] == "For"):
            adds = [y for y in q.walk(lp["body"]) if y["k"] == "MethodCall" and q.show(y["recv"]) == "self" and y["m"].startswith("add_")]
            for y in adds:
                copies += 1
                guarded = any(z["k"] == "If" and q.show(z["c"]).startswith(pname + "(") and any(w is y for w in q.walk(z["t"])) for z in q.walk(lp["body"]))
                what = q.show(lp["e"]).split(".")[-2] if "." in q.show(lp["e"]) else q.show(lp["e"])
                r.ob(guarded, f"resolve.rs:Namespace::add_other_pred:{y['m']}:unfiltered", RES, y["l"],
                     f"add_other_pred copies `{q.show(lp['e'])}` into the importing namespace with {y['m']} without testing the import predicate: a selective import (`use m.a`, `use m except E`) still brings in every {what[:-1] if what.endswith('s') else what} of the imported file",
                     sample=f"add_other_pred: {y['m']} guarded by {pname}(name)")
        r.count("children copied by add_other_pred", copies, 2, RES)
    if "Glob" in arms:
        r.ob(any(x["k"] == "MethodCall" and x["m"] == "add_other" for x in W(arms["Glob"]["body"])), "resolve.rs:resolve_imports_file:Glob", RES, arms["Glob"]["l"], "glob import must add every name")
    if "As" in arms:
        b = arms["As"]["body"]
        r.ob(any(x["k"] == "MethodCall" and x["m"] == "add_namespace" for x in W(b)) and not any(x["k"] == "MethodCall" and x["m"] == "add_other" and q.show(x["recv"]).replace("&mut ", "").strip("()") == "effective_namespace" for x in W(b)),
             "resolve.rs:resolve_imports_file:As", RES, arms["As"]["l"], "`use m as p` must expose the names under the prefix only")


# ----------------------------------------------------------------------------------------- GUARD / PASS-ORDER


@rule("GUARD", ["C04", "C12", "C03"], "passes run in order; the exhaustiveness pass is skipped when earlier passes reported errors; the generator only sees analysed programs")
def guard(ctx, r):
    f = fn_named(ctx, r, EXH, "check_pattern_exhaustiveness_and_usefulness")
    if f is not None:
        st = q.body_stmts(f["body"])
        ok = False
        if st and st[0]["k"] == "ExprStmt" and st[0]["e"]["k"] == "If":
            c = q.show(st[0]["e"]["c"]).replace(" ", "")
            ret = any(x["k"] == "Return" for x in q.walk(st[0]["e"]["t"]))
            ok = ret and "errors.is_empty()" in c and c.startswith("!")
        r.ob(ok, "pat_exhaustiveness.rs:entry:error-guard", EXH, f["l"],
             "check_pattern_exhaustiveness_and_usefulness must return immediately when earlier passes reported errors (the matrix code panics on ill-typed patterns)", sample="exhaustiveness entry: `if !ctx.errors.is_empty() { return }` first")
    a = fn_named(ctx, r, STATICS, "analyze")
    if a is not None:
        order = [n for n, x in calls_in_order(a["body"]) if n in ("scan_declarations", "resolve", "solve_types", "check_pattern_exhaustiveness_and_usefulness", "check_errors")]
        want = ["scan_declarations", "resolve", "solve_types", "check_pattern_exhaustiveness_and_usefulness", "check_errors"]
        r.ob(order == want, "statics.rs:analyze:pass-order", STATICS, a["l"], f"analyze runs {order}; required order {want}", sample=f"analyze: {' -> '.join(order)}")
        tries = [x for x in q.walk(a["body"]) if x["k"] == "Try" and "check_errors" in q.show(x["e"])]
        r.ob(bool(tries), "statics.rs:analyze:errors-not-propagated", STATICS, a["l"], "analyze must propagate check_errors(ctx) with `?`")
    items = ctx.file_items(LIB)
    if items is None:
        r.missing("lib.rs")
        return
    n = 0
    for f, _ in q.iter_items(items):
        if f["k"] != "Fn" or f.get("body") is None:
            continue
        news = [x for x in q.walk(f["body"]) if x["k"] == "Call" and x["f"]["k"] == "Path" and x["f"]["p"] == "Translator::new"]
        if not news:
            continue
        n += 1
        an = [x for x in q.walk(f["body"]) if x["k"] == "Try" and x["e"]["k"] == "Call" and q.show(x["e"]["f"]).endswith("analyze")]
        ok = bool(an) and all(a_["l"] < nw["l"] for a_ in an[:1] for nw in news)
        r.ob(ok, f"lib.rs:{f['name']}:translator-without-analysis", LIB, f["l"], f"{f['name']} constructs the Translator without first running `statics::analyze(..)?`", sample=f"{f['name']}: analyze(..)? dominates Translator::new")
    r.count("entry points constructing the translator", n, 2, LIB)


# ----------------------------------------------------------------------------------------- CALL-SIBLING


@rule("CALL-SIBLING", ["C18"], "every callee form that can name a declaration with parameters pushes its arguments through the checker's reorder table")
def call_sibling(ctx, r):
    f = fn_named(ctx, r, TB, "translate_expr", "Translator")
    if f is None:
        return
    arm = arm_of(f, "ExprKind", "FuncCall")
    if arm is None:
        r.missing("translate_expr:FuncCall", TB)
        return
    n = 0
    for m in q.walk(arm["body"]):
        if m["k"] == "Match" and ".kind" in q.show(m["e"]):
            for a in m["arms"]:
                vs = am.arm_variants(a, "ExprKind")
                if not any(x["k"] == "MethodCall" and x["m"] == "translate_func_call" for x in q.walk(a["body"])):
                    continue
                n += 1
                uses = any(x["k"] == "Field" and x["f"] == "function_call_arg_order" for x in W(a["body"]))
                # the reordered list must actually be what is translated (possibly inside a helper the arm delegates to)
                tables = {b for x in W(a["body"]) for (pat, init) in ([(x["pat"], x["init"])] if x["k"] == "Local" and x.get("init") is not None else ([(x["pat"], x["e"])] if x["k"] == "Let" else [])) if any(y["k"] == "Field" and y["f"] == "function_call_arg_order" for y in q.walk(init)) for b in q.pat_bindings(pat)}
                loops = [x for x in W(a["body"]) if x["k"] == "For" and (q.idents_in(x["e"]) & tables) and any(y["k"] == "MethodCall" and y["m"] == "translate_expr" for y in q.walk(x["body"]))]
                r.ob(uses and bool(loops), f"translate_bytecode.rs:translate_expr:FuncCall:{'|'.join(vs)}:arguments-not-reordered", TB, a["l"],
                     f"callee form {'|'.join(vs)} calls a declared function but pushes its arguments in source order, ignoring function_call_arg_order: named and default arguments are wrong for this form",
                     sample=f"FuncCall {'|'.join(vs)}: arguments taken from function_call_arg_order")
            break
    r.count("callee forms naming a declaration", n, 3, TB)
    # the frame analyses walk the same argument list the generator compiles (defaults are spliced in by the checker)
    items_tb = ctx.file_items(TB)
    for name in ("collect_locals_expr", "collect_captures_expr"):
        g = q.find_fn(items_tb, name, impl_ty="Translator") if items_tb else None
        a = arm_of(g, "ExprKind", "FuncCall") if g else None
        if a is None:
            r.missing(f"{name}:FuncCall", TB)
            continue
        uses = any(x["k"] == "Field" and x["f"] == "function_call_arg_order" for x in q.walk(a["body"]))
        loops = [x for x in q.walk(a["body"]) if x["k"] == "For" and "reordered" in q.show(x["e"]) and any(y["k"] == "MethodCall" and y["m"] == name for y in q.walk(x["body"]))]
        r.ob(uses and bool(loops), f"translate_bytecode.rs:{name}:FuncCall:written-arguments-only", TB, a["l"],
             f"{name} walks only the arguments written at the call; the generator compiles function_call_arg_order, which also contains default-value expressions, so locals (or captures) inside a default value have no slot in the calling frame",
             sample=f"{name}: FuncCall arguments from function_call_arg_order")
    # the checker computes the order for each of them
    items = ctx.file_items(TC)
    cnt = sum(1 for x in q.walk({"k": "X", "items": []}) if False)
    calls = 0
    for ff, _ in q.iter_items(items or []):
        if ff["k"] == "Fn" and ff.get("body") is not None:
            calls += sum(1 for x in q.walk(ff["body"]) if x["k"] == "Call" and x["f"]["k"] == "Path" and q.last_seg(x["f"]["p"]) == "calculate_func_call_order")
    r.count("checker call sites of calculate_func_call_order", calls, 3, TC)


def _scrutinee_base(m):
    """`match &*expr.kind {..}` -> 'expr'."""
    e = m["e"]
    while e["k"] in ("Ref", "Unary", "Paren"):
        e = e["e"]
    if e["k"] == "Field" and e["f"] == "kind":
        b = e["e"]
        while b["k"] in ("Ref", "Unary", "Paren"):
            b = b["e"]
        if b["k"] == "Path":
            return b["p"]
    return None


def _key_base(k):
    """`&expr.id`, `expr.id`, `&expr.node().id()`, `expr.id()` -> 'expr'."""
    while k["k"] in ("Ref", "Unary", "Paren"):
        k = k["e"]
    if k["k"] == "Field" and k["f"] == "id":
        k = k["e"]
    elif k["k"] == "MethodCall" and k["m"] == "id" and not k["args"]:
        k = k["recv"]
    else:
        return None
    while k["k"] == "MethodCall" and k["m"] in ("node", "clone") and not k["args"]:
        k = k["recv"]
    return k["p"] if k["k"] == "Path" else None


@rule("CALL-KEY", ["C18"], "the reorder table is written and read under the id of the call expression itself: every lookup in a call arm uses the node whose kind was matched as the call")
def call_key(ctx, r):
    n_lookup = 0
    n_insert = 0
    handed = []
    for file in (TB, TC):
        items = ctx.file_items(file)
        if items is None:
            r.missing(file)
            continue
        short = file.split("/")[-1]
        for f, _ in q.iter_items(items):
            if f["k"] != "Fn" or f.get("body") is None:
                continue
            params = [b for p in f["params"] if not p.get("self") for b in q.pat_bindings(p["pat"])]
            # lookups / writers and the innermost principal match arm for ExprKind::FuncCall around them
            arms = []
            for m in q.walk(f["body"]):
                if m["k"] == "Match":
                    base = _scrutinee_base(m)
                    for a in m["arms"]:
                        if "FuncCall" in [q.last_seg(h) for h in q.pat_heads(a["pat"])] and base:
                            arms.append((base, a))
            for x in q.walk(f["body"]):
                is_lookup = x["k"] == "MethodCall" and x["m"] in ("get", "contains_key", "remove", "get_mut") and q.show(x["recv"]).endswith("function_call_arg_order") and x["args"]
                is_index = x["k"] == "Index" and q.show(x["e"]).endswith("function_call_arg_order")
                is_writer = x["k"] == "Call" and x["f"]["k"] == "Path" and q.last_seg(x["f"]["p"]) == "calculate_func_call_order" and len(x["args"]) >= 4
                if not (is_lookup or is_index or is_writer):
                    continue
                keyexpr = x["args"][0] if is_lookup else (x["i"] if is_index else x["args"][3])
                kb = _key_base(keyexpr) if not is_writer else _key_base({"k": "MethodCall", "m": "id", "args": [], "recv": keyexpr})
                if kb is None:
                    # the id itself handed down as a parameter (`call_id: NodeId`)
                    k0 = keyexpr
                    while k0["k"] in ("Ref", "Unary", "Paren"):
                        k0 = k0["e"]
                    if k0["k"] == "Path" and k0["p"] in params:
                        kb = k0["p"]
                inner = [(b, a) for b, a in arms if any(y is x for y in q.walk(a["body"]))]
                where = f"{short}:{f['name']}"
                if is_writer:
                    n_insert += 1
                else:
                    n_lookup += 1
                what = "calculate_func_call_order" if is_writer else "function_call_arg_order"
                if inner:
                    base = inner[-1][0]
                    r.ob(kb == base, f"{where}:{what}:key-is-not-the-call-expression", file, x["l"],
                         f"{f['name']}: the reorder table is keyed by the id of the call expression (`{base}`, whose kind was matched as FuncCall), but this site uses `{q.show(keyexpr)}`: the lookup misses (or the entry is filed under another node) and arguments silently fall back to written order",
                         sample=f"{f['name']}: {what} keyed by `{q.show(keyexpr)}`")
                else:
                    # outside a call arm: the key must be a parameter handed down by the caller (the call node), used for both writing and reading
                    r.ob(kb in params, f"{where}:{what}:key-is-not-the-call-expression", file, x["l"],
                         f"{f['name']}: reorder-table key `{q.show(keyexpr)}` is neither the matched call expression nor a node handed down by the caller",
                         sample=f"{f['name']}: {what} keyed by parameter `{kb}`")
                    if kb in params and not is_writer:
                        handed.append((file, f["name"], params.index(kb)))
    # a helper that reads the table under a parameter: every call arm that delegates to it hands over the matched call expression
    for file, hname, idx in handed:
        items = ctx.file_items(file)
        for g, _ in q.iter_items(items):
            if g["k"] != "Fn" or g.get("body") is None:
                continue
            for m in q.walk(g["body"]):
                if m["k"] != "Match":
                    continue
                base = _scrutinee_base(m)
                for a in m["arms"]:
                    if "FuncCall" not in [q.last_seg(h) for h in q.pat_heads(a["pat"])] or not base:
                        continue
                    for c in q.walk(a["body"]):
                        is_m = c["k"] == "MethodCall" and c["m"] == hname
                        is_f = c["k"] == "Call" and c["f"]["k"] == "Path" and q.last_seg(c["f"]["p"]) == hname
                        if (is_m or is_f) and len(c["args"]) > idx:
                            got = q.show(c["args"][idx]).lstrip("&").replace(".clone()", "")
                            got = _key_base(c["args"][idx]) or got  # the node, or its id
                            a0 = q.strip_refs(c["args"][idx])
                            while a0["k"] == "MethodCall" and a0["m"] in ("node", "clone") and not a0["args"]:
                                a0 = q.strip_refs(a0["recv"])
                            if a0["k"] == "Path":
                                got = a0["p"]
                            r.ob(got == base, f"{file.split('/')[-1]}:{g['name']}:{hname}:call-expression-not-handed-over", file, c["l"],
                                 f"{g['name']}: `{hname}` reads the reorder table under its parameter #{idx}; this call passes `{got}`, not the call expression `{base}`",
                                 sample=f"{g['name']}: {hname}({base}, ..)")
    r.count("reorder-table lookups", n_lookup, 5, TB)
    r.count("reorder-table writers", n_insert, 3, TC)


@rule("ARG-MISUSE", ["C18", "C04"], "every class of argument misuse has a diagnostic exit, and the reorder step never panics on a user-supplied name")
def arg_misuse(ctx, r):
    items = ctx.file_items(RES)
    if items is None:
        r.missing("resolve.rs")
        return
    f = q.find_fn(items, "calculate_func_call_order")
    # the reorder step: the function of this file that the entry point calls and that looks argument names up in the parameter index
    g = None
    if f is not None:
        for c in q.walk(f["body"]):
            if c["k"] == "Call" and c["f"]["k"] == "Path":
                cand = q.find_fn(items, q.last_seg(c["f"]["p"]))
                if cand is not None and cand.get("body") is not None and cand is not f and any(x["k"] == "MethodCall" and x["m"] in ("try_get_id", "get_id") for x in q.walk(cand["body"])):
                    g = cand
    if f is None or g is None:
        r.missing("calculate_func_call_order / its reorder step", RES)
        return

    def pushes_error(node):
        return any(x["k"] == "MethodCall" and x["m"] == "push" and q.show(x["recv"]).endswith(".errors") for x in q.walk(node))

    # the per-argument loop
    loops = [x for x in q.walk(f["body"]) if x["k"] == "For" and "args" in q.show(x["e"])]
    if not loops:
        r.missing("calculate_func_call_order:argument-loop", RES)
        return
    lp = loops[0]
    top_if = next((x for x in q.body_stmts(lp["body"]) if x["k"] == "ExprStmt" and x["e"]["k"] == "If"), None)
    named_branch = top_if["e"]["t"] if top_if else None
    pos_branch = top_if["e"]["e"] if top_if else None
    ok = named_branch is not None and any(x["k"] == "Call" and q.last_seg(q.show(x["f"])) in ("resolve_identifier", "resolve_symbol") for x in q.walk(named_branch))
    r.ob(ok, "resolve.rs:calculate_func_call_order:unknown-name", RES, f["l"], "a named argument must be resolved against the callee's parameters (unknown names are reported by that lookup)", sample="named argument: resolved against the parameter table")
    dup = named_branch is not None and any(x["k"] == "If" and "contains" in q.show(x["c"]) and pushes_error(x["t"]) for x in q.walk(named_branch))
    r.ob(dup, "resolve.rs:calculate_func_call_order:duplicate-name", RES, f["l"], "a named argument given twice must be reported", sample="duplicate named argument: diagnostic")
    # positional branch: after-named, in-range, surplus
    chain = []
    e = pos_branch
    if e is not None and e["k"] == "Block" and len(e["stmts"]) == 1 and e["stmts"][0]["k"] == "ExprStmt":
        e = e["stmts"][0]["e"]
    while e is not None and e["k"] == "If":
        chain.append((q.show(e["c"]), pushes_error(e["t"])))
        e = e.get("e")
    final_else = e
    after_named = any("named_encountered" in c and err for c, err in chain)
    r.ob(after_named, "resolve.rs:calculate_func_call_order:positional-after-named", RES, f["l"], "a positional argument after a named one must be reported", sample="positional after named: diagnostic")
    surplus = final_else is not None and pushes_error(final_else)
    r.ob(surplus, "resolve.rs:calculate_func_call_order:surplus-argument-dropped", RES, f["l"],
         "a positional argument beyond the callee's parameters falls through without a diagnostic; calculate_named_arg_order then drops it silently (`g(1, 2)` for a one-parameter function is accepted)",
         sample="surplus positional argument: diagnostic")
    # the order is recorded exactly when nothing is missing, and the other case is reported (whatever the control-flow spelling)
    missing = False
    ins = [x for x in q.walk(f["body"]) if x["k"] == "MethodCall" and x["m"] == "insert" and q.show(x["recv"]).endswith("function_call_arg_order")]
    for i_ in ins:
        at = [(q.show(c_).replace(" ", ""), pol) for c_, pol in q.cond_atoms(q.path_conds(f["body"], i_) or []) if "missing" in q.show(c_)]
        for e_ in q.walk(f["body"]):
            if e_["k"] == "MethodCall" and e_["m"] == "push" and q.show(e_["recv"]).endswith(".errors"):
                ea = [(q.show(c_).replace(" ", ""), pol) for c_, pol in q.cond_atoms(q.path_conds(f["body"], e_) or [])]
                if any((c_, not pol) in ea for c_, pol in at):
                    missing = True
    r.ob(missing, "resolve.rs:calculate_func_call_order:missing-required", RES, f["l"], "missing required arguments must be reported and the call order not computed", sample="missing required argument: diagnostic, early return")
    # a callee without a recorded parameter list (a function value, an interface method): any named argument is refused, and the
    # test looks at every argument, not at one position
    argp = next((b for p_ in f["params"] if not p_.get("self") and "FuncCallArg" in p_.get("ty", "") for b in q.pat_bindings(p_["pat"])), "args")
    locs = {b: l_["init"] for l_ in q.walk(f["body"]) if l_["k"] == "Local" and l_.get("init") is not None for b in q.pat_bindings(l_["pat"])}
    nodef = [x for x in q.walk(f["body"]) if x["k"] == "If" and pushes_error(x["t"]) and any(y["k"] == "MethodCall" and y["m"] == "is_none" for y in q.walk(x["c"]))]
    if not nodef:
        r.missing("calculate_func_call_order:named-arguments-without-definition", RES)
    else:
        c0 = nodef[0]["c"]
        parts = [c_ for c_, pol in q.cond_atoms([(c0, True)]) if pol]
        uses = []
        for c_ in parts:
            e_ = locs.get(c_["p"], c_) if c_["k"] == "Path" else c_
            if any(y["k"] == "Field" and y["f"] == "name" for y in q.walk(e_)) or "name" in q.show(e_):
                uses.append(e_)
        every = bool(uses) and all(any(y["k"] == "MethodCall" and y["m"] == "any" and argp in q.idents_in(y["recv"]) for y in q.walk(e_)) for e_ in uses)
        r.ob(every, "resolve.rs:calculate_func_call_order:named-argument-test-not-over-all-arguments", RES, nodef[0]["l"],
             f"calculate_func_call_order: named arguments must be refused for a callee without a recorded parameter list whenever *any* argument is named; the test is `{[q.show(e_)[:80] for e_ in uses]}`: `sub(b = 1, 10)` on a function value passes it (the positional-after-named check only runs when a definition exists), the names are ignored and the values are passed in written order",
             sample="no definition: any named argument is refused")
    # the reorder step: the slot of a named argument comes from a non-panicking lookup of its name; positional -> its position; defaults fill only empty slots; read out in slot order
    panicking = [x for x in q.walk(g["body"]) if x["k"] == "MethodCall" and x["m"] == "get_id" and "name" in q.show(x["args"][0])]
    r.ob(not panicking, "resolve.rs:calculate_named_arg_order:panicking-name-lookup", RES, g["l"],
         "calculate_named_arg_order looks a user-supplied argument name up with IdSet::get_id, which panics for a name the callee does not have (`f(b=2)` when every parameter of f has a default)",
         sample="named argument slot: try_get_id(name)")
    looks = any(x["k"] == "MethodCall" and x["m"] in ("try_get_id", "get_id") and "name" in q.show(x["args"][0]) for x in q.walk(g["body"]))
    r.ob(looks, "resolve.rs:calculate_named_arg_order:slot-of-named", RES, g["l"], "the slot of a named argument must come from the lookup of its name in the parameter index")
    dflt = [x for x in q.walk(g["body"]) if x["k"] == "For" and "default_args" in q.show(x["e"])]
    only_empty = bool(dflt) and any(x["k"] == "If" and "is_none()" in q.show(x["c"]) and any(y["k"] == "Assign" for y in q.walk(x["t"])) for x in q.walk(dflt[0]["body"]))
    r.ob(only_empty, "resolve.rs:calculate_named_arg_order:default-overwrites", RES, g["l"], "a default value may only fill a slot that is still empty", sample="defaults fill empty slots only")
    # the slot table has one slot per parameter the callee *declares*; positions come from the caller and from the default table: every subscript is bounds-tested
    for x in q.walk(g["body"]):
        if x["k"] == "Index" and q.show(x["e"]) == "reordered_args" and x["i"]["k"] != "Lit":
            idx = q.show(x["i"]).lstrip("*")
            guarded = any(c["k"] == "If" and any(y is x for y in q.walk(c["t"])) and f"{idx}<reordered_args.len()" in q.show(c["c"]).replace(" ", "").replace("*", "") for c in q.walk(g["body"]))
            r.ob(guarded, f"resolve.rs:calculate_named_arg_order:reordered_args[{idx}]:unchecked-slot", RES, x["l"],
                 f"`reordered_args[{q.show(x['i'])}]` is not bounds-tested: the table is sized from the callee's parameter count while `{idx}` comes from the call or from the default-value table (`fn f(a, a, b = 3)`; `f(1, 2)` indexed past the end)",
                 sample=f"reordered_args[{idx}] under `{idx} < reordered_args.len()`")
    nargs_src = [x for x in q.walk(q.find_fn(items, "update_function_arg_info")["body"]) if x["k"] == "Local" and q.pat_bindings(x["pat"]) == ["nargs"]] if q.find_fn(items, "update_function_arg_info") else []
    r.ob(bool(nargs_src) and ".len()" in q.show(nargs_src[0]["init"]) and "required_args" not in q.show(nargs_src[0]["init"]), "resolve.rs:update_function_arg_info:nargs-from-distinct-names", RES, nargs_src[0]["l"] if nargs_src else g["l"],
         "the number of argument slots must be the number of declared parameters, not a count of distinct names (two parameters may share a name)", sample="nargs = number of declared parameters")
    # a positional argument marks its parameter as supplied, whether or not that parameter is required
    seen_ins = [x for x in q.walk(f["body"]) if x["k"] == "MethodCall" and x["m"] == "insert" and q.show(x["recv"]) == "seen_named_args"]
    for x in seen_ins:
        gates = [c for c in q.walk(f["body"]) if c["k"] == "If" and any(y is x for y in q.walk(c["t"])) and ("missing" in q.show(c["c"]) or "required" in q.show(c["c"]))]
        r.ob(not gates, "resolve.rs:calculate_func_call_order:supplied-parameter-recorded-conditionally", RES, x["l"],
             f"`{q.show(x)[:60]}` happens only under `{q.show(gates[0]['c'])[:70] if gates else ''}`: a parameter with a default is not in the set of required names, so a positional argument for it goes unrecorded and naming it again (`f(1, 2, b = 7)`) is accepted, the later value silently winning",
             sample="every supplied parameter is recorded as seen")
    r.count("sites recording a supplied parameter", len(seen_ins), 2, RES)
    flat = any(x["k"] == "MethodCall" and x["m"] == "flatten" for x in q.walk(g["body"]))
    r.ob(flat, "resolve.rs:calculate_named_arg_order:slot-order", RES, g["l"], "the result must be read out in slot (declaration) order")


# ----------------------------------------------------------------------------------------- TYPED-FALLBACK


def constraint_kinds(ctx, r):
    """operator -> 'iface' | 'concrete' from the type checker's BinOp / Unop / Assign arms."""
    items = ctx.file_items(TC)
    ge = q.find_fn(items, "generate_constraints_expr") if items else None
    gs = q.find_fn(items, "generate_constraints_stmt") if items else None
    out = {}
    if ge is None or gs is None:
        r.missing("generate_constraints_expr/stmt", TC)
        return out

    def classify(body):
        if any(x["k"] == "Call" and x["f"]["k"] == "Path" and q.last_seg(x["f"]["p"]) == "constrain_to_iface" for x in q.walk(body)):
            return "iface"
        return "concrete"

    for enum, fn, variant, opname in (("ExprKind", ge, "BinOp", "BinaryOperator"), ("ExprKind", ge, "Unop", "PrefixOp"), ("StmtKind", gs, "Assign", "AssignOperator")):
        arm = arm_of(fn, enum, variant)
        if arm is None:
            r.missing(f"typecheck:{variant}", TC)
            continue
        for m in q.walk(arm["body"]):
            if m["k"] != "Match":
                continue
            heads = [h for a in m["arms"] for h in q.pat_heads(a["pat"])]
            if not any(h.startswith(opname + "::") for h in heads):
                continue
            for a in m["arms"]:
                for h in q.pat_heads(a["pat"]):
                    if h.startswith(opname + "::"):
                        k = (opname, q.last_seg(h))
                        c = classify(a["body"])
                        out[k] = "iface" if "iface" in (c, out.get(k)) else "concrete"
    return out


@rule("TYPED-FALLBACK", ["C03"], "where the checker constrains an operand only to an interface, the generator's dispatch on the solved type ends in interface dispatch, not in a panic")
def typed_fallback(ctx, r):
    kinds = constraint_kinds(ctx, r)
    r.count("operators classified from the checker", len(kinds), 20, TC)
    bt = binop_tables(ctx, r)
    at = assign_tables(ctx, r)
    if bt is None or at is None:
        return
    ops, short, pre, order, _, binarm, unarm = bt
    per_op, forms = at
    n = 0
    for (opname, op), kind in sorted(kinds.items()):
        if kind != "iface":
            continue
        if opname == "BinaryOperator":
            ent = ops.get(op)
            if ent is None:
                continue
            fb = ent["types"].get("_")
            where, line = f"translate_expr:BinOp:{op}", binarm["l"]
        elif opname == "PrefixOp":
            fb = (pre.get(op) or {}).get("_")
            where, line = f"translate_expr:Unop:{op}", unarm["l"]
        else:
            fb = (per_op.get(op) or {}).get("_")
            where, line = f"translate_stmt:Assign:{op}", 0
        if fb is None:
            continue
        n += 1
        diverges = any(a[0] == "X" for a in fb)
        r.ob(not diverges, f"translate_bytecode.rs:{where}:fallback-panics", TB, line,
             f"{where}: the checker accepts any operand type implementing the operator's interface, but for a type other than the inlined primitives the generator runs `{[a[1] for a in fb if a[0] == 'X']}` instead of calling the interface method",
             sample=f"{where}: non-primitive operands dispatch to {[a[1] for a in fb if a[0] in ('H', 'C')] or 'a call'}")
    r.count("interface-constrained operators with a type dispatch", n, 10, TB)
    # compound assignment: every left-hand form either applies the operator or the checker rejects it
    idx = forms.get("IndexAccess", [])
    if any(a[0] == "X" for a in idx):
        # the generator cannot handle a user Index: the checker must reject it
        items = ctx.file_items(TC)
        gs = q.find_fn(items, "generate_constraints_stmt")
        arm = arm_of(gs, "StmtKind", "Assign")
        rejects = False
        for x in q.walk(arm["body"]):
            if x["k"] == "If" and "AssignOperator::Equal" in q.show(x["c"]) and "IndexAccess" in q.show(x["c"]) and any(y["k"] == "MethodCall" and y["m"] == "push" and q.show(y["recv"]).endswith(".errors") for y in q.walk(x["t"])):
                rejects = True
        r.ob(rejects, "translate_bytecode.rs:translate_stmt:Assign:compound:IndexAccess:user-index-panics", TB, 0,
             "compound assignment through a user-defined Index reaches `unimplemented!()` in the generator and the checker does not reject it",
             sample="compound assignment through a user Index is rejected by the checker")


# ----------------------------------------------------------------------------------------- EPILOGUE


@rule("EPILOGUE", ["C01", "C23"], "function epilogues choose ReturnVoid vs Return(n) from the return type, never from the argument count")
def epilogue(ctx, r):
    items = ctx.file_items(TB)
    if items is None:
        r.missing("translate_bytecode.rs")
        return
    n = 0
    for f in q.find_fns(items, impl_ty="Translator"):
        rets = [x for x in q.walk(f["body"]) if x["k"] == "Path" and x["p"] == "Instr::ReturnVoid"]
        if not rets:
            continue
        # the `if` that selects ReturnVoid
        for x in q.walk(f["body"]):
            if x["k"] == "If" and any(y["k"] == "Path" and y["p"] == "Instr::ReturnVoid" for y in q.walk(x["t"])) and x.get("e") is not None and any(y["k"] == "Path" and y["p"] == "Instr::Return" for y in q.walk(x["e"])):
                n += 1
                cond = q.show(x["c"])
                ids = q.idents_in(x["c"])
                by_type = ("Void" in cond) or any("void" in i.lower() for i in ids)
                by_count = any(i in ("nargs", "args") or "len" in cond for i in ids) and not by_type
                r.ob(by_type and not by_count, f"translate_bytecode.rs:{f['name']}:epilogue-selected-by-{'argument-count' if not by_type else 'type'}", TB, x["l"],
                     f"{f['name']} selects ReturnVoid with `{cond}`: a void function with arguments (or a non-void one without) leaves the operand stack off by one in its caller",
                     sample=f"{f['name']}: ReturnVoid iff `{cond}`")
                # where the function is compiled per instance of a generic declaration, the type tested is the instance's
                if any("FuncDesc" in p.get("ty", "") for p in f["params"] if not p.get("self")):
                    seen, work, via_instance = set(), list(ids), False
                    while work:
                        v = work.pop()
                        if v in seen:
                            continue
                        seen.add(v)
                        for loc in q.walk(f["body"]):
                            if loc["k"] == "Local" and loc.get("init") is not None and v in q.pat_bindings(loc["pat"]):
                                txt = q.show(loc["init"])
                                if "overload_ty" in txt:
                                    via_instance = True
                                work.extend(q.idents_in(loc["init"]))
                    r.ob(via_instance, f"translate_bytecode.rs:{f['name']}:epilogue-tests-declared-type", TB, x["l"],
                         f"{f['name']} compiles one body per instantiation but chooses ReturnVoid from the declared result type: `fn get(x: array<T>) -> T` instantiated with T = void ends in `return n` and its caller loses a value from its operand stack",
                         sample=f"{f['name']}: result type of the instance (overload_ty) decides the epilogue")
    r.count("epilogue emitters", n, 2, TB)
    # the return context agrees with the epilogue: a body kind that ends in Stop (a thread's top level) must not
    # give `return` statements a frame to return from, and a kind that ends in Return/ReturnVoid must
    tb = q.find_fn(items, "translate_func_body_helper", impl_ty="Translator")
    ast_items = ctx.file_items(TB)
    fk = q.find_enum(ast_items, "FuncKind")
    if tb is not None:
        # helpers of this file that emit part of the body's frame code (an extracted epilogue) are read in place
        from lib.inline import materialize, emits_code

        tb = dict(tb)
        tb["body"] = materialize(tb["body"], closures_only=False, pred=lambda inl: inl.get("callee") not in ("translate_expr", "translate_stmt", "emit", "get_ty") and any(y["k"] == "Path" and y.get("p") in ("Instr::Return", "Instr::ReturnVoid", "Instr::Stop") for y in q.walk(inl["body"])))
    if tb is None or fk is None:
        r.missing("translate_func_body_helper / enum FuncKind", TB)
    else:
        kinds = {v["name"] for v in fk["variants"]}

        # boolean locals that stand for a set of kinds: `let is_task = matches!(desc.kind, FuncKind::TaskBlock { .. })`
        flags = {}
        for l in q.walk(tb["body"]):
            if l["k"] == "Local" and l.get("init") is not None and l["init"]["k"] == "Macro" and l["init"].get("name") == "matches" and "kind" in q.show(l["init"]) and l["init"].get("pat") is not None:
                hs = {q.last_seg(h) for h in q.pat_heads(l["init"]["pat"])}
                for b in q.pat_bindings(l["pat"]):
                    flags[b] = hs & kinds
            # the same flag computed by a match on the kind with boolean arms
            if l["k"] == "Local" and l.get("init") is not None and l["init"]["k"] == "Match" and "kind" in q.show(l["init"]["e"]):
                arms_ = l["init"]["arms"]
                if all(q.show(a_["body"]).strip("{} ") in ("true", "false") or (a_["body"]["k"] == "Lit" and a_["body"].get("t") == "bool") for a_ in arms_):
                    yes = set()
                    for a_ in arms_:
                        val = a_["body"]["v"] if a_["body"]["k"] == "Lit" else q.show(a_["body"]).strip("{} ")
                        hs_ = {q.last_seg(h) for h in q.pat_heads(a_["pat"])}
                        if str(val) == "true":
                            yes |= (kinds if "_" in hs_ else hs_ & kinds)
                    for b in q.pat_bindings(l["pat"]):
                        flags[b] = yes

        def cond_kinds(c):
            """Kinds for which a condition over kind flags holds, or None if it is not such a condition."""
            while c["k"] == "Paren":
                c = c["e"]
            if c["k"] == "Path" and c["p"] in flags:
                return set(flags[c["p"]])
            if c["k"] == "Unary" and c.get("op") in ("!", "Not"):
                inner = cond_kinds(c["e"])
                return None if inner is None else kinds - inner
            if c["k"] == "Macro" and c.get("name") == "matches" and "kind" in q.show(c) and c.get("pat") is not None:
                return {q.last_seg(h) for h in q.pat_heads(c["pat"])} & kinds
            return None

        def kinds_of(node):
            """FuncKind variants under which `node` executes (all, unless inside arms of a match on the kind or an `if` on a kind flag)."""
            ks = set(kinds)
            for m in q.walk(tb["body"]):
                if m["k"] == "Match" and "kind" in q.show(m["e"]):
                    for a in m["arms"]:
                        if any(y is node for y in q.walk(a["body"])):
                            hs = {q.last_seg(h) for h in q.pat_heads(a["pat"])}
                            ks &= (kinds if "_" in hs else hs & kinds)
            # tests of kind flags on the way to the node: enclosing ifs, and earlier `if flag { ..; return }` guards
            for c_, pol in q.path_conds(tb["body"], node) or []:
                ck = cond_kinds(c_)
                if ck is not None:
                    ks &= ck if pol else kinds - ck
            return ks

        pushing, stop_k, ret_k = set(), set(), set()
        for x in q.walk(tb["body"]):
            if x["k"] == "MethodCall" and x["m"] == "push" and q.show(x["recv"]).endswith("return_stack"):
                pushing |= kinds_of(x)
            if x["k"] == "Path" and x["p"] == "Instr::Stop":
                stop_k |= kinds_of(x)
            if x["k"] == "Path" and x["p"] in ("Instr::Return", "Instr::ReturnVoid"):
                ret_k |= kinds_of(x)
        pushed_vals = sorted({q.show(x["args"][0]).replace(" ", "") for x in q.walk(tb["body"]) if x["k"] == "MethodCall" and x["m"] == "push" and q.show(x["recv"]).endswith("return_stack") and x["args"]})
        ret_vals = sorted({q.show(x["args"][0]).replace(" ", "") for x in q.walk(tb["body"]) if x["k"] == "Call" and q.show(x["f"]) == "Instr::Return" and x["args"]})
        r.ob(pushed_vals == ret_vals and len(ret_vals) == 1, "translate_bytecode.rs:translate_func_body_helper:early-return-count-differs-from-epilogue", TB, tb["l"],
             f"`return` statements and failing `?` return with the count recorded in the return context ({pushed_vals}), the end of the body with {ret_vals}: both must be the number of stack slots the arguments occupy. A count that includes void parameters makes an early exit write its result into the caller's frame",
             sample=f"return context and epilogue both use {ret_vals}")
        r.ob(not (pushing & stop_k) and ret_k <= pushing and bool(stop_k) and bool(ret_k), "translate_bytecode.rs:translate_func_body_helper:return-context-disagrees-with-epilogue", TB, tb["l"],
             f"bodies of kind {sorted(stop_k)} end in Stop (they run as a thread's top level, with no call frame) and bodies of kind {sorted(ret_k)} end in Return; the return context is pushed for {sorted(pushing)}. A kind that ends in Stop but has a return context compiles `return` inside it to ReturnVoid, which pops a call frame that does not exist (internal fault); a kind that returns but has none compiles `return` to Stop",
             sample=f"return context pushed exactly for {sorted(pushing)}; Stop for {sorted(stop_k)}")
    # every caller of wrapper_footer passes a void test derived from the callee's return type
    foot = q.find_fn(items, "wrapper_footer", impl_ty="Translator")
    if foot is None:
        r.missing("wrapper_footer", TB)
        return
    params = [q.pat_bindings(p["pat"])[0] for p in foot["params"] if not p.get("self")]
    vidx = next((i for i, p in enumerate(params) if "void" in p.lower()), None)
    r.ob(vidx is not None, "translate_bytecode.rs:wrapper_footer:no-void-parameter", TB, foot["l"], f"wrapper_footer{params} has no parameter carrying the callee's return type")
    if vidx is None:
        return
    callers = 0
    for f in q.find_fns(items, impl_ty="Translator"):
        for x in q.walk(f["body"]):
            if x["k"] == "MethodCall" and x["m"] == "wrapper_footer":
                callers += 1
                arg = x["args"][vidx]
                # trace the argument to a local whose initialiser mentions the return type
                src = q.show(arg)
                for loc in q.walk(f["body"]):
                    if loc["k"] == "Local" and loc.get("init") is not None and q.show(arg) in q.pat_bindings(loc["pat"]):
                        src = q.show(loc["init"])
                ok = "Void" in src and ("ret_ty" in src or "ret_type" in src)
                r.ob(ok, f"translate_bytecode.rs:{f['name']}:wrapper-void-flag", TB, x["l"], f"{f['name']} passes `{src}` as the void flag of wrapper_footer; it must be a test of the callee's return type", sample=f"{f['name']}: void flag = {src[:70]}")
    r.count("wrapper epilogues", callers, 3, TB)


# ----------------------------------------------------------------------------------------- TYPE-TOTAL / LIT-CANON


@rule("TYPE-TOTAL", ["C04", "C12"], "type-indexed tables of the exhaustiveness pass are total over the types a scrutinee can have")
def type_total(ctx, r):
    items = ctx.file_items(EXH)
    tci = ctx.file_items(TC)
    if items is None or tci is None:
        r.missing("pat_exhaustiveness.rs")
        return
    st = q.find_enum(tci, "SolvedType")
    if st is None:
        r.missing("typecheck.rs:enum SolvedType", TC)
        return
    variants = [v["name"] for v in st["variants"]]
    n = 0
    for fname in ("ctors_for_ty", "field_tys"):
        f = next((x for x in q.find_fns(items, fname)), None)
        if f is None:
            r.missing(fname, EXH)
            continue
        for m in q.walk(f["body"]):
            if m["k"] != "Match":
                continue
            heads = [h for a in m["arms"] for h in q.pat_heads(a["pat"])]
            if not any(h.startswith("Type::") for h in heads):
                continue
            for a in m["arms"]:
                for h in q.pat_heads(a["pat"]):
                    if not h.startswith("Type::"):
                        continue
                    n += 1
                    v = q.last_seg(h)
                    div = q.only_diverges(a["body"])
                    # only Poly-free elimination happens before this pass: every solved type can reach it
                    r.ob(not div, f"pat_exhaustiveness.rs:{fname}:Type::{v}:diverges", EXH, a["l"],
                         f"{fname}: a scrutinee of type {v} makes the exhaustiveness pass panic; such a match type-checks (e.g. `match panic(\"x\") {{ _ -> 1 }}` has a scrutinee of type never)",
                         sample=f"{fname}: Type::{v} handled")
            break
    r.count("type-indexed arms", n, 20, EXH)


@rule("LIT-CANON", ["C13"], "literal pattern constructors are compared by value: the payload of a float constructor is derived from a numeric parse of the spelling")
def lit_canon(ctx, r):
    items = ctx.file_items(EXH)
    if items is None:
        r.missing("pat_exhaustiveness.rs")
        return
    f = q.find_fn(items, "from_ast_pat")
    if f is None:
        r.missing("from_ast_pat", EXH)
        return
    n = 0
    for kind in ("Float", "Int", "Str", "Bool"):
        arm = arm_of(f, "PatKind", kind)
        if arm is None:
            r.missing(f"from_ast_pat:{kind}", EXH)
            continue
        n += 1
        ctor = {"Str": "String"}.get(kind, kind)
        cons = [x for x in q.walk(arm["body"]) if x["k"] == "Call" and x["f"]["k"] == "Path" and x["f"]["p"] == f"Constructor::{ctor}"]
        if not cons:
            r.find(f"pat_exhaustiveness.rs:from_ast_pat:{kind}:constructor", EXH, arm["l"], f"PatKind::{kind} does not build Constructor::{ctor}")
            continue
        if kind == "Float":
            arg = cons[0]["args"][0]
            parsed = any(x["k"] == "MethodCall" and x["m"] == "parse" and "f64" in (x.get("turbofish") or "") for x in q.walk(arg))
            r.ob(parsed, "pat_exhaustiveness.rs:from_ast_pat:Float:compared-by-spelling", EXH, arm["l"],
                 f"Constructor::Float is built from `{q.show(arg)}`: the spelling itself, so `1.0` and `1.00` are different constructors although the generated code compares parsed values",
                 sample="Constructor::Float payload goes through parse::<f64>()")
        else:
            r.ob(True, "", EXH, arm["l"], "", sample=f"Constructor::{ctor}: payload is the decoded value")
    # is_covered_by compares same-kind payloads with ==
    g = q.find_fn(items, "is_covered_by")
    if g is None:
        r.missing("is_covered_by", EXH)
    else:
        for m in q.walk(g["body"]):
            if m["k"] == "Match":
                for a in m["arms"]:
                    if a["pat"]["k"] == "PTuple" and len(a["pat"]["elems"]) == 2:
                        l, rr = a["pat"]["elems"]
                        hl, hr = q.pat_heads(l), q.pat_heads(rr)
                        if hl == hr and hl[0].startswith("Constructor::") and l["k"] == "PTupleStruct" and q.last_seg(hl[0]) in ("Int", "Float", "String", "Bool"):
                            b = a["body"]
                            ok = b["k"] == "Binary" and b["op"] == "==" and {q.show(b["a"]), q.show(b["b"])} == set(q.pat_bindings(l) + q.pat_bindings(rr))
                            r.ob(ok, f"pat_exhaustiveness.rs:is_covered_by:{q.last_seg(hl[0])}", EXH, a["l"], f"same-kind literal constructors must be compared with == on their payloads; got `{q.show(b)}`", sample=f"is_covered_by {q.last_seg(hl[0])}: payload ==")
                        if hr == ["Constructor::Wildcard"] and hl == ["_"]:
                            r.ob(q.show(a["body"]) == "true", "pat_exhaustiveness.rs:is_covered_by:wildcard-covers", EXH, a["l"], "(_, Wildcard) must be covered")
                        if hl == ["Constructor::Wildcard"] and hr == ["_"]:
                            r.ob(q.show(a["body"]) == "false", "pat_exhaustiveness.rs:is_covered_by:wildcard-not-covered", EXH, a["l"], "(Wildcard, _) must not be covered by a specific constructor")
                break
    r.count("literal pattern kinds", n, 4, EXH)


# ----------------------------------------------------------------------------------------- ASSIGN-CAPTURED


@rule("ASSIGN-CAPTURED", ["C20", "C19"], "assignment to a variable captured by a lambda/task is rejected where names are resolved; lambdas and tasks open a closure scope")
def assign_captured(ctx, r):
    items = ctx.file_items(RES)
    if items is None:
        r.missing("resolve.rs")
        return
    rs = q.find_fn(items, "resolve_names_stmt")
    re_ = q.find_fn(items, "resolve_names_expr")
    arm = arm_of(rs, "StmtKind", "Assign") if rs else None
    if arm is None:
        r.missing("resolve_names_stmt:Assign", RES)
        return
    errs = [x for x in q.walk(arm["body"]) if x["k"] == "If" and any(y["k"] == "MethodCall" and y["m"] == "is_captured" for y in W(x["c"])) and any(y["k"] == "MethodCall" and y["m"] == "push" and q.show(y["recv"]).endswith(".errors") for y in q.walk(x["t"]))]
    for e_ in errs:
        conj = []

        def flat(c):
            if c["k"] == "Binary" and c["op"] == "&&":
                flat(c["a"])
                flat(c["b"])
            else:
                conj.append(c)

        cnd = e_["c"]
        if cnd["k"] == "Call" and isinstance(cnd.get("inl"), dict):
            # the condition is a predicate function: its let-else patterns and the conjuncts of its result are the conditions
            hb = cnd["inl"]["body"]
            for st_ in hb.get("stmts", []):
                if st_["k"] == "Local" and st_.get("else") is not None:
                    conj.append({"k": "Let", "pat": st_["pat"], "e": st_["init"], "l": st_["l"]})
                elif st_["k"] == "ExprStmt":
                    flat(st_["e"])
        else:
            flat(cnd)
        extra = []
        for c in conj:
            t = q.show(c).replace(" ", "")
            if "is_captured" in t:
                continue
            if c["k"] == "Let":
                pt = q.show_pat(c["pat"]).replace(" ", "")
                if pt in ("ExprKind::Variable(symbol)",) or pt.startswith("ExprKind::Variable("):
                    continue
                if pt in ("Some(Declaration::Var(_))", "Some(Declaration::Var(..))"):
                    continue
            if c["k"] == "Macro" and c.get("name") == "matches" and c.get("pat") is not None and q.show_pat(c["pat"]).replace(" ", "") in ("Some(Declaration::Var(_))", "Some(Declaration::Var(..))") and "lookup_declaration" in q.show(c):
                continue
            extra.append(q.show(c)[:80])
        r.ob(not extra, "resolve.rs:resolve_names_stmt:Assign:captured-check-narrowed", RES, e_["l"],
             f"the captured-assignment diagnostic is only raised under the extra condition(s) {extra}: every captured variable - `var`, `let`, loop and match bindings, and parameters of the enclosing function (declared as identifiers, not patterns) - is a private copy inside the lambda or task, so the assignment must be reported for all of them",
             sample="Assign: captured variable of any declaration form -> diagnostic")
    r.ob(bool(errs), "resolve.rs:resolve_names_stmt:Assign:captured-assignment-accepted", RES, arm["l"],
         "assignment to a variable declared outside the enclosing lambda/task is not reported; the code generator then panics because a closure only holds copies",
         sample="Assign: `is_captured` -> diagnostic")
    for v in ("AnonymousFunction", "TaskBlock"):
        a = arm_of(re_, "ExprKind", v) if re_ else None
        if a is None:
            r.missing(f"resolve_names_expr:{v}", RES)
            continue
        r.ob(any(x["k"] == "MethodCall" and x["m"] == "new_closure_scope" for x in q.walk(a["body"])), f"resolve.rs:resolve_names_expr:{v}:no-closure-scope", RES, a["l"],
             f"{v} must resolve its body in a closure scope, otherwise assignments to captured variables are not detected", sample=f"{v}: body resolved in a closure scope")


@rule("CAPTURE-WALK", ["C20", "C19"], "the scope walk that decides 'captured' never forgets a lambda/task boundary it has crossed")
def capture_walk(ctx, r):
    items = ctx.file_items(RES)
    if items is None:
        r.missing("resolve.rs")
        return
    fns = {f["name"]: f for impl in q.find_impls(items, self_ty="SymbolTableBase") for f in impl["items"] if f["k"] == "Fn" and f.get("body") is not None}
    ic = fns.get("is_captured")
    if ic is None:
        r.missing("SymbolTableBase::is_captured", RES)
        return
    # the flag that marks a scope as a lambda/task boundary: the bool field of the scope record
    stb = q.find_struct(items, "SymbolTableBase")
    bools = [fl["name"] for fl in (stb["fields"] if stb else []) if fl["ty"].strip() == "bool"]
    if len(bools) != 1:
        r.missing("SymbolTableBase: the boundary flag (one bool field)", RES)
        return
    BOUNDARY = bools[0]

    def calls_to(fn, names):
        return [x for x in q.walk(fn["body"]) if x["k"] == "MethodCall" and x["m"] in names]

    # the walker: is_captured itself, or the helper it delegates to
    walker = ic
    deleg = [x for x in calls_to(ic, set(fns) - {"is_captured", "lookup_declaration"}) if q.show(x["recv"]) == "self"]
    if deleg and not any(x["k"] == "Match" for x in q.walk(ic["body"])):
        walker = fns[deleg[0]["m"]]
        init_args = [q.show(a) for a in deleg[0]["args"]]
    else:
        init_args = None
    wname = walker["name"]
    bool_params = [q.pat_bindings(p["pat"])[0] for p in walker["params"] if not p.get("self") and p.get("ty", "").strip() == "bool"]
    local_found = [x for x in q.walk(walker["body"]) if x["k"] == "If" and "declarations.contains_key" in q.show(x["c"]).replace(" ", "")]
    if not local_found:
        r.missing(f"{wname}:found-in-this-scope test", RES)
        return
    found_ret = [q.show(y["e"]) for y in q.walk(local_found[0]["t"]) if y["k"] == "Return" and y.get("e") is not None]
    rec = [x for x in calls_to(walker, {wname}) if "enclosing" in q.show(x["recv"])]
    if not rec:
        r.missing(f"{wname}:recursion through enclosing", RES)
        return
    if not bool_params:
        # form A: the boundary decides at once - a closure scope asks whether the name exists anywhere further out
        r.ob(found_ret == ["false"], f"resolve.rs:{wname}:declared-inside-is-not-captured", RES, local_found[0]["l"], f"{wname}: a name declared in a scope reached before any lambda/task boundary is not captured (returns {found_ret})", sample=f"{wname}: found before a boundary -> false")
        gates = [x for x in q.walk(walker["body"]) if x["k"] == "If" and q.show(x["c"]).replace(" ", "").strip("()").lstrip("!").strip("()") == "self." + BOUNDARY]
        ok = False
        detail = f"no `if self.{BOUNDARY}`"
        if gates:
            g = gates[0]
            negated = q.show(g["c"]).replace(" ", "").strip("()").startswith("!")
            at_boundary, plain = (g.get("e"), g["t"]) if negated else (g["t"], g.get("e"))
            then_calls = [x for x in q.walk(at_boundary or {"k": "Block", "stmts": []}) if x["k"] == "MethodCall" and "enclosing" in q.show(x["recv"]) and x["m"] in fns and x["m"] != wname]
            whole_chain = [x for x in then_calls if any(y["k"] == "MethodCall" and y["m"] == x["m"] and "enclosing" in q.show(y["recv"]) for y in W(fns[x["m"]]["body"]))]
            else_rec = plain is not None and any(y in rec for y in q.walk(plain))
            then_rec = at_boundary is not None and any(y in rec for y in q.walk(at_boundary))
            ok = bool(whole_chain) and else_rec and not then_rec
            detail = f"at a boundary: {[q.show(x)[:60] for x in then_calls]}; otherwise recurses: {else_rec}"
        r.ob(ok, f"resolve.rs:{wname}:boundary-forgotten", RES, walker["l"],
             f"{wname}: at a lambda/task scope the answer must be 'declared anywhere further out' (a lookup over the whole enclosing chain); only scopes that are not boundaries may pass the question on unchanged ({detail})",
             sample=f"{wname}: boundary -> whole-chain lookup; plain scope -> recurse")
    else:
        P = bool_params[0]
        r.ob(found_ret == [P], f"resolve.rs:{wname}:declared-inside-is-not-captured", RES, local_found[0]["l"], f"{wname}: when the declaration is found the answer is the crossed-a-boundary flag `{P}` (returns {found_ret})", sample=f"{wname}: found -> {P}")
        idx = [q.pat_bindings(p["pat"])[0] for p in walker["params"] if not p.get("self")].index(P)
        for x in rec:
            a = x["args"][idx] if idx < len(x["args"]) else None
            ids = q.idents_in(a) if a is not None else set()
            joined = a is not None and P in ids and any(y["k"] == "Binary" and y["op"] == "||" for y in q.walk(a)) and BOUNDARY in q.show(a)
            r.ob(joined, f"resolve.rs:{wname}:boundary-forgotten", RES, x["l"],
                 f"{wname}: the recursive call passes `{q.show(a) if a is not None else '?'}` as the crossed-a-boundary flag; it must be `{P} || self.is_closure_scope` - otherwise every plain block scope between the lambda and the declaration resets the flag and the assignment is accepted (and lost at run time)",
                 sample=f"{wname}: flag passed on as {q.show(a) if a is not None else '?'}")
        r.ob(init_args is not None and "false" in init_args, f"resolve.rs:{wname}:initial-flag", RES, ic["l"], f"is_captured must start the walk with the flag false (passes {init_args})")
    r.count("scope-walk recursion sites", len(rec), 1, RES)


TRANSFERS = {"Return", "ReturnVoid", "Jump", "Stop", "Panic"}


@rule("EMIT-DEAD", ["C01", "C23", "C02"], "the generator never emits an instruction straight after an unconditional transfer without a label in between: such an instruction can never run, so the stack effect it was meant to have is silently missing")
def emit_dead(ctx, r):
    items = ctx.file_items(TB)
    if items is None:
        r.missing(TB)
        return
    n_transfer = 0
    n_checked = 0
    for f, _ in q.iter_items(items):
        if f["k"] != "Fn" or f.get("body") is None:
            continue
        label_vars = set()
        for x in q.walk(f["body"]):
            if x["k"] == "Local" and x.get("init") is not None and any(y["k"] == "Call" and q.show(y["f"]) == "make_label" for y in q.walk(x["init"])):
                label_vars |= set(q.pat_bindings(x["pat"]))

        def classify(e):
            """'label' | 'transfer' | 'instr' for the argument of emit."""
            while e["k"] in ("Ref", "Paren") or (e["k"] == "MethodCall" and e["m"] in ("clone", "into") and not e["args"]):
                e = e["e"] if e["k"] in ("Ref", "Paren") else e["recv"]
            s = q.show(e)
            if s.startswith("Line::Label") or (e["k"] == "Path" and e["p"] in label_vars):
                return "label"
            if e["k"] == "Index" and e["e"]["k"] == "Path" and "label" in e["e"]["p"]:
                return "label"
            head = s.split("(")[0].split("{")[0].strip()
            if head.startswith("Instr::") and head.split("::")[1] in TRANSFERS:
                return "transfer"
            return "instr"

        def emits(node):
            return [x for x in q.walk(node) if x["k"] == "MethodCall" and q.show(x["recv"]) == "self" and (x["m"] == "emit" or (x["m"].startswith(("translate_", "emit_", "handle_")) and any(q.show(a) == "st" for a in x["args"])))]

        for b in q.walk(f["body"]):
            if b["k"] != "Block":
                continue
            dead = None
            for s in b["stmts"]:
                e = s.get("e") if s["k"] == "ExprStmt" else None
                direct = e is not None and e["k"] == "MethodCall" and q.show(e["recv"]) == "self" and e["m"] == "emit" and len(e["args"]) >= 2
                if direct:
                    c = classify(e["args"][1])
                    if dead is not None:
                        n_checked += 1
                        r.ob(c == "label", f"translate_bytecode.rs:{f['name']}:after-{dead[0]}:unreachable-emission", TB, e["l"],
                             f"{f['name']}: `{q.show(e)[:90]}` is emitted right after the unconditional `{dead[1]}` with no label in between: it can never execute (a clean-up or placeholder pop placed there leaves a stray value on the stack on the path that jumps past it)",
                             sample=f"{f['name']}: after {dead[1][:40]} comes a label")
                    if c == "label":
                        dead = None
                    elif c == "transfer":
                        n_transfer += 1
                        dead = (q.show(e["args"][1]).split("(")[0].split("::")[-1], q.show(e["args"][1])[:60])
                    else:
                        dead = None
                    continue
                if dead is not None:
                    es = emits(s)
                    if es:
                        first = es[0]
                        c = classify(first["args"][1]) if first["m"] == "emit" and len(first["args"]) >= 2 else "instr"
                        n_checked += 1
                        r.ob(c == "label" and s["k"] == "ExprStmt" and s["e"] is first, f"translate_bytecode.rs:{f['name']}:after-{dead[0]}:unreachable-emission", TB, s["l"],
                             f"{f['name']}: code is emitted (`{q.show(first)[:80]}`) right after the unconditional `{dead[1]}` with no label in between: it can never execute",
                             sample=f"{f['name']}: after {dead[1][:40]} comes a label")
                        dead = None
    r.count("unconditional transfers emitted mid-sequence", n_transfer, 10, TB)
    r.count("emissions following a transfer", n_checked, 3, TB)


def _dominating_stmts(fn_body, target):
    """Statements that precede `target` in each enclosing block (source-order dominators within structured code)."""
    out = []
    for b in q.walk(fn_body):
        if b["k"] == "Block":
            for i, s in enumerate(b["stmts"]):
                if any(y is target for y in q.walk(s)):
                    out.extend(b["stmts"][:i])
    return out


@rule("UNWRAP-GUARD", ["C04", "C34"], "in the checker, a method looked up by name is unwrapped only where it must exist: in a prelude interface that declares it, or in an implementation already proven complete by a diverging output-type guard")
def unwrap_guard(ctx, r):
    from rules.prelude import abra, PRELUDE

    items = ctx.file_items(TC)
    pre = abra(ctx, r, PRELUDE)
    if items is None or pre is None:
        return
    ifaces = {it[1]: {m[1] for m in it[2] if m[0] == "fn"} for it in pre if it[0] == "interface"}
    n_decl = n_impl = 0
    for f, _ in q.iter_items(items):
        if f["k"] != "Fn" or f.get("body") is None:
            continue
        # a lookup wrapped in a local closure (`let sig = |ctx, name| imp.get_method_by_name(name).unwrap()..`) counts once per call
        sites = []
        for x in q.walk(f["body"]):
            if x["k"] == "MethodCall" and x["m"] in ("unwrap", "expect") and x["recv"]["k"] == "MethodCall" and x["recv"]["m"] == "get_method_by_name":
                inside_closure = any(c["k"] == "Closure" and any(y is x for y in q.walk(c)) for c in q.walk(f["body"]))
                if not inside_closure:
                    sites.append((x, x))
            if x["k"] == "Call" and isinstance(x.get("inl"), dict) and x["inl"].get("closure"):
                for y in q.walk(x["inl"]["body"]):
                    if y["k"] == "MethodCall" and y["m"] in ("unwrap", "expect") and y["recv"]["k"] == "MethodCall" and y["recv"]["m"] == "get_method_by_name":
                        sites.append((y, x))
        for x, at in sites:
            look = x["recv"]
            recv = q.show(look["recv"])
            lit = look["args"][0].get("v") if look["args"] and look["args"][0]["k"] == "Lit" else None
            doms = _dominating_stmts(f["body"], at)
            # where does the receiver come from?
            origin = [s for s in doms if s["k"] == "Local" and recv in q.pat_bindings(s["pat"]) and s.get("init") is not None]
            origin_txt = q.show(origin[-1]["init"]) if origin else ""
            key = f"typecheck.rs:{f['name']}:{recv}.{lit}"
            if "get_iface_decl" in origin_txt:
                n_decl += 1
                names = [y.get("v") for y in q.walk(origin[-1]["init"]) if y["k"] == "Lit" and y.get("t") == "str"]
                iname = names[0].split(".")[-1] if names else None
                r.ob(iname in ifaces and lit in ifaces[iname], key + ":not-declared-by-the-interface", TC, x["l"],
                     f"{f['name']}: `{recv}.get_method_by_name(\"{lit}\").unwrap()` assumes interface {iname} of the prelude declares `{lit}`; it declares {sorted(ifaces.get(iname, []))}",
                     sample=f"{f['name']}: prelude interface {iname} declares {lit}")
            else:
                n_impl += 1
                guards = []
                for s in doms:
                    if s["k"] == "Local" and s.get("else") is not None and s.get("init") is not None and any(y["k"] == "MethodCall" and y["m"] == "get_output_type_of_iface_impl" for y in q.walk(s["init"])):
                        els = s["else"]
                        last = els["stmts"][-1] if els["k"] == "Block" and els["stmts"] else None
                        le = last.get("e") if last is not None and last["k"] == "ExprStmt" else None
                        if le is not None and le["k"] in ("Return", "Continue", "Break"):
                            guards.append(s)
                r.ob(bool(guards), key + ":implementation-not-known-complete", TC, x["l"],
                     f"{f['name']}: `{recv}.get_method_by_name(\"{lit}\").unwrap()` on a user implementation is not preceded by a guard that leaves when the implementation's output types cannot be determined (`let Some(..) = ctx.get_output_type_of_iface_impl(..) else {{ return }}`): an unfinished `implement` block - ordinary while typing - panics the checker and the editor analysis",
                     sample=f"{f['name']}: {recv}.{lit} unwrapped after a diverging completeness guard")
    r.count("unwrapped method lookups in prelude interfaces", n_decl, 2, TC)
    r.count("unwrapped method lookups in user implementations", n_impl, 4, TC)


@rule("IF-VOID", ["C01", "C02"], "an `if` without `else` is typed void by the checker whatever its body yields, so the generator must not compile that body as a yielding statement")
def if_void(ctx, r):
    tc = fn_named(ctx, r, TC, "generate_constraints_expr")
    tb = fn_named(ctx, r, TB, "translate_expr", "Translator")
    if tc is None or tb is None:
        return
    ca = arm_of(tc, "ExprKind", "IfElse")
    ga = arm_of(tb, "ExprKind", "IfElse")
    if ca is None or ga is None:
        r.missing("IfElse arms", TC)
        return
    # checker: the branch for a missing else constrains the node to void
    void_when_no_else = False
    for x in q.walk(ca["body"]):
        if x["k"] == "If" and x["c"]["k"] == "Let" and "Some" in q.show_pat(x["c"]["pat"]) and x.get("e") is not None:
            void_when_no_else = any(y["k"] == "Call" and q.show(y["f"]).endswith("make_void") for y in q.walk(x["e"]))
    r.ob(True, "", TC, ca["l"], "", sample=f"checker: if without else is void: {void_when_no_else}")
    fb = am.field_bindings(ga["pat"], "IfElse")
    then_v = fb[1]["name"] if fb and len(fb) > 1 and fb[1]["k"] == "PIdent" else None
    else_v = fb[2]["name"] if fb and len(fb) > 2 and fb[2]["k"] == "PIdent" else None
    calls = [x for x in q.walk(ga["body"]) if x["k"] == "MethodCall" and x["m"] == "translate_stmt" and x["args"] and q.show(x["args"][0]) == then_v]
    if not calls or else_v is None:
        r.missing("translate_expr:IfElse:then branch", TB)
        return
    flag = calls[0]["args"][1]
    depends = else_v in q.idents_in(flag)
    r.ob((not void_when_no_else) or depends, "translate_bytecode.rs:translate_expr:IfElse:body-yields-without-else", TB, calls[0]["l"],
         f"the checker makes `if c {{ e }}` void, but the generator compiles the body with the yield flag `{q.show(flag)}`, independent of whether there is an else: the body's value stays on the operand stack (inside a `for` the next iteration then faults with 'expected struct')",
         sample=f"generator: then-branch yields iff `{q.show(flag)}`")


@rule("IFACE-DISPATCH", ["C24", "C02"], "an interface method is found in an implementation by its name: implementations are only required to contain every method, in any order")
def iface_dispatch(ctx, r):
    n = 0
    for file in (TB, TC):
        items = ctx.file_items(file)
        if items is None:
            r.missing(file)
            continue
        short = file.split("/")[-1]
        for f, _ in q.iter_items(items):
            if f["k"] != "Fn" or f.get("body") is None:
                continue
            # variables holding an implementation: bound from get_iface_impl_for_type / get_iface_impls
            imps = set()
            for x in q.walk(f["body"]):
                pats = []
                if x["k"] == "Local" and x.get("init") is not None:
                    pats.append((x["pat"], x["init"]))
                elif x["k"] == "Let":
                    pats.append((x["pat"], x["e"]))
                for pat, init in pats:
                    if any(y["k"] == "MethodCall" and y["m"] in ("get_iface_impl_for_type", "get_iface_impls") for y in q.walk(init)):
                        imps |= set(q.pat_bindings(pat))
            for x in q.walk(f["body"]):
                if x["k"] == "MethodCall" and x["m"] in ("get_method_of_iface", "get_method_by_name") and x["recv"]["k"] == "Path" and x["recv"]["p"] in imps:
                    n += 1
                if x["k"] == "Index" and x["e"]["k"] == "Field" and x["e"]["f"] == "methods" and x["e"]["e"]["k"] == "Path" and x["e"]["e"]["p"] in imps:
                    n += 1
                    r.find(f"{short}:{f['name']}:{x['e']['e']['p']}.methods[{q.show(x['i'])}]:positional-dispatch", file, x["l"],
                           f"{f['name']}: `{q.show(x)}` takes the i-th method of the implementation for the i-th method of the interface. Implementations are only checked to contain every method by name, so one that lists its methods in another order (`implement Ord for Pt {{ fn greater_than.. fn less_than.. }}`) has `<` compiled to greater_than")
    r.count("method lookups in implementations", n, 5, TB)


@rule("RESOLVE-ORDER", ["C21", "C02"], "the expression a binding construct draws from (for iterable, let initialiser, match scrutinee) is resolved in the enclosing scope, before the construct's own variables exist")
def resolve_order(ctx, r):
    rs = fn_named(ctx, r, RES, "resolve_names_stmt")
    re_ = fn_named(ctx, r, RES, "resolve_names_expr")
    if rs is None or re_ is None:
        return
    outer = [b for p in rs["params"] for b in q.pat_bindings(p["pat"]) if "SymbolTable" in p.get("ty", "")]
    n = 0
    for fn, enum, variant, src_field in ((rs, "StmtKind", "ForLoop", 1), (rs, "StmtKind", "Let", 2), (re_, "ExprKind", "Match", 0)):
        arm = arm_of(fn, enum, variant)
        if arm is None:
            r.missing(f"{fn['name']}:{variant}", RES)
            continue
        fb = am.field_bindings(arm["pat"], variant)
        src = fb[src_field]["name"] if fb and len(fb) > src_field and fb[src_field]["k"] == "PIdent" else None
        calls = [x for x in q.walk(arm["body"]) if x["k"] == "Call" and x["f"]["k"] == "Path" and q.last_seg(x["f"]["p"]) == "resolve_names_expr" and len(x["args"]) >= 3 and q.show(x["args"][2]).lstrip("&") == src]
        if src is None or not calls:
            r.missing(f"{fn['name']}:{variant}:source expression", RES)
            continue
        n += 1
        c = calls[0]
        shadows = [x for x in q.walk(arm["body"]) if x["k"] == "Local" and x.get("init") is not None and x["init"]["k"] == "MethodCall" and x["init"]["m"] in ("new_scope", "new_closure_scope")]
        binds = [x for x in q.walk(arm["body"]) if x["k"] == "Call" and x["f"]["k"] == "Path" and q.last_seg(x["f"]["p"]) == "resolve_names_pat"]
        before_scope = all(c["l"] < s_["l"] for s_ in shadows)
        before_bind = all(c["l"] < b["l"] for b in binds)
        r.ob(before_scope and before_bind, f"resolve.rs:{fn['name']}:{variant}:source-resolved-inside-its-own-scope", RES, c["l"],
             f"{fn['name']}, {variant}: `{src}` is resolved after the construct's scope is opened or its pattern bound: a name in it that equals one of the construct's own variables (`for n in n - 1`, `let x = x + 1`) then refers to the new, uninitialised variable instead of the enclosing one",
             sample=f"{variant}: `{src}` resolved in the enclosing scope first")
    r.count("binding constructs with a source expression", n, 3, RES)


@rule("FOR-EPILOGUE", ["C07", "C01"], "both ways out of a for loop drop the iterator that the loop keeps on the operand stack")
def for_epilogue(ctx, r):
    f = fn_named(ctx, r, TB, "translate_stmt", "Translator")
    if f is None:
        return
    arm = arm_of(f, "StmtKind", "ForLoop")
    if arm is None:
        r.missing("translate_stmt:ForLoop", TB)
        return
    # the label `break` jumps to: the end_label of the EnclosingLoop pushed in this arm
    brk = None
    for x in W(arm["body"]):  # the loop context may be pushed by a helper the arm delegates to
        if x["k"] == "Struct" and "EnclosingLoop" in str(x.get("p")):
            for fl in x.get("fields", []):
                if fl.get("name") == "end_label":
                    for y in q.walk(fl["e"]):
                        if y["k"] == "Path":
                            brk = y["p"]
    if brk is None:
        r.missing("translate_stmt:ForLoop:break label", TB)
        return
    emits = [x for x in q.walk_post(arm["body"]) if x["k"] == "MethodCall" and x["m"] == "emit" and len(x["args"]) >= 2]
    emits.sort(key=lambda x: x["l"])
    idx = next((i for i, e in enumerate(emits) if brk in q.idents_in(e["args"][1]) and "Label" in q.show(e["args"][1])), None)
    if idx is None:
        r.missing("translate_stmt:ForLoop:break label emission", TB)
        return
    after = [q.show(e["args"][1]) for e in emits[idx + 1:]]
    dup = any("Instr::Duplicate" in q.show(e["args"][1]) for e in emits[:idx])
    r.ob(bool(after) and after[0] == "Instr::Pop" and dup, "translate_bytecode.rs:translate_stmt:ForLoop:break-leaves-iterator", TB, emits[idx]["l"],
         f"the loop keeps its iterator on the operand stack (it is duplicated for every `next`); `break` jumps to `{brk}`, after which {after[:2] or 'nothing'} is emitted: the iterator must be popped there, or every loop left by `break` leaves a slot - a collector root pinning the iterator and the whole iterated array - until the enclosing frame returns",
         sample=f"for: `{brk}` label followed by Pop (iterator dropped on break)")
    # the exhausted path additionally drops the `none` payload before reaching that label
    before = [q.show(e["args"][1]) for e in emits[:idx]]
    r.ob(len(before) >= 2 and before[-1] == "Instr::Pop" and "Label" in before[-2], "translate_bytecode.rs:translate_stmt:ForLoop:exhausted-path", TB, emits[idx]["l"], "the exhausted path must drop the payload placeholder of `none` (label, Pop) and then fall into the break label", sample="for: exhausted path pops the payload, then shares the break epilogue")


@rule("ASSIGN-TARGET", ["C03"], "the generator computes a field index for every member assignment it is given, so the checker must reject a member that is not a struct field")
def assign_target(ctx, r):
    tc = fn_named(ctx, r, TC, "generate_constraints_stmt")
    tb = fn_named(ctx, r, TB, "translate_stmt", "Translator")
    if tc is None or tb is None:
        return
    ga = arm_of(tb, "StmtKind", "Assign")
    ca = arm_of(tc, "StmtKind", "Assign")
    if ga is None or ca is None:
        r.missing("Assign arms", TB)
        return
    needs = any(x["k"] == "MethodCall" and x["m"] == "idx_of_field" for x in q.walk(ga["body"]))
    guards = [x for x in q.walk(ca["body"]) if x["k"] == "If" and "MemberAccess" in q.show(x["c"]) and "StructField" in q.show(x["c"])
              and any(y["k"] == "MethodCall" and y["m"] == "push" and q.show(y["recv"]).endswith(".errors") for y in q.walk(x["t"])) and any(y["k"] == "Return" for y in q.walk(x["t"]))]
    r.ob((not needs) or bool(guards), "typecheck.rs:generate_constraints_stmt:Assign:member-that-is-not-a-field-accepted", TC, ca["l"],
         "the generator lowers `a.m = e` through idx_of_field, which panics unless `m` is a field of a struct; the checker has no diagnostic for a member that resolves to something else (`Color.Red = ..`, `Person.greet = ..`), so such a program is accepted and the compiler panics",
         sample="Assign: member that is not a struct field -> diagnostic, before constraints are generated")


@rule("ANA-ON-SUCCESS", ["C03", "C01"], "a checker function that ends by reconciling the node's type with the type its context expects does so on every path that has not reported an error: an early `return` without it accepts `let n: int = <string-valued expression>`")
def ana_on_success(ctx, r):
    items = ctx.file_items(am.TC) if hasattr(am, "TC") else ctx.file_items("abra_core/src/statics/typecheck.rs")
    TCF = "abra_core/src/statics/typecheck.rs"
    if items is None:
        r.missing(TCF)
        return
    n_fn = 0
    n_ret = 0
    for f, _ in q.iter_items(items):
        if f["k"] != "Fn" or f.get("body") is None:
            continue
        stmts = f["body"]["stmts"]
        if not stmts:
            continue
        last = stmts[-1]
        le = last.get("e") if last["k"] == "ExprStmt" else None
        if not (le is not None and le["k"] == "Call" and le["f"]["k"] == "Path" and q.last_seg(le["f"]["p"]) == "handle_ana"):
            continue
        n_fn += 1
        blocks = [b for b in q.walk_no_closure(f["body"]) if b["k"] == "Block"]
        for ret in q.walk_no_closure(f["body"]):
            if ret["k"] != "Return":
                continue
            n_ret += 1
            # the innermost block holding the return as a statement, and what precedes it there
            holder = None
            for b in blocks:
                for i, s_ in enumerate(b["stmts"]):
                    if s_ is ret or s_.get("e") is ret:
                        holder = (b, i)
            before = holder[0]["stmts"][: holder[1]] if holder else []
            reported = any(x["k"] == "MethodCall" and x["m"] == "push" and q.show(x["recv"]).endswith("errors") for s_ in before for x in q.walk(s_))
            reconciled = any(x["k"] == "Call" and x["f"]["k"] == "Path" and q.last_seg(x["f"]["p"]) == "handle_ana" for s_ in before for x in q.walk(s_))
            # `let Some(x) = ctx.helper(..) else { return }` where the helper reports the error itself before giving None
            via_callee = False
            for loc in q.walk_no_closure(f["body"]):
                if loc["k"] == "Local" and loc.get("else") is not None and holder is not None and loc["else"] is holder[0] and loc.get("init") is not None:
                    for c in q.walk(loc["init"]):
                        name = c["m"] if c["k"] == "MethodCall" else (q.last_seg(c["f"]["p"]) if c["k"] == "Call" and c["f"]["k"] == "Path" else None)
                        g = q.find_fn(items, name) if name else None
                        if g is not None and g.get("body") is not None and "Option" in (g.get("ret") or "") and any(x["k"] == "MethodCall" and x["m"] == "push" and q.show(x["recv"]).endswith("errors") for x in q.walk(g["body"])):
                            via_callee = True
            reported = reported or via_callee
            r.ob(reported or reconciled, f"typecheck.rs:{f['name']}:return-without-expected-type-check", TCF, ret["l"],
                 f"{f['name']}: this `return` leaves before the final `handle_ana(..)` on a path that has reported no error, so the expression's type is never compared with the type its context expects: `use util as util; let n: int = util.mk()` (mk returns a string) is accepted and the VM then faults with 'expected int but got string'",
                 sample=f"{f['name']}: early return after {'an error report' if reported else 'handle_ana'}")
    r.count("checker functions ending in handle_ana", n_fn, 2, TCF)
    r.count("early returns in them", n_ret, 5, TCF)


@rule("DECL-VALUE", ["C03", "C01"], "a name used as a value has a type or a diagnostic: where the checker maps the declaration a name resolves to onto the type of the expression, a kind of declaration that has no value (a type, an interface, a namespace) is reported, not silently left untyped")
def decl_value(ctx, r):
    TCF = "abra_core/src/statics/typecheck.rs"
    items = ctx.file_items(TCF)
    if items is None:
        r.missing(TCF)
        return
    n = 0
    for f, _ in q.iter_items(items):
        if f["k"] != "Fn" or f.get("body") is None:
            continue
        if "Option<TypeVar>" not in (f.get("ret") or "").replace(" ", "") or not any("Declaration" in p.get("ty", "") for p in f["params"]):
            continue
        for m in q.walk_no_closure(f["body"]):
            if m["k"] != "Match" or not any(h.startswith("Declaration::") for a in m["arms"] for h in q.pat_heads(a["pat"])):
                continue
            for a in m["arms"]:
                heads = [q.last_seg(h) for h in q.pat_heads(a["pat"]) if h.startswith("Declaration::")]
                if not heads:
                    continue
                body = a["body"]
                st = q.body_stmts(body)
                tail = st[-1]["e"] if st and st[-1]["k"] == "ExprStmt" else None
                gives_none = tail is not None and tail["k"] == "Path" and tail["p"] == "None"
                if not gives_none:
                    continue
                n += 1
                reports = any(x["k"] == "MethodCall" and x["m"] == "push" and q.show(x["recv"]).endswith("errors") for x in q.walk(body))
                r.ob(reports, f"typecheck.rs:{f['name']}:{'|'.join(sorted(set(heads)))}:untyped-without-diagnostic", TCF, a["l"],
                     f"{f['name']}: a name that resolves to {sorted(set(heads))} gets no type and no diagnostic, so the expression stays unconstrained and unifies with whatever its context expects: `type Color = Red | Blue  let x: int = Color` is accepted, the generator emits nothing for it and the VM stores into a slot that was never pushed",
                     sample=f"{f['name']}: {sorted(set(heads))} in value position is reported")
    r.count("declaration kinds without a value", n, 2, TCF)


@rule("LAST-FLAG", ["C11", "C02", "C01"], "the flag that tells the statement lowering 'this is the last statement, keep its value' is computed against the sequence actually being lowered: same sequence for index and length, no element skipped inside the loop")
def last_flag(ctx, r):
    items = ctx.file_items(TB)
    if items is None:
        r.missing(TB)
        return
    n = 0
    for f in q.find_fns(items, impl_ty="Translator"):
        if f.get("body") is None:
            continue
        lens = {}
        for l_ in q.walk(f["body"]):
            if l_["k"] == "Local" and l_.get("init") is not None and l_["init"]["k"] == "MethodCall" and l_["init"]["m"] == "len" and not l_["init"]["args"]:
                for b in q.pat_bindings(l_["pat"]):
                    lens[b] = q.show(q.strip_refs(l_["init"]["recv"]))
        for lp in q.walk(f["body"]):
            if lp["k"] != "For" or lp["pat"].get("k") != "PTuple" or len(lp["pat"]["elems"]) != 2:
                continue
            it = lp["e"]
            if not (it["k"] == "MethodCall" and it["m"] == "enumerate"):
                continue
            ivar = q.pat_bindings(lp["pat"]["elems"][0])
            if len(ivar) != 1:
                continue
            ivar = ivar[0]
            src = it["recv"]
            plain = src["k"] == "MethodCall" and src["m"] in ("iter", "into_iter") and not src["args"]
            seq = q.show(q.strip_refs(src["recv"])) if plain else q.show(src)
            for c in q.walk(lp["body"]):
                if not (c["k"] == "MethodCall" and c["m"] == "translate_stmt" and len(c["args"]) >= 2):
                    continue
                flag = c["args"][1]
                while flag["k"] == "Paren":
                    flag = flag["e"]
                if not (flag["k"] == "Binary" and flag["op"] == "==" and ivar in q.idents_in(flag)):
                    continue
                n += 1
                other = flag["b"] if ivar in q.idents_in(flag["a"]) else flag["a"]
                # the length the index is compared with: `<seq>.len()` written in place or through a local
                of = None
                for y in q.walk(other):
                    if y["k"] == "MethodCall" and y["m"] == "len" and not y["args"]:
                        of = q.show(q.strip_refs(y["recv"]))
                    if y["k"] == "Path" and y["p"] in lens:
                        of = lens[y["p"]]
                order = {id(x): k_ for k_, x in enumerate(q.walk(lp["body"]))}
                skips = [x for x in q.walk(lp["body"]) if x["k"] == "Continue" and order[id(x)] < order[id(c)]]
                ok = plain and of == seq and not skips
                why = "the loop skips elements before the call (`continue`)" if skips else (f"the index runs over `{seq}` but is compared with the length of `{of}`" if of != seq else f"the sequence is filtered between `{seq}` and the index")
                r.ob(ok, f"translate_bytecode.rs:{f['name']}:last-statement-flag", TB, c["l"],
                     f"{f['name']}: `{q.show(flag)}` marks the last statement so that its value is kept as the result; {why}, so when the last *lowered* statement is not the last element (a function definition after the final expression of the main file) its value is popped and the program's result is whatever lies below",
                     sample=f"{f['name']}: last-statement flag `{q.show(flag)}` over `{seq}`")
    r.count("last-statement flags", n, 2, TB)


@rule("BUILTIN-IDENTITY", ["C01", "C21"], "where the generator recognises builtin functions by their qualified-name string, the name counts only for a function declared in the prelude: a user module named like a builtin type produces the same strings")
def builtin_identity(ctx, r):
    items = ctx.file_items(TB)
    if items is None:
        r.missing(TB)
        return
    n = 0
    for f in q.find_fns(items, impl_ty="Translator"):
        if f.get("body") is None:
            continue
        params = {b for p in f["params"] if not p.get("self") for b in q.pat_bindings(p["pat"])}
        for m in q.walk(f["body"]):
            if m["k"] != "Match":
                continue
            lits = [a for a in m["arms"] if a["pat"].get("k") == "PLit" and str(a["pat"].get("v", "")).count(".") >= 1]
            emits = [a for a in lits if any(x["k"] == "MethodCall" and x["m"] == "emit" for x in q.walk(a["body"]))]
            if len(lits) < 3 or not emits:
                continue
            n += 1
            scr = q.strip_refs(m["e"])
            name = scr["p"] if scr["k"] == "Path" else None
            guarded = False
            if name is not None and name not in params:
                for l_ in q.walk(f["body"]):
                    if l_["k"] == "Local" and l_.get("init") is not None and name in q.pat_bindings(l_["pat"]):
                        idents = {y.get("f") for y in q.walk(l_["init"]) if y["k"] == "Field"} | {y.get("m") for y in q.walk(l_["init"]) if y["k"] == "MethodCall"}
                        lits_ = " ".join(str(y.get("v")) for y in q.walk(l_["init"]) if y["k"] in ("Lit", "PLit"))
                        guarded = bool(idents & {"file_db", "package_name", "file_id", "package_name_str"}) and "prelude" in lits_
            r.ob(guarded, f"translate_bytecode.rs:{f['name']}:builtin-recognised-by-name-only", TB, m["l"],
                 f"{f['name']}: `match {q.show(m['e'])}` replaces calls by instructions for names such as {[a['pat']['v'] for a in lits[:3]]}; the string is the qualified name of *any* function, and a function `read` in a user file `channel.abra` is `channel.read` too - its call is compiled as the builtin and the VM faults ('expected channel but got int'). The name must be used only for a function declared in the prelude",
                 sample=f"{f['name']}: builtin names honoured for prelude declarations only")
    r.count("name-keyed builtin tables in the generator", n, 1, TB)


@rule("TUPLE-SLOT", ["C19", "C01"], "a function of the generator that returns several sets of the same type as a tuple is destructured slot by slot as it names them: a binder called after one component is not bound to another")
def tuple_slot(ctx, r):
    items = ctx.file_items(TB)
    if items is None:
        r.missing(TB)
        return
    n = 0
    fns = [f for f in q.find_fns(items, impl_ty="Translator") if f.get("body") is not None]
    for f in fns:
        st = q.body_stmts(f["body"])
        tail = st[-1]["e"] if st and st[-1]["k"] == "ExprStmt" else None
        if tail is None or tail["k"] != "Tuple" or len(tail["elems"]) < 2 or not all(e["k"] == "Path" and "::" not in e["p"] for e in tail["elems"]):
            continue
        comps = [e["p"] for e in tail["elems"]]
        # only where at least two components have the same declared type (a swap would still compile)
        ret = (f.get("ret") or "").strip().strip("()")
        tys = [t.strip() for t in ret.split(",")] if ret else []
        if len(tys) != len(comps) or len(set(tys)) == len(tys):
            continue
        for g in fns:
            for l in q.walk(g["body"]):
                if l["k"] != "Local" or l.get("init") is None or l["pat"].get("k") != "PTuple" or len(l["pat"]["elems"]) != len(comps):
                    continue
                if not any(c["k"] == "MethodCall" and c["m"] == f["name"] for c in q.walk(l["init"])):
                    continue
                for i, pe in enumerate(l["pat"]["elems"]):
                    bs = q.pat_bindings(pe)
                    if len(bs) != 1:
                        continue
                    b = bs[0].lstrip("_")
                    n += 1
                    named_after = [j for j, cn in enumerate(comps) if cn.rstrip("s") in b and tys[j] == tys[i]]
                    r.ob(not named_after or i in named_after, f"translate_bytecode.rs:{g['name']}:{f['name']}:{bs[0]}:bound-to-another-component", TB, l["l"],
                         f"{g['name']}: `{bs[0]}` is bound to component #{i} (`{comps[i]}`) of {f['name']}(..) = ({', '.join(comps)}), although it is named after `{comps[named_after[0]] if named_after else ''}`; both are {tys[i]}, so the swap compiles: an enclosing function then receives a nested lambda's locals instead of its captures, outer variables used only by the nested lambda are not captured and the generator or the VM faults",
                         sample=f"{g['name']}: {bs[0]} <- {f['name']}.{comps[i]}")
    r.count("named binders of multi-set results", n, 0, TB)  # a result struct with named fields removes the hazard altogether


@rule("TRY-SUBST", ["C23", "C01"], "for `e?` the recorded instance of Try.branch is that of the tried expression's type and the instance of Try.from_residual that of the enclosing function's return type")
def try_subst(ctx, r):
    TCF = "abra_core/src/statics/typecheck.rs"
    items = ctx.file_items(TCF)
    if items is None:
        r.missing(TCF)
        return
    n = 0
    want = {"branch": "tried", "from_residual": "ret"}
    for f, _ in q.iter_items(items):
        if f["k"] != "Fn" or f.get("body") is None:
            continue
        sigs = {}
        for l in q.walk(f["body"]):
            if l["k"] == "Local" and l.get("init") is not None and l["pat"].get("k") == "PIdent":
                if l["init"]["k"] == "Closure":
                    continue
                for c in q.walk(l["init"]):
                    # the method looked up by name, in place or through a local helper that is given the name
                    if c["k"] in ("MethodCall", "Call") and c["args"]:
                        lits = [a_.get("v") for a_ in c["args"] if a_["k"] == "Lit" and a_.get("t") == "str" and a_.get("v") in want]
                        if lits and (c["k"] == "Call" or c["m"] == "get_method_by_name"):
                            sigs[l["pat"]["name"]] = lits[0]
        if len(sigs) < 2:
            continue
        locs = {}
        for l in q.walk(f["body"]):
            if l["k"] == "Local" and l.get("init") is not None:
                for b in q.pat_bindings(l["pat"]):
                    locs.setdefault(b, []).append(l["init"])

        def origin(name, depth=0):
            """'tried' / 'ret' for a variable, following the locals it was computed from back to the names of the constraint's components."""
            low = name.lower()
            if "tried" in low:
                return "tried"
            if "ret" in low:
                return "ret"
            if depth > 4:
                return None
            for init in locs.get(name, []):
                for i_ in sorted(q.idents_in(init)):
                    if i_ != name:
                        o = origin(i_, depth + 1)
                        if o:
                            return o
            return None

        for l in q.walk(f["body"]):
            if not (l["k"] == "Local" and l.get("init") is not None):
                continue
            init = l["init"]
            if init["k"] == "MethodCall" and init["m"] == "subst" and init["recv"]["k"] == "Path" and init["recv"]["p"] in sigs and init["args"]:
                method = sigs[init["recv"]["p"]]
                sv = q.strip_refs(init["args"][0])
                if sv["k"] != "Path":
                    continue
                # the substitution: get_substitution_of_typ(ctx, &imp.typ, &T)
                src = None
                for i2 in locs.get(sv["p"], []):
                    for c in q.walk(i2):
                        if c["k"] == "Call" and c["f"]["k"] == "Path" and q.last_seg(c["f"]["p"]) == "get_substitution_of_typ" and len(c["args"]) >= 3:
                            t = q.strip_refs(c["args"][2])
                            src = origin(t["p"]) if t["k"] == "Path" else None
                n += 1
                r.ob(src == want[method], f"typecheck.rs:{f['name']}:{method}:instantiated-at-the-other-type", TCF, l["l"],
                     f"{f['name']}: the signature of Try.{method} is instantiated with `{sv['p']}`, the substitution obtained from the {'tried expression' if src == 'tried' else 'enclosing function return type' if src == 'ret' else '?'}; `{method}` {'takes the tried value' if method == 'branch' else 'produces the value the enclosing function returns'}, so it must be the other one. The two agree except when exactly one of the payloads is void: then the generator emits or omits a `pop` for the wrong instance and the operand stack is off by one (internal fault)",
                     sample=f"{f['name']}: Try.{method} instantiated from the {want[method]} type")
    r.count("Try method signatures instantiated", n, 2, TCF)


@rule("MONO-TYPE", ["C28", "C03", "C01"], "inside a generic function the generator looks implementations up under the instance's types: a type that reaches an implementation lookup comes from get_ty(mono, ..) (or is substituted), not straight from the checker's solution")
def mono_type(ctx, r):
    items = ctx.file_items(TB)
    if items is None:
        r.missing(TB)
        return
    n = 0
    for f in q.find_fns(items, impl_ty="Translator"):
        if f.get("body") is None:
            continue
        locs = {}
        for l in q.walk(f["body"]):
            if l["k"] == "Local" and l.get("init") is not None:
                for b in q.pat_bindings(l["pat"]):
                    locs.setdefault(b, []).append(l["init"])

        def origin(name, depth=0, seen=None):
            """'mono' if the value was read through get_ty / substituted, 'raw' if it is the checker's unsubstituted solution, None if unknown (a parameter)."""
            seen = seen or set()
            if name in seen or depth > 5:
                return None
            seen.add(name)
            res = None
            for init in locs.get(name, []):
                calls = [y["m"] for y in q.walk(init) if y["k"] == "MethodCall"]
                if "get_ty" in calls or "subst" in calls:
                    return "mono"
                if "solution_of_node" in calls:
                    res = "raw"
                    continue
                for i_ in sorted(q.idents_in(init)):
                    o = origin(i_, depth + 1, seen)
                    if o == "mono":
                        return "mono"
                    if o == "raw":
                        res = "raw"
            return res

        for c in q.walk(f["body"]):
            if c["k"] == "MethodCall" and c["m"] == "get_iface_impl_for_type" and c["args"]:
                n += 1
                ids = sorted(q.idents_in(c["args"][0]))
                os_ = [origin(i_) for i_ in ids]
                bad = "raw" in os_ and "mono" not in os_
                r.ob(not bad, f"translate_bytecode.rs:{f['name']}:impl-lookup-under-unsubstituted-type", TB, c["l"],
                     f"{f['name']}: the implementation is looked up for `{q.show(c['args'][0])}`, which comes from the checker's solution of the node without the instance's substitution (`solution_of_node`, not `get_ty(mono, ..)`): inside a generic function the type still mentions the type parameter, no implementation fits it, and the generator panics (`ToString.str` passed as a value inside `fn show(x: T ToString)`)",
                     sample=f"{f['name']}: implementation looked up under the instance's type")
    r.count("implementation lookups in the generator", n, 2, TB)

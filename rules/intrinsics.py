"""Sibling tables about builtin operations: the type given to the checker, the argument count of the wrapper generated when a
builtin is used as a function value, and the operands of the instruction it lowers to."""
from lib import synq as q
from lib.core import rule
from lib.inline import walk_inl as W
from rules.optimizer import AbsMachine
from rules.vm_ops import _arms, asm_to_vm

INTR = "abra_core/src/intrinsic.rs"
TB = "abra_core/src/translate_bytecode.rs"


def _variant_arms(fn, enum):
    """{variant: arm} over every match in fn whose arm patterns name variants of `enum`."""
    out = {}
    for m in W(fn["body"]):  # also inside helpers the function delegates to (the arity table may live in one)
        if m["k"] != "Match":
            continue
        for a in m["arms"]:
            for h in q.pat_heads(a["pat"]):
                if h.startswith(enum + "::"):
                    out.setdefault(q.last_seg(h), []).append((m, a))
    return out


def _int_values(e):
    """The set of integer values an arity expression can take: a literal, or an if/else (possibly at the end of a block) of literals."""
    while e.get("k") == "Paren":
        e = e["e"]
    if e.get("k") == "Lit" and e.get("t") == "int":
        try:
            return {int(str(e["v"]).split("u")[0].split("i")[0].replace("_", ""))}
        except ValueError:
            return None
    if e.get("k") == "Block":
        st = q.body_stmts(e)
        if st and st[-1]["k"] == "ExprStmt":
            return _int_values(st[-1]["e"])
        return None
    if e.get("k") == "If" and e.get("e") is not None:
        a, b = _int_values(e["t"]), _int_values(e["e"])
        return None if a is None or b is None else a | b
    return None


@rule("INTRINSIC-ARITY", ["C01", "C03"], "a builtin used as a function value gets a wrapper that reloads as many arguments as the builtin's type has parameters (one fewer where a void argument has no slot), and the instruction it lowers to consumes that many operands")
def intrinsic_arity(ctx, r):
    it = ctx.file_items(INTR)
    tb = ctx.file_items(TB)
    if it is None or tb is None:
        r.missing("intrinsic.rs / translate_bytecode.rs")
        return
    en = q.find_enum(it, "IntrinsicOperation")
    sig = q.find_fn(it, "type_signature")
    emit = q.find_fn(tb, "emit_intrinsic", impl_ty="Translator")
    if en is None or sig is None or emit is None:
        r.missing("IntrinsicOperation / type_signature / emit_intrinsic", INTR)
        return
    # parameters of the checker's type
    sig_ar = {}
    for v, lst in _variant_arms(sig, "IntrinsicOperation").items():
        for m, a in lst:
            for c in q.walk(a["body"]):
                if c["k"] == "Call" and q.show(c["f"]).endswith("make_func") and c["args"]:
                    first = c["args"][0]
                    if first["k"] == "Macro" and first["name"] == "vec":
                        sig_ar[v] = len(first.get("args") or [])
    # the wrapper's argument count: the match whose value is bound to the variable handed to wrapper_header
    arms = _variant_arms(emit, "IntrinsicOperation")
    hdr = next((c for c in q.walk(emit["body"]) if c["k"] == "MethodCall" and c["m"] == "wrapper_header" and len(c["args"]) >= 2), None)
    if hdr is None:
        r.missing("emit_intrinsic: wrapper_header(st, nargs, ..)", TB)
        return
    # the arity table: the match over the builtins whose arms are integers (written in place or in a helper whose result is
    # handed to wrapper_header)
    cands = []
    for m in W(emit["body"]):
        if m["k"] == "Match" and any(h.startswith("IntrinsicOperation::") for a in m["arms"] for h in q.pat_heads(a["pat"])):
            ints = sum(1 for a in m["arms"] if _int_values(a["body"]) is not None)
            if ints * 2 > len(m["arms"]):
                cands.append(m)
    table = cands[0] if len(cands) == 1 else None
    if table is None:
        r.missing("emit_intrinsic: the argument-count table (a match over IntrinsicOperation with integer arms)", TB)
        return
    n = 0
    n_instr = 0
    arms_vm = _arms(ctx, r)
    by = {vv: an for vv, arm, an in arms_vm} if arms_vm else {}
    a2v = asm_to_vm(ctx, r)
    for v in [x["name"] for x in en["variants"]]:
        key = f"translate_bytecode.rs:emit_intrinsic:{v}"
        row = next((a for m, a in arms.get(v, []) if m is table), None)
        if row is None or v not in sig_ar:
            r.missing(key + ":arity row / type signature", TB)
            continue
        vals = _int_values(row["body"])
        if vals is None:
            r.missing(key + ":arity-form", TB, f"argument count `{q.show(row['body'])}` is not a literal or an if/else of literals")
            continue
        n += 1
        want = sig_ar[v]
        ok = vals == {want} or vals == {want - 1, want}
        r.ob(ok, key + ":wrapper-arity", TB, row["l"],
             f"emit_intrinsic: the wrapper generated for `{v}` used as a function value reloads {sorted(vals)} argument(s), but the checker gives it {want} parameter(s) (intrinsic.rs type_signature): with fewer the instruction pops below the callee's frame and takes the caller's values (wrong runtime type, desynchronised stack); with more it reads slots that do not exist. Direct calls are inlined and never read this table",
             sample=f"{v}: wrapper reloads {sorted(vals)} of {want} parameter(s)")
        # the instruction emitted for it: register-style instructions name a destination and one register per operand
        for m, a in arms.get(v, []):
            if m is table:
                continue
            for c in q.walk(a["body"]):
                if c["k"] == "Call" and q.show(c["f"]).startswith("Instr::") and c["args"] and all(q.show(x) == "Reg::Top" for x in c["args"]):
                    asm = q.last_seg(q.show(c["f"]))
                    an = by.get(a2v.get(asm))
                    if an is None:
                        continue
                    # the VM arm run on an abstract stack with every register operand `Top`: how many entries does it take?
                    init = [f"s{i}" for i in range(6)]
                    mach = AbsMachine(init)
                    mach.run(an, {i: "Top" for i in range(len(c["args"]))})
                    if mach.fault:
                        continue
                    k = len(init) - sum(1 for x in mach.stack if x in init)
                    n_instr += 1
                    r.ob(k == min(vals) or k == want, key + f":{asm}:operand-count", TB, c["l"],
                         f"emit_intrinsic: `{v}` has {want} parameter(s) but lowers to `{q.show(c)}`, whose VM arm takes {k} value(s) from the stack",
                         sample=f"{v}: {asm} takes {k} value(s)")
    r.count("builtin operations with a wrapper arity", n, 55, TB)
    r.count("lowered instructions executed abstractly", n_instr, 30, TB)

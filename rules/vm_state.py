"""VM group, part 2: tag dispatch, resumable instructions, string comparison case tables."""
from lib import ordcase as oc
from lib import synq as q
from lib.inline import walk_inl as W
from lib import vmsig
from lib.core import rule
from lib.vmsig import cond_show, sshow, subterms
from rules.vm_ops import VM, _arms, len_atom, string_invariants


def accessor_tags(items, r):
    """accessor method name -> ValueTag it checks (from the bodies in `impl Value`)."""
    out = {}
    # the tag check of the accessors: the method of Value that takes a ValueTag (whatever it is called)
    checkers = {g["name"] for g in q.find_fns(items, impl_ty="Value") if any("ValueTag" in p_.get("ty", "") for p_ in g["params"] if not p_.get("self"))} or {"check_type"}
    for f in q.find_fns(items, impl_ty="Value"):
        if f.get("body") is None or f["name"] in checkers or not f["name"].startswith(("get_", "view_")):
            continue
        for x in q.walk(f["body"]):
            if x["k"] == "MethodCall" and x["m"] in checkers and q.show(x["recv"]) == "self":
                for a in x["args"]:
                    if a["k"] == "Path" and a["p"].startswith("ValueTag::"):
                        out[f["name"]] = q.last_seg(a["p"])
    return out


def kind_types(items):
    """ObjectKind variant -> object struct type, from header constructions `kind: ObjectKind::K` inside `impl T`."""
    out = {}
    alloc_style = {}
    for impl in q.find_impls(items):
        ty = impl["self_ty"]
        if not ty.endswith("Object"):
            continue
        for f in impl["items"]:
            if f["k"] != "Fn":
                continue
            kinds = set()
            style = None
            for x in W(f["body"]):
                if x["k"] == "Struct" and q.last_seg(x["p"]) == "ObjectHeader":
                    for fl in x["fields"]:
                        if fl["name"] == "kind" and fl["e"]["k"] == "Path":
                            kinds.add(q.last_seg(fl["e"]["p"]))
                if x["k"] == "Call" and x["f"]["k"] == "Path":
                    if x["f"]["p"] in ("alloc", "std::alloc::alloc", "alloc::alloc"):
                        style = "alloc"
                    elif x["f"]["p"] == "Box::leak" or x["f"]["p"] == "Box::into_raw":
                        style = style or "box"
            for k in kinds:
                out.setdefault(k, ty)
                if style:
                    alloc_style[ty] = style
    return out, alloc_style


@rule("TAG-DISPATCH", ["C01", "C07", "C08"], "a match arm on a value tag / object kind uses only the accessor, cast and deallocator of that tag / kind")
def tag_dispatch(ctx, r):
    items = ctx.file_items(VM)
    if items is None:
        r.missing("vm.rs")
        return
    acc = accessor_tags(items, r)
    r.count("typed accessors", len(acc), 11, VM)
    k2t, style = kind_types(items)
    r.count("object kinds with allocator", len(k2t), 5, VM)
    n_tag = n_kind = 0
    for f, path in q.iter_items(items):
        if f["k"] != "Fn":
            continue
        owner = q.fn_owner(items, f)
        for m in q.walk(f["body"]):
            if m["k"] != "Match":
                continue
            heads = [h for a in m["arms"] for h in q.pat_heads(a["pat"])]
            if any(h.startswith("ValueTag::") for h in heads):
                scrut = q.show(m["e"])
                # the matched value: `self.1` -> self ; `v.1` -> v
                val = None
                e = q.strip_refs(m["e"])
                if e["k"] == "Field" and e["f"] == "1":
                    val = q.show(e["e"])
                if val is None:
                    continue
                n_tag += 1
                for arm in m["arms"]:
                    tags = {q.last_seg(h) for h in q.pat_heads(arm["pat"]) if h.startswith("ValueTag::")}
                    if not tags:
                        continue
                    for x in q.walk(arm["body"]):
                        if x["k"] == "MethodCall" and x["m"] in acc and q.show(x["recv"]) == val:
                            ok = acc[x["m"]] in tags and len(tags) == 1
                            r.ob(ok, f"vm.rs:{f['name']}:{'|'.join(sorted(tags))}:{x['m']}", VM, x["l"],
                                 f"{owner}::{f['name']}: the arm for tag {'|'.join(sorted(tags))} applies `{x['m']}` (which is the accessor for tag {acc[x['m']]}) to the matched value",
                                 sample=f"{f['name']}: tag {'|'.join(sorted(tags))} -> {x['m']}")
            if any(h.startswith("ObjectKind::") for h in heads):
                n_kind += 1
                for arm in m["arms"]:
                    kinds = {q.last_seg(h) for h in q.pat_heads(arm["pat"]) if h.startswith("ObjectKind::")}
                    if len(kinds) != 1:
                        continue
                    k = next(iter(kinds))
                    want = k2t.get(k)
                    if want is None:
                        r.missing(f"allocator-for-kind:{k}", VM)
                        continue
                    casts = set()
                    frees = set()
                    for x in q.walk(arm["body"]):
                        if x["k"] == "Cast" and x["ty"].replace("*mut ", "").replace("*const ", "").endswith("Object"):
                            casts.add(x["ty"].replace("*mut ", "").replace("*const ", "").strip())
                        if x["k"] == "Call" and x["f"]["k"] == "Path":
                            if x["f"]["p"] == "Box::from_raw":
                                frees.add("box")
                            elif x["f"]["p"] in ("dealloc", "std::alloc::dealloc", "alloc::dealloc"):
                                frees.add("alloc")
                    for c in casts:
                        r.ob(c == want, f"vm.rs:{f['name']}:{k}:cast-{c}", VM, arm["l"],
                             f"{owner}::{f['name']}: the arm for ObjectKind::{k} reinterprets the header as {c}; objects of that kind are {want}",
                             sample=f"{f['name']}: kind {k} -> {c}")
                    for fr in frees:
                        same = fr == style.get(want)
                        why = ""
                        if not same and fr == "alloc" and style.get(want) == "box":
                            # handing a boxed object's block straight back to the allocator is the same as dropping the Box only if
                            # nothing inside it owns memory (no Arc / Vec / Box / String .. field whose drop would be skipped) and
                            # the layout is that of the type
                            import re as _re

                            sd = q.find_struct(items, want)
                            aliases = {it["name"]: it["ty"] for it, _ in q.iter_items(items) if it["k"] == "TypeAlias"}

                            def expand(t, depth=0):
                                for nm, tt in aliases.items():
                                    if depth < 4 and _re.search(r"\b" + nm + r"\b", t):
                                        t = t + " " + expand(tt, depth + 1)
                                return t

                            owning = [fl["name"] for fl in (sd["fields"] if sd else []) if _re.search(r"\b(Arc|Rc|Vec|VecDeque|Box|String|Mutex|RwLock|HashMap|HashSet|BTreeMap)\b", expand(fl["ty"]))]
                            def full(e):
                                return " ".join(str(y.get("full") or y.get("p") or "") for y in q.walk(e) if y["k"] == "Path")

                            lay = {b: full(l_["init"]) for l_ in q.walk(arm["body"]) if l_["k"] == "Local" and l_.get("init") is not None for b in q.pat_bindings(l_["pat"])}
                            layout_ok = any(x["k"] == "Call" and x["f"]["k"] == "Path" and x["f"]["p"] in ("dealloc", "std::alloc::dealloc", "alloc::dealloc") and len(x["args"]) >= 2 and f"Layout::new::<{want}>" in lay.get(q.show(x["args"][1]), full(x["args"][1])).replace(" ", "") for x in q.walk(arm["body"]))
                            same = sd is not None and not owning and layout_ok
                            why = f" (its field(s) {owning} own memory that only dropping the Box releases: the block is returned but what they point to leaks)" if owning else ""
                        r.ob(same, f"vm.rs:{f['name']}:{k}:free-{fr}", VM, arm["l"],
                             f"{owner}::{f['name']}: ObjectKind::{k} objects are allocated with {style.get(want)} but freed with {fr}{why}",
                             sample=f"{f['name']}: kind {k} allocated {style.get(want)} freed {fr}")
    r.count("matches on ValueTag of a value", n_tag, 1, VM)
    r.count("matches on ObjectKind", n_kind, 3, VM)


# ---------------------------------------------------------------- RESUME


def rewinds(an):
    return [ev for ev in an.events if ev.kind == "assign" and ev.data[0] == ("field", ("self", "pc"), "0") and ev.data[2] == "-="]


def progress_fields(an):
    out = set()
    for ev in an.events:
        if ev.kind == "assign" and ev.data[0][0] == "self" and ev.data[2] == "+=":
            out.add(ev.data[0][1])
    return out


@rule("RESUME", ["C10", "C17", "C09"], "instructions that rewind pc keep their operands (saved under the first-iteration guard or re-pushed), advance, and reset progress on completion")
def resume(ctx, r):
    arms = _arms(ctx, r)
    if arms is None:
        return
    n = 0
    roots = gc_root_fields(ctx)
    for v, arm, an in arms:
        rw = rewinds(an)
        if not rw:
            continue
        n += 1
        prog = progress_fields(an)
        reads = [ev for ev in an.events if ev.kind in ("read", "pop", "popn")]
        saved_fields = set()
        if prog:
            # first-iteration guard: conjunction `field == 0` over all progress fields
            for ev in reads:
                guard_fields = set()
                for c, pol in ev.conds:
                    if pol:
                        for t in subterms(c):
                            if t[0] == "bin" and t[1] == "==" and t[2][0] == "self" and t[3] == ("lit", "0"):
                                guard_fields.add(t[2][1])
                r.ob(prog <= guard_fields, f"vm.rs:step:{v}:operand-read-outside-first-iteration-guard", VM, ev.line,
                     f"arm {v} re-executes after `pc -= 1`; it consumes a stack operand under guard {sorted(guard_fields)} but its progress fields are {sorted(prog)}: the operand would be consumed again on resumption",
                     sample=f"{v}: operand read guarded by {sorted(guard_fields)} == 0")
            # every operand read is saved into a thread field
            for ev in an.events:
                if ev.kind == "assign" and ev.data[0][0] == "self" and ev.data[1][0] == "opnd":
                    saved_fields.add(ev.data[0][1])
            nreads = len([e for e in reads if e.kind == "read"])
            r.ob(len(saved_fields) >= nreads and nreads > 0, f"vm.rs:step:{v}:operands-not-saved", VM, arm["l"],
                 f"arm {v}: {nreads} operands are consumed on the first iteration but only {sorted(saved_fields)} are saved in thread fields")
            for fl in sorted(saved_fields):
                r.ob(fl in roots, f"vm.rs:step:{v}:saved-operand-not-a-gc-root:{fl}", VM, arm["l"],
                     f"arm {v} keeps an operand in self.{fl} across instructions, but the root-marking routine does not mark that field",
                     sample=f"{v}: self.{fl} is a GC root")
            # progress strictly advances on each rewinding path
            for ev in rw:
                adv = [e for e in an.events if e.kind == "assign" and e.data[2] == "+=" and e.data[0][0] == "self" and e.conds == ev.conds and e.data[1][3] == ("lit", "1")]
                r.ob(bool(adv), f"vm.rs:step:{v}:rewind-without-progress", VM, ev.line, f"arm {v} rewinds pc on a path that does not advance a progress field (would spin forever)",
                     sample=f"{v}: rewind path advances {[e.data[0][1] for e in adv]}")
            # completing paths reset every progress field
            for ev in an.events:
                if ev.kind in ("store", "push") and not any(w.conds == ev.conds for w in rw):
                    resets = {e.data[0][1] for e in an.events if e.kind == "assign" and e.data[0][0] == "self" and e.data[2] == "=" and e.data[1] == ("lit", "0") and e.conds == ev.conds}
                    r.ob(prog <= resets, f"vm.rs:step:{v}:progress-not-reset", VM, ev.line,
                         f"arm {v} completes (stores its result) on a path that resets {sorted(resets)} but the progress fields are {sorted(prog)}: the next string instruction would start mid-way",
                         sample=f"{v}: completing path resets {sorted(resets)}")
        else:
            # no progress fields: operands consumed must be re-pushed on the rewinding path
            pops = [ev for ev in an.events if ev.kind == "pop"]
            for ev in rw:
                repushed = [e for e in an.events if e.kind == "push" and e.conds == ev.conds and e.data[0][0] == "stk"]
                r.ob(len(repushed) >= len(pops), f"vm.rs:step:{v}:operand-not-repushed", VM, ev.line,
                     f"arm {v} rewinds pc after popping {len(pops)} operand(s) but re-pushes {len(repushed)}", sample=f"{v}: popped operand re-pushed before rewinding")
            # nothing else may be mutated on the blocking path (a read suspends only the reader)
            for ev in rw:
                muts = [e for e in an.events if e.conds == ev.conds and e.kind in ("assign", "mcall", "barrier", "alloc") and e is not ev and not (e.kind == "mcall" and e.data[0] in ("read_value",))]
                r.ob(not muts, f"vm.rs:step:{v}:side-effect-on-blocking-path", VM, ev.line, f"arm {v}: the blocking path has other effects: {[e.kind for e in muts]}")
    r.count("rewinding arms", n, 7, VM)


def gc_root_fields(ctx):
    """Thread fields marked as roots when a cycle starts (start_mark_phase and the helpers it calls)."""
    items = ctx.file_items(VM)
    out = set()
    seen = set()
    work = ["start_mark_phase"]
    while work:
        name = work.pop()
        if name in seen:
            continue
        seen.add(name)
        f = q.find_fn(items, name, impl_ty="VmGreenThread")
        if f is None:
            continue
        for x in q.walk(f["body"]):
            if x["k"] == "Field" and x["e"]["k"] == "Path" and x["e"]["p"] == "self":
                out.add(x["f"])
            if x["k"] == "MethodCall" and q.show(x["recv"]) == "self" and len(seen) < 6:
                work.append(x["m"])
    return out


# ---------------------------------------------------------------- STR-CASES

STR_OPS = {
    "EqualString": "==",
    "LessThanString": "<",
    "LessThanOrEqualString": "<=",
    "GreaterThanString": ">",
    "GreaterThanOrEqualString": ">=",
}

A = ("acc", "string", ("self", "string_operand1"))
B = ("acc", "string", ("self", "string_operand2"))
I1 = ("self", "string_op_index1")
I2 = ("self", "string_op_index2")


def cmp_op(op, x, y):
    return {"==": x == y, "<": x < y, "<=": x <= y, ">": x > y, ">=": x >= y}[op]


@rule("STR-CASES", ["C17"], "string comparison / concatenation arms: exact case table over (position, lengths, byte order) equals lexicographic byte order")
def str_cases(ctx, r):
    arms = _arms(ctx, r)
    if arms is None:
        return
    by = {v: (arm, an) for v, arm, an in arms}
    n = 0
    for v, op in STR_OPS.items():
        if v not in by:
            if not r.fixture:
                r.missing(f"vm.rs:step:{v}", VM)
            continue
        arm, an = by[v]
        n += 1
        inv = string_invariants(an)
        outs = []  # (kind, value, conds)
        for ev in an.events:
            if ev.kind == "store":
                outs.append(("result", ev.data[1], ev.conds))
        for ev in rewinds(an):
            outs.append(("advance", None, ev.conds))
        abyte = ("idx", ("call", "as_bytes", A, []), I1)
        bbyte = ("idx", ("call", "as_bytes", B, []), I1)
        try:
            atoms = oc.collect_atoms([c for _, _, cs in outs for c, _ in cs] + [c for c, _ in inv] + [I1, len_atom(A), len_atom(B), abyte, bbyte]
                                     + [val for _, val, _ in outs if val is not None])
            extra = [k for k in atoms if k not in {oc.norm_atom(x) for x in (I1, len_atom(A), len_atom(B), abyte, bbyte)}]
            if extra:
                r.missing(f"vm.rs:step:{v}:case-atoms", VM, f"conditions depend on terms outside the case set: {extra[:3]}")
                continue
            ncases = 0
            bad = None
            for env in oc.assignments(atoms):
                if not oc.holds(inv, env):
                    continue
                i = env[oc.norm_atom(I1)]
                la = env[oc.norm_atom(len_atom(A))]
                lb = env[oc.norm_atom(len_atom(B))]
                ab = env[oc.norm_atom(abyte)]
                bb = env[oc.norm_atom(bbyte)]
                in_a, in_b = i < la, i < lb
                if not (in_a and in_b) and (ab, bb) != (0, 0):
                    continue  # bytes are meaningless past the end: one representative
                ncases += 1
                taken = [(k, val) for k, val, cs in outs if oc.holds(cs, env)]
                if len(taken) != 1:
                    bad = (env, f"{len(taken)} outcomes taken")
                    break
                k, val = taken[0]
                got = "advance" if k == "advance" else bool(oc.evaluate(val, env))
                # specification
                if not in_a or not in_b:
                    allowed = {cmp_op(op, la, lb)} if op != "==" else {la == lb}
                elif ab != bb:
                    allowed = {cmp_op(op, ab, bb)}
                else:
                    allowed = {"advance"}
                    if op == "==" and la != lb:
                        allowed.add(False)
                if got not in allowed:
                    bad = (env, f"yields {got}, lexicographic byte order requires {sorted(map(str, allowed))}")
                    break
            if bad:
                env, why = bad
                r.find(f"vm.rs:step:{v}:case-table", VM, arm["l"],
                       f"arm {v} (`{op}` on strings): in the case pos={env[oc.norm_atom(I1)]}, len(a)={env[oc.norm_atom(len_atom(A))]}, len(b)={env[oc.norm_atom(len_atom(B))]}, a[pos]={env[oc.norm_atom(abyte)]}, b[pos]={env[oc.norm_atom(bbyte)]} it {why}")
            else:
                r.ob(True, f"vm.rs:step:{v}", VM, arm["l"], "", sample=f"{v}: {ncases} ordering cases agree with lexicographic `{op}`")
        except oc.Unknown as e:
            r.missing(f"vm.rs:step:{v}:case-table", VM, f"not evaluable: {e}")
    r.count("string comparison arms", n, 5, VM)
    # concatenation
    if "ConcatStrings" in by:
        arm, an = by["ConcatStrings"]
        concat_cases(r, arm, an)
    elif not r.fixture:
        r.missing("vm.rs:step:ConcatStrings", VM)


def concat_cases(r, arm, an):
    v = "ConcatStrings"
    inv = string_invariants(an)
    # a-bytes strictly before b-bytes: index2 > 0 implies index1 == len(a)
    inv = inv + [(("bin", "||", ("bin", "==", I2, ("lit", "0")), ("bin", "==", I1, len_atom(A))), True)]
    outs = []
    for ev in an.events:
        if ev.kind == "store":
            outs.append(("complete", None, ev.conds, ev))
    for ev in an.events:
        if ev.kind == "mcall" and ev.data[0] == "push" and ev.data[1] == ("self", "concat_string_builder"):
            arg = ev.data[2][0]
            outs.append(("append", arg, ev.conds, ev))
    try:
        atoms = oc.collect_atoms([c for _, _, cs, _ in outs for c, _ in cs] + [c for c, _ in inv] + [I1, I2, len_atom(A), len_atom(B)])
        ncases = 0
        for env in oc.assignments(atoms):
            if not oc.holds(inv, env):
                continue
            ncases += 1
            i1, i2 = env[oc.norm_atom(I1)], env[oc.norm_atom(I2)]
            la, lb = env[oc.norm_atom(len_atom(A))], env[oc.norm_atom(len_atom(B))]
            taken = [(k, arg, ev) for k, arg, cs, ev in outs if oc.holds(cs, env)]
            if i1 == la and i2 == lb:
                want = ("complete", None)
            elif i1 < la:
                want = ("append", sshow(("idx", ("call", "as_bytes", A, []), I1)))
            else:
                want = ("append", sshow(("idx", ("call", "as_bytes", B, []), I2)))
            got = [(k, sshow(arg) if arg is not None else None) for k, arg, _ in taken]
            if got != [want]:
                r.find(f"vm.rs:step:{v}:case-table", VM, arm["l"],
                       f"arm {v}: in the case idx1={i1}, idx2={i2}, len(a)={la}, len(b)={lb} it does {got}; exact concatenation requires {want}")
                return
            # the index advanced must be the one of the byte appended, and pc must rewind
            if want[0] == "append":
                ev = taken[0][2]
                fld = "string_op_index1" if i1 < la else "string_op_index2"
                adv = [e for e in an.events if e.kind == "assign" and e.conds == ev.conds and e.data[0] == ("self", fld) and e.data[2] == "+="]
                rw = [e for e in rewinds(an) if e.conds == ev.conds]
                if not adv or not rw:
                    r.find(f"vm.rs:step:{v}:append-without-advance", VM, ev.line, f"arm {v}: appends a byte without advancing self.{fld} and rewinding")
                    return
        r.ob(True, f"vm.rs:step:{v}", VM, arm["l"], "", sample=f"{v}: {ncases} cases: all bytes of a, then all bytes of b, completion exactly at both ends")
    except oc.Unknown as e:
        r.missing(f"vm.rs:step:{v}:case-table", VM, f"not evaluable: {e}")
    # the builder is reset under the first-iteration guard and consumed at completion
    resets = [e for e in an.events if e.kind == "assign" and e.data[0] == ("self", "concat_string_builder")]
    r.ob(bool(resets) and all(e.conds for e in resets), f"vm.rs:step:{v}:builder-reset", VM, arm["l"], f"arm {v}: the byte builder is not re-initialised under the first-iteration guard")

"""VM group: per-arm rules over VmGreenThread::step (vm.rs)."""
from lib import ordcase as oc
from lib import synq as q
from lib import vmsig
from lib.core import rule
from lib.vmsig import cond_show, error_exits, is_operand_derived, sshow, subterms

VM = "abra_core/src/vm.rs"
N_ARMS_FLOOR = 114  # counted on the pinned tree


def _arms(ctx, r):
    got = vmsig.step_arms(ctx, r)
    if got is None:
        return None
    arms, helpers, m = got
    r.count("step arms", len(arms), N_ARMS_FLOOR, VM)
    for v, arm, an in arms:
        if an.unknown:
            r.find(f"vm.rs:step:{v}:unanalysed-form", VM, arm["l"], f"arm {v}: expression forms the signature extractor does not model: {an.unknown[:3]}")
    return arms


def outcome_table(an, atoms_from=None, invariants=()):
    """Exact table assignment -> outcome for an arm: ('err', kind) / ('ok',) by first error exit whose path holds."""
    exits = error_exits(an)
    conds = []
    for kind, cs, line in exits:
        conds += [c for c, _ in cs]
    for c, _ in invariants:
        conds.append(c)
    atoms = oc.collect_atoms(conds + list(atoms_from or []))
    table = {}
    for env in oc.assignments(atoms):
        if not oc.holds(invariants, env):
            continue
        out = ("ok",)
        for kind, cs, line in exits:
            if oc.holds(cs, env):
                out = ("err", kind)
                break
        table[tuple(sorted(env.items()))] = out
    return atoms, table


def semop(an):
    """The arm's semantic operation: head of the value it stores/pushes (None if it stores nothing computed)."""
    for ev in an.events:
        if ev.kind in ("store", "push"):
            v = ev.data[1] if ev.kind == "store" else ev.data[0]
            while isinstance(v, tuple) and v[0] in ("some", "andthen", "optmap"):
                v = v[1] if v[0] == "some" else v[2]
            if v[0] == "call":
                if v[1] in ("is_lt", "is_le", "is_gt", "is_ge", "is_eq", "is_ne") and v[2][0] == "call":
                    return (v[2][1] + "." + v[1], [v[2][2]] + list(v[2][3]))
                return (v[1], [v[2]] + list(v[3]))
            if v[0] == "bin":
                return (v[1], [v[2], v[3]])
            if v[0] == "un":
                return (v[1], [v[2]])
            if v[0] == "cast":
                return ("as " + v[1], [v[2]])
    return None


INT_CHECKED = {"checked_add", "checked_sub", "checked_mul", "checked_pow"}


@rule("OP-ERR", ["C15", "C11"], "integer arithmetic arms: checked op -> documented error kind, exact zero/overflow case table")
def op_err(ctx, r):
    arms = _arms(ctx, r)
    if arms is None:
        return
    n = 0
    for v, arm, an in arms:
        so = semop(an)
        if so is None:
            continue
        op, args = so
        roots = [root_operand(a) for a in args]
        if not all(x[0] in ("opnd", "imm") and oc.atom_kind(x) == "i64" for x in roots) or not roots:
            continue
        if not (op.startswith("checked_") or op in ("/", "%", "rem_euclid", "wrapping_rem_euclid", "wrapping_div", "div_euclid", "+", "-", "*", "pow", "wrapping_pow", "wrapping_sub")):
            continue
        n += 1
        A, B = args[0], args[1] if len(args) > 1 else None
        if B is not None and B[0] == "cast":
            Bv = B
        else:
            Bv = B
        try:
            atoms, table = outcome_table(an, atoms_from=[A] + ([Bv] if Bv is not None else []))
        except oc.Unknown as e:
            r.missing(f"vm.rs:step:{v}:case-table", VM, f"cannot evaluate guards exactly: {e}")
            continue
        an_name = oc.norm_atom(root_operand(A))
        bn_name = oc.norm_atom(root_operand(B)) if B is not None else None
        bad = {}
        for key, out in table.items():
            env = dict(key)
            a = env.get(an_name)
            b = env.get(bn_name)
            if a is None or b is None:
                continue
            exp = spec_int(op, a, b)
            if exp is None:
                continue
            if isinstance(exp, set):
                if out in exp:
                    continue
                exp = sorted(exp)[-1]
            if out != exp:
                cause = classify_cause(op, a, b)
                bad.setdefault((cause, exp, out), (a, b))
        if op in ("+", "-", "*", "pow", "wrapping_pow", "wrapping_sub", "/", "%"):
            r.find(f"vm.rs:step:{v}:unchecked-op:{op}", VM, arm["l"], f"arm {v} computes with `{op}` which wraps or host-panics instead of reporting the documented error")
        for (cause, exp, out), (a, b) in sorted(bad.items(), key=str):
            r.find(
                f"vm.rs:step:{v}:{cause}",
                VM,
                arm["l"],
                f"arm {v} ({op}): for a={a}, b={b} ({cause}) the arm yields {fmt_out(out)}, the documented behaviour is {fmt_out(exp)}",
                {"a": a, "b": b, "expected": exp, "got": out},
            )
        if not bad:
            r.ob(True, f"vm.rs:step:{v}", VM, arm["l"], "", sample=f"{v}: {op} error table exact over {len(table)} ordering cases")
    r.count("int arithmetic arms", n, 12, VM)


def fmt_out(o):
    return "a result" if o == ("ok",) else f"error {o[1]}"


def classify_cause(op, a, b):
    if b == 0 and op in ("checked_div", "checked_rem_euclid", "checked_rem", "/", "%"):
        return "zero-divisor"
    if a == oc.I64_MIN and b == -1:
        return "min-by-minus-one"
    if op == "checked_pow" and (b < 0 or b >= 2**32):
        return "exponent-outside-u32"
    return "overflow"


def spec_int(op, a, b):
    """Documented outcome of the integer operator implemented with `op` on exact operands."""
    OVF = ("err", "IntegerOverflowUnderflow")
    DZ = ("err", "DivisionByZero")
    OK = ("ok",)
    if op in ("checked_add", "+"):
        return OK if oc.I64_MIN <= a + b <= oc.I64_MAX else OVF
    if op in ("checked_sub", "-", "wrapping_sub"):
        return OK if oc.I64_MIN <= a - b <= oc.I64_MAX else OVF
    if op in ("checked_mul", "*"):
        return OK if oc.I64_MIN <= a * b <= oc.I64_MAX else OVF
    if op in ("checked_div", "/", "wrapping_div", "div_euclid"):
        if b == 0:
            return DZ
        if a == oc.I64_MIN and b == -1:
            return OVF
        return OK
    if op in ("checked_rem_euclid", "checked_rem", "%", "rem_euclid", "wrapping_rem_euclid"):
        if b == 0:
            return DZ
        return OK  # the Euclidean remainder always fits
    if op in ("checked_pow", "pow", "wrapping_pow"):
        if b < 0:
            return None  # property speaks of non-negative exponents only
        if abs(a) <= 1:
            # "the exact power or an overflow error": an exponent beyond u32 may be refused even though 0/1/-1 have powers
            return {OK, OVF} if b >= 2**32 else OK
        if b > 64:
            return OVF
        return OK if oc.I64_MIN <= a**b <= oc.I64_MAX else OVF
    return None


# The evaluator computes checked_pow(a, b as u32): make the cast visible in the table by evaluating the arm's own
# expression.  outcome_table() evaluates `(a.checked_pow(b as u32) matches Some)` exactly, including the wrap.


@rule("OP-CAST", ["C15"], "operand-derived integers are narrowed only under a dominating range check")
def op_cast(ctx, r):
    arms = _arms(ctx, r)
    if arms is None:
        return
    n = 0
    for v, arm, an in arms:
        for ev in an.events:
            if ev.kind != "mcall":
                continue
            m, recv, args = ev.data
            for a in args:
                for t in subterms(a):
                    if t[0] == "cast" and t[1] in ("u32", "u16", "u8", "i32", "i16", "i8") and is_operand_derived(t[2]) and oc.atom_kind(root_operand(t[2])) == "i64":
                        n += 1
                        ok = cast_guarded(t, ev.conds)
                        r.ob(
                            ok,
                            f"vm.rs:step:{v}:{m}:narrowing-cast-{t[1]}",
                            VM,
                            ev.line,
                            f"arm {v}: `{sshow(t)}` truncates a 64-bit operand before `{m}` with no dominating range check (e.g. 4294967298 becomes 2)",
                            sample=f"{v}: cast {sshow(t)} guarded",
                        )
    r.count("narrowing casts feeding semantic ops", n, None, VM)
    r.instances["arms scanned"] = len(arms)


def root_operand(s):
    for t in subterms(s):
        if t[0] in ("opnd", "imm", "stk"):
            return t
    return s


def cast_guarded(cast, conds):
    if not conds:
        return False
    try:
        atoms = oc.collect_atoms([c for c, _ in conds] + [cast[2]])
        for env in oc.assignments(atoms):
            if oc.holds(conds, env):
                v = oc.evaluate(cast[2], env)
                if oc.evaluate(cast, env) != v:
                    return False
        return True
    except oc.Unknown:
        return False


PARTIAL_EXCEPTIONS = {
    # (variant, what): reason -- invariants of the compiler / runtime, not of operand data
    ("CallFuncObj", "unwrap"): "closure objects are built only by MakeClosure(n) with n+1 fields, the first being the address",
    ("SpawnTask", "unwrap"): "send fails only if the Runtime (owner of the receiver and of this thread) is gone",
}


@rule("OP-PARTIAL", ["C01", "C26"], "host-panic-capable operations on operand data are dominated by an exact definedness guard")
def op_partial(ctx, r):
    arms = _arms(ctx, r)
    if arms is None:
        return
    n_data = 0
    n_inv = 0
    seen_variants = set()
    for v, arm, an in arms:
        seen_variants.add(v)
        inv = string_invariants(an)
        for ev in an.events:
            if ev.kind == "index":
                base, i = ev.data[0], ev.data[1]
                if not is_operand_derived(base):
                    n_inv += 1
                    continue
                if not is_operand_derived(i) and not any(t[0] == "self" for t in subterms(i)):
                    n_inv += 1  # instruction immediate: compiler invariant
                    continue
                n_data += 1
                ok, why = index_defined(base, i, list(ev.conds) + inv)
                r.ob(
                    ok,
                    f"vm.rs:step:{v}:index:{short(base)}",
                    VM,
                    ev.line,
                    f"arm {v}: `{sshow(base)}[{sshow(i)}]` can be out of range ({why}); a host panic instead of a runtime error",
                    sample=f"{v}: index {short(base)}[{sshow(i)}] in range in every ordering case",
                )
            elif ev.kind == "unwrap":
                x = ev.data[0]
                if not is_operand_derived(x):
                    n_inv += 1
                    continue
                if (v, "unwrap") in PARTIAL_EXCEPTIONS:
                    n_inv += 1
                    r.notes.append(f"{v}: unwrap justified: {PARTIAL_EXCEPTIONS[(v, 'unwrap')]}")
                    continue
                n_data += 1
                if x[0] == "call" and x[1] in ("pop", "last", "first", "pop_front", "pop_back") and not x[3]:
                    base = x[2]
                    ok, why = nonempty_guarded(base, list(ev.conds))
                    r.ob(
                        ok,
                        f"vm.rs:step:{v}:unwrap:{short(base)}.{x[1]}",
                        VM,
                        ev.line,
                        f"arm {v}: `{sshow(x)}.unwrap()` panics the host when `{sshow(base)}` is empty ({why})",
                        sample=f"{v}: {sshow(x)}.unwrap() guarded by non-emptiness",
                    )
                else:
                    r.find(f"vm.rs:step:{v}:unwrap:{short(x)}", VM, ev.line, f"arm {v}: unjustified `unwrap` on operand-derived `{sshow(x)}`")
            elif ev.kind == "hostpanic" and ev.data[0] in ("panic", "unreachable", "unimplemented", "todo"):
                r.find(f"vm.rs:step:{v}:hostpanic", VM, ev.line, f"arm {v}: `{ev.data[0]}!` in an instruction handler")
    r.count("data-dependent partial operations", n_data, 5, VM)
    r.instances["not data-dependent (compiler-invariant) partial operations"] = n_inv
    for need in ("GetIndex", "SetIndex", "ArrayPop"):
        if need not in seen_variants and not r.fixture:
            r.missing(f"vm.rs:step:{need}", VM)


def short(s):
    t = sshow(s)
    for a, b in (("self.string_operand1:string", "a"), ("self.string_operand2:string", "b"), (".as_bytes()", ".bytes")):
        t = t.replace(a, b)
    return t


def len_atom(base):
    return ("call", "len", base, [])


def string_invariants(an):
    """Inductive invariant of resumable string arms: progress index <= operand length (verified by RESUME/STR-CASES)."""
    inv = []
    idxs = set()
    for ev in an.events:
        if ev.kind == "assign" and ev.data[0][0] == "self" and ev.data[0][1].startswith("string_op_index"):
            idxs.add(ev.data[0][1])
    if not idxs:
        return inv
    a = ("acc", "string", ("self", "string_operand1"))
    b = ("acc", "string", ("self", "string_operand2"))
    i1 = ("self", "string_op_index1")
    i2 = ("self", "string_op_index2")
    if "string_op_index2" in idxs:
        inv.append((("bin", "<=", i1, len_atom(a)), True))
        inv.append((("bin", "<=", i2, len_atom(b)), True))
    else:
        inv.append((("bin", "<=", i1, len_atom(a)), True))
        inv.append((("bin", "<=", i1, len_atom(b)), True))
    return inv


def index_defined(base, i, conds):
    try:
        L = len_atom(base)
        atoms = oc.collect_atoms([c for c, _ in conds] + [i, L])
        n = 0
        for env in oc.assignments(atoms):
            if not oc.holds(conds, env):
                continue
            n += 1
            iv = oc.evaluate(i, env)
            lv = oc.evaluate(L, env)
            if not (0 <= iv < lv):
                raw = {k: v for k, v in env.items()}
                return False, f"e.g. {fmt_env(raw)}"
        if n == 0:
            return False, "guard is unsatisfiable in the abstract domain"
        return True, ""
    except oc.Unknown as e:
        return False, f"guard not evaluable: {e}"


def nonempty_guarded(base, conds):
    try:
        L = len_atom(base)
        atoms = oc.collect_atoms([c for c, _ in conds] + [L])
        for env in oc.assignments(atoms):
            if oc.holds(conds, env) and oc.evaluate(L, env) == 0:
                return False, "no guard excludes length 0"
        return True, ""
    except oc.Unknown as e:
        return False, f"guard not evaluable: {e}"


def fmt_env(env):
    return ", ".join(f"{k}={v}" for k, v in sorted(env.items()))


@rule("OP-ORDER", ["C02", "C05"], "every arm reads its last register first; anonymous pops come after register reads")
def op_order(ctx, r):
    arms = _arms(ctx, r)
    if arms is None:
        return
    n = 0
    for v, arm, an in arms:
        seq = []
        for ev in an.events:
            if ev.kind == "read":
                seq.append(("r", ev.data[0]))
            elif ev.kind in ("pop", "popn", "peek"):
                seq.append(("p", None))
        regs = [p for k, p in seq if k == "r"]
        if len(regs) + sum(1 for k, _ in seq if k == "p") < 2 or not regs:
            continue
        n += 1
        ok = all(regs[i] > regs[i + 1] for i in range(len(regs) - 1))
        r.ob(ok, f"vm.rs:step:{v}:register-read-order", VM, arm["l"],
             f"arm {v} reads its registers in order {regs}; operands are pushed left to right, so the last register must be read first",
             sample=f"{v}: reads {regs}")
        # pops after all register reads
        first_pop = next((i for i, (k, _) in enumerate(seq) if k == "p"), None)
        last_read = max((i for i, (k, _) in enumerate(seq) if k == "r"), default=-1)
        if first_pop is not None:
            r.ob(first_pop > last_read, f"vm.rs:step:{v}:pop-before-register-read", VM, arm["l"],
                 f"arm {v} pops an anonymous operand before reading a register operand (a `Top` register would read the wrong slot)")
    r.count("arms with >=2 stack operands", n, 37, VM)


def behaviour(an):
    """Canonical behaviour summary of an arm, operand sources abstracted (stack register vs constant table)."""
    errs = [(kind, cond_show(cs)) for kind, cs, _ in error_exits(an)]
    stores = []
    for ev in an.events:
        if ev.kind == "store":
            stores.append((ev.data[0], sshow(ev.data[1]), cond_show(ev.conds)))
        elif ev.kind == "push":
            stores.append(("push", sshow(ev.data[0]), cond_show(ev.conds)))
    return errs, stores


def imm_pairs(ctx, r):
    """(X, XImm, kind) pairs from optimize_bytecode.rs replace_second_arg_imm_{int,float}, as VM variant names."""
    items = ctx.file_items("abra_core/src/optimize_bytecode.rs")
    if items is None:
        r.missing("optimize_bytecode.rs")
        return []
    pairs = []
    for fname, kind in (("replace_second_arg_imm_int", "int"), ("replace_second_arg_imm_float", "float")):
        f = q.find_fn(items, fname)
        if f is None:
            r.missing(fname, "abra_core/src/optimize_bytecode.rs")
            continue
        for m in q.walk(f["body"]):
            if m["k"] != "Match":
                continue
            for arm in m["arms"]:
                heads = q.pat_heads(arm["pat"])
                if heads == ["_"]:
                    continue
                tgt = None
                for x in q.walk(arm["body"]):
                    if x["k"] == "Call" and x["f"]["k"] == "Path" and x["f"]["p"].startswith("Instr::"):
                        tgt = q.last_seg(x["f"]["p"])
                        break
                if tgt:
                    for h in heads:
                        pairs.append((q.last_seg(h), tgt, kind))
    return pairs


def asm_to_vm(ctx, r):
    """assembly Instr variant -> VM Instr variant, from instr_to_vminstr."""
    items = ctx.file_items("abra_core/src/assembly.rs")
    if items is None:
        r.missing("assembly.rs")
        return {}
    f = q.find_fn(items, "instr_to_vminstr")
    if f is None:
        r.missing("instr_to_vminstr", "abra_core/src/assembly.rs")
        return {}
    mp = {}
    for m in q.walk(f["body"]):
        if m["k"] != "Match":
            continue
        for arm in m["arms"]:
            for h in q.pat_heads(arm["pat"]):
                if not h.startswith("Instr::"):
                    continue
                for x in q.walk(arm["body"]):
                    p = None
                    if x["k"] == "Call" and x["f"]["k"] == "Path" and x["f"]["p"].startswith("VmInstr::"):
                        p = x["f"]["p"]
                    elif x["k"] == "Path" and x["p"].startswith("VmInstr::"):
                        p = x["p"]
                    elif x["k"] == "Struct" and x["p"].startswith("VmInstr::"):
                        p = x["p"]
                    if p:
                        mp.setdefault(q.last_seg(h), q.last_seg(p))
                        break
    return mp


@rule("IMM-SIBLING", ["C05", "C15", "C16", "C24"], "X and XImm arms agree on operations, guards and error kinds; only the source of operand 2 differs")
def imm_sibling(ctx, r):
    arms = _arms(ctx, r)
    if arms is None:
        return
    by = {v: (arm, an) for v, arm, an in arms}
    pairs = imm_pairs(ctx, r)
    a2v = asm_to_vm(ctx, r)
    r.count("imm pairs", len(pairs), 22, "abra_core/src/optimize_bytecode.rs")
    for x, ximm, kind in pairs:
        vx, vi = a2v.get(x), a2v.get(ximm)
        if vx is None or vi is None or vx not in by or vi not in by:
            r.missing(f"pair:{x}->{ximm}", "abra_core/src/assembly.rs", "variant not mapped to a VM arm")
            continue
        bx, bi = behaviour(by[vx][1]), behaviour(by[vi][1])
        line = by[vi][0]["l"]
        # the imm arm must read operand 2 from the table of its kind
        tables = {t[2] for ev in by[vi][1].events for d in vmsig.ev_syms(ev) for t in subterms(d) if t[0] == "imm"}
        want = "int_constants" if kind == "int" else "float_constants"
        r.ob(tables == {want}, f"vm.rs:step:{vi}:constant-table", VM, line, f"arm {vi} reads {sorted(tables)}; the optimiser stores its operand in {want}")
        if bx == bi:
            r.ob(True, f"vm.rs:step:{vx}~{vi}", VM, line, "", sample=f"{vx} ~ {vi}: stores {bx[1]} errors {bx[0]}")
            continue
        # not textually equal: compare exact outcome tables when evaluable
        try:
            so_x, so_i = semop(by[vx][1]), semop(by[vi][1])
            ax, tx = outcome_table(by[vx][1], atoms_from=so_x[1] if so_x else [])
            ai, ti = outcome_table(by[vi][1], atoms_from=so_i[1] if so_i else [])
            same_tables = tx == ti
        except oc.Unknown:
            same_tables = False
            tx = ti = {}
        stores_same = [s[:2] for s in bx[1]] == [s[:2] for s in bi[1]]
        if same_tables and stores_same and tx:
            r.ob(True, f"vm.rs:step:{vx}~{vi}", VM, line, "", sample=f"{vx} ~ {vi}: equal outcome tables ({len(tx)} cases)")
            continue
        what = []
        ex = sorted({k for k, _ in bx[0]})
        ei = sorted({k for k, _ in bi[0]})
        if not same_tables:
            diff = [(dict(k), tx[k], ti.get(k)) for k in tx if ti.get(k) != tx[k]][:1]
            what.append(f"error behaviour differs: {vx} exits {bx[0]}, {vi} exits {bi[0]}" + (f"; e.g. {fmt_env(diff[0][0])}: {fmt_out(diff[0][1])} vs {fmt_out(diff[0][2]) if diff[0][2] else '?'}" if diff else ""))
        if not stores_same:
            what.append(f"stored value differs: {bx[1]} vs {bi[1]}")
        r.find(f"vm.rs:step:{vx}~{vi}:{'guards' if not same_tables else 'value'}", VM, line, "; ".join(what), {"errors_x": ex, "errors_imm": ei})


FLOAT_PREDS = {"is_lt", "is_le", "is_gt", "is_ge", "is_eq", "is_ne"}


@rule("FLOAT-ORDER", ["C16", "C24"], "float comparisons and equality use the one total order (total_cmp), operands in order")
def float_order(ctx, r):
    arms = _arms(ctx, r)
    if arms is None:
        return
    n = 0
    for v, arm, an in arms:
        so = semop(an)
        if so is None:
            continue
        op, args = so
        fl = [a for a in args if a[0] in ("opnd", "imm") and oc.atom_kind(a) == "f64"]
        if len(fl) < 2:
            continue
        if op in ("<", "<=", ">", ">=", "==", "!=", "lt", "le", "gt", "ge", "eq", "ne", "partial_cmp"):
            n += 1
            r.find(f"vm.rs:step:{v}:partial-float-compare", VM, arm["l"], f"arm {v} compares floats with the partial IEEE `{op}`; the other comparison arms use total_cmp, so NaN/-0.0 would order inconsistently")
        elif op.startswith("total_cmp."):
            n += 1
            pos = [a[1] for a in args]
            r.ob(pos == sorted(pos), f"vm.rs:step:{v}:operand-order", VM, arm["l"], f"arm {v}: total_cmp applied to operands in order {pos}", sample=f"{v}: {op}{pos}")
    r.count("float comparison arms", n, 10, VM)


@rule("ERR-STOPS", ["C11", "C10", "C15"], "an instruction that records a runtime error ends the step at once with `false`: nothing is pushed or stored on that path and the thread does not run on")
def err_stops(ctx, r):
    arms = _arms(ctx, r)
    if arms is None:
        return
    n = 0
    for v, arm, an in arms:
        evs = an.events
        for i, ev in enumerate(evs):
            if not (ev.kind == "assign" and ev.data[0] == ("self", "error") and "error" in str(ev.data[1])):
                continue
            n += 1
            C = tuple(ev.conds)
            verdict = None
            for later in evs[i + 1:]:
                lc = tuple(later.conds)
                if lc != C[: len(lc)]:
                    continue  # not on every error path (another branch)
                if later.kind == "ret":
                    verdict = "stops" if later.data == ("lit", "false") else f"returns {later.data}"
                    break
                if later.kind in ("push", "store", "settop", "localstore", "popn", "pop") or (later.kind == "assign" and later.data[0] == ("self", "pc")):
                    verdict = f"goes on to `{later.kind}`"
                    break
            if verdict is None:
                verdict = "reaches the end of the arm (the step reports success)"
            kind = str(ev.data[1])
            r.ob(verdict == "stops", f"vm.rs:step:{v}:error-path-continues", VM, ev.line if hasattr(ev, "line") else arm["l"],
                 f"arm {v}: after recording {kind} the arm {verdict}. The thread is stopped only by the caller looking at the error before the next instruction; a run loop that executes several instructions per turn keeps executing the failed program (its later output appears, or it finishes 'successfully'), so what the user sees depends on the step budget",
                 sample=f"{v}: error recorded, `return false` next")
    r.count("error-recording paths in step arms", n, 15, VM)


_FCONST = {"EPSILON": 2.220446049250313e-16, "MIN_POSITIVE": 2.2250738585072014e-308, "MAX": 1.7976931348623157e308, "MIN": -1.7976931348623157e308,
           "INFINITY": float("inf"), "NEG_INFINITY": float("-inf"), "NAN": float("nan")}


def _feval(t, env):
    """Evaluate a guard term over floats with the divisor bound in env; raises ValueError for anything not understood."""
    import math

    if not isinstance(t, tuple):
        raise ValueError(str(t))
    k = t[0]
    for key, val in env:
        if t == key:
            return val
    if k == "lit":
        s = str(t[1])
        if s in ("true", "false"):
            return s == "true"
        if "::" in s and s.split("::")[-1] in _FCONST:
            return _FCONST[s.split("::")[-1]]
        try:
            return float(s.replace("_", "").rstrip("f64").rstrip("f32") or "x")
        except ValueError:
            raise ValueError(s)
    if k == "un" and t[1] == "!":
        return not _feval(t[2], env)
    if k == "un" and t[1] == "-":
        return -_feval(t[2], env)
    if k == "bin":
        op = t[1]
        if op == "&&":
            return _feval(t[2], env) and _feval(t[3], env)
        if op == "||":
            return _feval(t[2], env) or _feval(t[3], env)
        a, b = _feval(t[2], env), _feval(t[3], env)
        return {"==": a == b, "!=": a != b, "<": a < b, "<=": a <= b, ">": a > b, ">=": a >= b}[op]
    if k == "call" and len(t) >= 3:
        x = _feval(t[2], env)
        m = t[1]
        if m == "abs":
            return abs(x)
        if m == "is_nan":
            return math.isnan(x)
        if m == "is_finite":
            return math.isfinite(x)
        if m == "is_infinite":
            return math.isinf(x)
        if m == "is_sign_negative":
            return math.copysign(1.0, x) < 0
        if m == "is_normal":
            return x != 0 and math.isfinite(x) and abs(x) >= _FCONST["MIN_POSITIVE"]
        if m == "classify":
            raise ValueError("classify")
    raise ValueError(sshow(t) if "sshow" in globals() else str(t))


@rule("FLOAT-DIV-ZERO", ["C16", "C15", "C05"], "float division reports `division by zero` exactly for a zero divisor (either sign) and yields the IEEE quotient for every other divisor, however small")
def float_div_zero(ctx, r):
    arms = _arms(ctx, r)
    if arms is None:
        return
    n = 0
    samples = [0.0, -0.0, 5e-324, -5e-324, 1e-300, 1e-19, -1e-19, 2.220446049250313e-16, 1.0, -1.0, 1e300, float("inf"), float("-inf"), float("nan")]
    for v, arm, an in arms:
        stores = [ev for ev in an.events if ev.kind == "store" and isinstance(ev.data[1], tuple) and ev.data[1][0] == "bin" and ev.data[1][1] == "/"]
        if not stores:
            continue
        div = stores[0].data[1][3]
        if not (isinstance(div, tuple) and div[0] in ("opnd", "imm") and ("float" in str(div))):
            continue
        n += 1
        errs = [ev for ev in an.events if ev.kind == "assign" and ev.data[0] == ("self", "error") and "DivisionByZero" in str(ev.data[1])]
        if not errs:
            r.find(f"vm.rs:step:{v}:no-division-by-zero-error", VM, arm["l"], f"arm {v} divides floats without reporting a zero divisor")
            continue
        bad = None
        try:
            for x in samples:
                env = [(div, x)]
                raised = any(all(bool(_feval(c, env)) == pol for c, pol in ev.conds) for ev in errs)
                if raised != (x == 0.0):
                    bad = (x, raised)
                    break
        except (ValueError, KeyError, TypeError, OverflowError) as e:
            r.missing(f"vm.rs:step:{v}:division-guard-form", VM, f"cannot evaluate the guard of the division-by-zero error: {e}")
            continue
        r.ob(bad is None, f"vm.rs:step:{v}:zero-divisor-guard", VM, arm["l"],
             f"arm {v}: for the divisor {bad[0] if bad else ''} the arm {'reports division by zero' if bad and bad[1] else 'divides'}; only a divisor equal to zero is an error, and the constant fold of `lit / lit` tests exactly that, so the literal form and the variable form of one division disagree",
             sample=f"{v}: division by zero iff divisor == 0.0 ({len(samples)} representative divisors)")
    r.count("float division arms", n, 2, VM)

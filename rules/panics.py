"""Front-end panic discipline beyond visitor totality: INDEX-LIT, SENTINEL-ARITH (C04, C34)."""
from lib import synq as q
from lib.core import rule

FRONT = [
    "abra_core/src/parse.rs",
    "abra_core/src/parse/lexer.rs",
    "abra_core/src/statics.rs",
    "abra_core/src/statics/resolve.rs",
    "abra_core/src/statics/typecheck.rs",
    "abra_core/src/statics/pat_exhaustiveness.rs",
    "abra_core/src/lsp_helper.rs",
]


def _walk_own(n):
    """walk, but do not descend into nested items (inner fns have their own variables)"""
    if isinstance(n, dict):
        if n.get("k") == "ItemStmt":
            return
        if "k" in n:
            yield n
        for key, v in n.items():
            if key != "inl" and isinstance(v, (dict, list)):
                yield from _walk_own(v)
    elif isinstance(n, list):
        for x in n:
            yield from _walk_own(x)


def _fns(ctx, r):
    for file in FRONT:
        items = ctx.file_items(file)
        if items is None:
            r.missing(file)
            continue
        for f, _ in q.iter_items(items):
            if f["k"] == "Fn" and f.get("body") is not None:
                yield file, f


@rule("INDEX-LIT", ["C04", "C34"], "the type-argument list of a nominal type comes from what the user wrote and may be shorter than expected: the checker never indexes it with a constant without a length test")
def index_lit(ctx, r):
    n_lists = 0
    for file, f in _fns(ctx, r):
        short = file.split("/")[-1]
        # names bound to the argument list of a `..Nominal(.., args)` pattern, with the node they scope over
        scopes = []
        for x in q.walk(f["body"]):
            pats = []
            if x["k"] == "Arm":
                pats.append((x["pat"], x["body"], x.get("guard")))
            elif x["k"] == "If" and x["c"]["k"] == "Let":
                pats.append((x["c"]["pat"], x["t"], None))
            elif x["k"] == "Let":
                pats.append((x["pat"], None, None))
            elif x["k"] == "Local" and x.get("init") is not None:
                pats.append((x["pat"], None, None))
            for pat, body, guard in pats:
                for p in q.walk(pat):
                    if p["k"] == "PTupleStruct" and q.last_seg(p["p"]) == "Nominal" and p["elems"]:
                        last = p["elems"][-1]
                        for b in q.pat_bindings(last):
                            scopes.append((b, body if body is not None else f["body"], x))
        n_lists += len(scopes)
        for name, body, origin in scopes:
            for y in q.walk(body):
                if y["k"] == "Index" and y["e"]["k"] == "Path" and y["e"]["p"] == name and y["i"]["k"] == "Lit" and y["i"].get("t") == "int":
                    # a length test on the same list anywhere between the binding and the use (condition of an enclosing if / let-chain)
                    guarded = False
                    for c in q.walk(body):
                        if c["k"] in ("If", "While") and any(z is y for z in q.walk(c.get("t") or c.get("body") or {"k": "Lit"})):
                            ctext = q.show(c["c"]).replace(" ", "")
                            if f"{name}.len()" in ctext or f"{name}.is_empty()" in ctext or f"{name}.first()" in ctext:
                                guarded = True
                    r.ob(guarded, f"{short}:{f['name']}:{name}[{y['i']['v']}]:unchecked-type-argument", file, y["l"],
                         f"{f['name']}: `{name}[{y['i']['v']}]` indexes the type arguments of a nominal type without a length test; an annotation such as `array` written without its element type has none, and the checker panics instead of reporting",
                         sample=f"{f['name']}: {name}[{y['i']['v']}] under a length test")
    r.count("type-argument lists bound by pattern in the front end", n_lists, 20, "abra_core/src/statics/typecheck.rs")


@rule("SENTINEL-ARITH", ["C04", "C34"], "a variable that starts as the MAX sentinel of a min-reduction never enters plain + - * arithmetic")
def sentinel_arith(ctx, r):
    n = 0
    for file, f in _fns(ctx, r):
        short = file.split("/")[-1]
        seeds = set()
        for x in _walk_own(f["body"]):
            if x["k"] == "Local" and x.get("init") is not None and x["init"]["k"] == "Path" and x["init"]["p"].endswith("::MAX"):
                seeds |= set(q.pat_bindings(x["pat"]))
        if not seeds:
            continue
        n += len(seeds)
        for y in _walk_own(f["body"]):
            if y["k"] == "Binary" and y["op"] in ("+", "-", "*", "+=", "-=", "*="):
                for side in (y["a"], y["b"]):
                    if side["k"] == "Path" and side["p"] in seeds:
                        r.find(f"{short}:{f['name']}:{side['p']}:sentinel-in-arithmetic", file, y["l"],
                               f"{f['name']}: `{q.show(y)[:80]}` uses `{side['p']}`, which starts as the MAX sentinel of a min-reduction and keeps that value when nothing is reduced (e.g. a multi-line string whose later lines are all empty): the addition overflows and panics in debug builds; use saturating arithmetic or test for the sentinel")
        r.ob(True, "", file, f["l"], "", sample=f"{f['name']}: sentinel variable(s) {sorted(seeds)} stay out of plain arithmetic")
    r.count("MAX-sentinel variables in the front end", n, 1, "abra_core/src/parse/lexer.rs")


@rule("INDEX-OWN-BOUND", ["C04", "C34", "C18"], "a subscript that is range-tested is tested against the length of the table it indexes, not against a count that merely coincides with it for well-formed input")
def index_own_bound(ctx, r):
    n = 0
    for file, f in _fns(ctx, r):
        short = file.split("/")[-1]
        for c in _walk_own(f["body"]):
            if c["k"] != "If":
                continue
            cond = c["c"]
            cmps = [y for y in q.walk(cond) if y["k"] == "Binary" and y["op"] in ("<", "<=", ">", ">=")]
            for cmpn in cmps:
                lo, hi = (cmpn["a"], cmpn["b"]) if cmpn["op"] in ("<", "<=") else (cmpn["b"], cmpn["a"])
                if lo["k"] != "Path":
                    continue
                iv = lo["p"]
                for y in q.walk(c["t"]):
                    if y["k"] != "Index":
                        continue
                    idx = y["i"]
                    while idx["k"] in ("Cast", "Paren"):
                        idx = idx["e"]
                    if not (idx["k"] == "Path" and idx["p"] == iv):
                        continue
                    base = q.show(y["e"])
                    n += 1
                    bound = q.show(hi).replace(" ", "")
                    own = base.replace(" ", "") in bound and ("len()" in bound or "len" in bound)
                    r.ob(own, f"{short}:{f['name']}:{base}[{iv}]:tested-against-another-count", file, y["l"],
                         f"{f['name']}: `{base}[{q.show(y['i'])}]` is range-tested with `{q.show(cmpn)}`: the bound is not the length of `{base}`. The two agree for well-formed input only (e.g. a set of parameter *names* is shorter than the parameter list when a name is repeated), and the subscript panics on the rest",
                         sample=f"{f['name']}: {base}[{iv}] under {q.show(cmpn)}")
    r.count("range-tested subscripts in the front end", n, 2, "abra_core/src/statics/resolve.rs")


ERR = "abra_core/src/statics/error.rs"


@rule("DIAG-TOTAL", ["C04", "C34"], "rendering a diagnostic never panics: a diverging arm in the renderer is only reachable for variants that an earlier guard has already handled and returned for")
def diag_total(ctx, r):
    items = ctx.file_items(ERR)
    if items is None:
        r.missing(ERR)
        return
    fns = {f["name"]: f for f, _ in q.iter_items(items) if f["k"] == "Fn" and f.get("body") is not None}
    n = 0
    for name, f in fns.items():
        for m in q.walk(f["body"]):
            if m["k"] != "Match":
                continue
            div = []
            for a in m["arms"]:
                if q.only_diverges(a["body"]):
                    div += [q.last_seg(h) for h in q.pat_heads(a["pat"]) if h != "_"]
                    if "_" in q.pat_heads(a["pat"]):
                        div.append("_")
            if not div:
                continue
            n += 1
            scrut = q.show(m["e"]).lstrip("&*")
            # guards before the match: `if g(.., scrut, ..) { return .. }` at the top level of the function
            handled = set()
            for s_ in f["body"]["stmts"]:
                if any(y is m for y in q.walk(s_)):
                    break
                e = s_.get("e") if s_["k"] == "ExprStmt" else None
                if e is not None and e["k"] == "If" and any(y["k"] == "Return" for y in q.walk(e["t"])):
                    for c in q.walk(e["c"]):
                        if c["k"] == "Call" and c["f"]["k"] == "Path" and c["f"]["p"] in fns and any(q.show(a).lstrip("&*") == scrut for a in c["args"]):
                            g = fns[c["f"]["p"]]
                            tail = g["body"]["stmts"][-1] if g["body"]["stmts"] else None
                            tail_true = tail is not None and tail["k"] == "ExprStmt" and q.show(tail["e"]) == "true"
                            for gm in q.walk(g["body"]):
                                if gm["k"] == "Match":
                                    for ga in gm["arms"]:
                                        falls = any(y["k"] == "Return" and y.get("e") is not None and q.show(y["e"]) == "false" for y in q.walk(ga["body"]))
                                        if tail_true and not falls:
                                            handled |= {q.last_seg(h) for h in q.pat_heads(ga["pat"])}
                                    break
            left = sorted(set(div) - handled)
            r.ob(not left, f"error.rs:{name}:{'+'.join(left)[:60]}:renderer-panics", ERR, m["l"],
                 f"{name}: the arm(s) for {left} of `match {scrut}` diverge, and nothing before the match returns for them: a diagnostic that mentions such a declaration (a name clash with an import alias, a duplicated `outputtype`) makes the renderer - and with it `errors()` of the editor analysis and the CLI - panic instead of printing",
                 sample=f"{name}: diverging arms {sorted(set(div))} are unreachable behind an earlier returning guard")
    r.count("renderer matches with diverging arms", n, 1, ERR)


@rule("SPAN-SUBSCRIPT", ["C04", "C34"], "a table subscripted with a span endpoint recorded earlier (by another pass, for any input) is subscripted through a clamp or after a range test against that table")
def span_subscript(ctx, r):
    n = 0
    for file, f in _fns(ctx, r):
        short = file.split("/")[-1]
        for y in _walk_own(f["body"]):
            if y["k"] != "Index":
                continue
            ends = [z for z in q.walk(y["i"]) if z["k"] == "Field" and z["f"] in ("lo", "hi")]
            if not ends:
                continue
            n += 1
            base = q.show(q.strip_refs(y["e"]))
            clamped = all(_clamped(y["i"], z) for z in ends)
            tested = False
            conds = q.path_conds(f["body"], y) or []
            for c, pol in q.cond_atoms(conds):
                if pol and c["k"] == "Binary" and c["op"] in ("<", "<=") and any(q.show(z) in q.show(c["a"]) for z in ends) and base in q.show(c["b"]) and "len" in q.show(c["b"]):
                    tested = True
            r.ob(clamped or tested, f"{short}:{f['name']}:{base}[{'/'.join(sorted({z['f'] for z in ends}))}]:unclamped-span-endpoint", file, y["l"],
                 f"{f['name']}: `{q.show(y)}` subscripts `{base}` with a span endpoint that was recorded while scanning; the scanner can leave its position past the end of the text (a source ending inside `/* ..` is stepped over as if the closing `*/` were there), so the endpoint can exceed the table and the subscript panics on that input. The endpoint must go through `.min(<last index>)` or a test against `{base}.len()`",
                 sample=f"{f['name']}: {q.show(y)}")
    r.count("subscripts by span endpoints", n, 2, "abra_core/src/parse/lexer.rs")


def _clamped(idx, end):
    """Is the span endpoint `end`, inside the subscript expression `idx`, the receiver of a `.min(..)` (or an argument of `min`)?"""
    for x in q.walk(idx):
        if x["k"] == "MethodCall" and x["m"] in ("min", "clamp") and any(z is end for z in q.walk(x["recv"])):
            return True
        if x["k"] == "Call" and q.last_seg(q.show(x["f"])) == "min" and any(z is end for a in x["args"] for z in q.walk(a)):
            return True
    return False


@rule("LOOP-VERDICT", ["C03", "C04", "C12"], "a yes/no answer computed by a loop over several requirements depends on all of them: the flag is joined with its previous value (or the loop leaves at the first decisive element), never plainly overwritten per element")
def loop_verdict(ctx, r):
    n = 0
    files = FRONT + ["abra_core/src/translate_bytecode.rs"]
    for file in files:
        items = ctx.file_items(file)
        if items is None:
            r.missing(file)
            continue
        short = file.split("/")[-1]
        for f, _ in q.iter_items(items):
            if f["k"] != "Fn" or f.get("body") is None:
                continue
            flags = {}
            for x in _walk_own(f["body"]):
                if x["k"] == "Local" and x.get("init") is not None and x["init"]["k"] == "Lit" and x["init"].get("t") == "bool" and x["pat"].get("k") == "PIdent" and x["pat"].get("mut"):
                    flags[x["pat"]["name"]] = x
            if not flags:
                continue
            for lp in _walk_own(f["body"]):
                if lp["k"] not in ("For", "While"):
                    continue
                for a in _walk_own(lp["body"]):
                    is_assign = a["k"] == "Assign" and a["a"]["k"] == "Path" and a["a"]["p"] in flags
                    if not is_assign:
                        continue
                    v = a["a"]["p"]
                    if flags[v]["l"] > lp["l"]:
                        continue  # declared inside the loop: a per-element value
                    n += 1
                    rhs = a["b"]
                    constant = rhs["k"] == "Lit"
                    joined = v in q.idents_in(rhs)
                    # the loop is left in the same block right after the assignment, possibly under a test of the flag
                    leaves = False
                    for blk in _walk_own(lp["body"]):
                        if blk["k"] == "Block" and any(s is a or (s.get("e") is a) for s in blk["stmts"]):
                            idx = next(i for i, s in enumerate(blk["stmts"]) if s is a or s.get("e") is a)
                            for s in blk["stmts"][idx + 1:]:
                                if any(y["k"] in ("Break", "Return") for y in _walk_own(s)):
                                    leaves = True
                    r.ob(constant or joined or leaves, f"{short}:{f['name']}:{v}:overwritten-per-element", file, a["l"],
                         f"{f['name']}: `{v} = {q.show(rhs)[:80]}` inside `{'for ' + q.show_pat(lp['pat']) + ' in ' + q.show(lp['e'])[:50] if lp['k'] == 'For' else 'while ' + q.show(lp['c'])[:50]}` replaces the verdict on every element, so only the last element decides (with two interface bounds on a type parameter, a type that satisfies the last one only is accepted and the code generator then finds no implementation); join it (`{v} = {v} && ..`) or leave the loop at the first failure",
                         sample=f"{f['name']}: flag `{v}` {'set to a constant' if constant else 'joined with its previous value' if joined else 'decides and leaves'} in a loop")
    r.count("boolean flags assigned inside loops", n, 4, "abra_core/src")


@rule("MAP-SUBSCRIPT", ["C04", "C34"], "a table of the checker's context that some code reads as possibly lacking the key (`.get`) is not subscripted elsewhere as if the key were always there")
def map_subscript(ctx, r):
    files = FRONT + [ERR]
    st = q.find_struct(ctx.file_items("abra_core/src/statics.rs") or [], "StaticsContext")
    if st is None:
        r.missing("StaticsContext", "abra_core/src/statics.rs")
        return
    maps = [fl["name"] for fl in st["fields"] if fl["ty"].replace(" ", "").startswith("HashMap<")]
    r.count("tables of the checker's context", len(maps), 10, "abra_core/src/statics.rs")
    gets, subs = {}, {}
    for file in files:
        items = ctx.file_items(file)
        if items is None:
            r.missing(file)
            continue
        for f, _ in q.iter_items(items):
            if f["k"] != "Fn" or f.get("body") is None:
                continue
            for x in q.walk(f["body"]):
                if x["k"] == "Index" and q.strip_refs(x["e"])["k"] == "Field" and q.strip_refs(x["e"])["f"] in maps:
                    subs.setdefault(q.strip_refs(x["e"])["f"], []).append((file, f, x))
                if x["k"] == "MethodCall" and x["m"] in ("get", "get_mut") and q.strip_refs(x["recv"])["k"] == "Field" and q.strip_refs(x["recv"])["f"] in maps:
                    gets.setdefault(q.strip_refs(x["recv"])["f"], []).append((file, f, x))
    n = 0
    for m in maps:
        for file, f, x in subs.get(m, []):
            n += 1
            other = gets.get(m, [])
            guarded = any(c["k"] == "MethodCall" and c["m"] == "contains_key" and q.strip_refs(c["recv"])["k"] == "Field" and q.strip_refs(c["recv"])["f"] == m for c in q.walk(f["body"]))
            r.ob(not other or guarded, f"{file.split('/')[-1]}:{f['name']}:{m}[..]:subscript-of-a-partial-table", file, x["l"],
                 f"{f['name']}: `{q.show(x)[:70]}` subscripts `{m}`, which {other[0][1]['name'] if other else '?'} reads with `.get(..)` because the key may be absent (e.g. an interface nobody implements has no entry): one of the two is wrong, and the subscript panics the checker on that input",
                 sample=f"{f['name']}: {m}[..] (table never read as partial)")
        if m in gets and m not in subs:
            r.ob(True, "", "abra_core/src/statics.rs", 0, "", sample=f"{m}: read with .get only ({len(gets[m])} sites)")
    r.count("tables read in the front end", len(set(gets) | set(subs)), 8, "abra_core/src/statics.rs")


@rule("BYTE-AS-CHAR", ["C34", "C17", "C04"], "a single byte of UTF-8 text is never turned into a char (`text.as_bytes()[i] as char`): for non-ASCII text that is another character, classification by it stops inside a multi-byte character and the slice that follows panics")
def byte_as_char(ctx, r):
    files = FRONT + ["abra_core/src/lib.rs", "abra_core/src/vm.rs", "abra_core/src/translate_bytecode.rs"]
    n = 0
    for file in files:
        items = ctx.file_items(file)
        if items is None:
            r.missing(file)
            continue
        short = file.split("/")[-1]
        for f, _ in q.iter_items(items):
            if f["k"] != "Fn" or f.get("body") is None:
                continue

            def text_byte(e):
                """is the expression one byte read out of a string's bytes?"""
                for y in q.walk(e):
                    if y["k"] == "Index" and any(z["k"] == "MethodCall" and z["m"] in ("as_bytes", "bytes") for z in q.walk(y["e"])):
                        return True
                    if y["k"] == "MethodCall" and y["m"] in ("get", "nth") and any(z["k"] == "MethodCall" and z["m"] in ("as_bytes", "bytes") for z in q.walk(y["recv"])):
                        return True
                return False

            byte_locals = {b for l in _walk_own(f["body"]) if l["k"] == "Local" and l.get("init") is not None and text_byte(l["init"]) and not any(c["k"] == "Cast" for c in q.walk(l["init"])) for b in q.pat_bindings(l["pat"])}
            for x in _walk_own(f["body"]):
                if x["k"] == "Index" and any(z["k"] == "MethodCall" and z["m"] in ("as_bytes", "bytes") for z in q.walk(x["e"])):
                    n += 1
                if x["k"] == "Cast" and x.get("ty", "").strip() == "char":
                    src = x["e"]
                    bad = text_byte(src) or (q.strip_refs(src)["k"] == "Path" and q.strip_refs(src)["p"] in byte_locals)
                    if bad:
                        r.find(f"{short}:{f['name']}:text-byte-cast-to-char", file, x["l"],
                               f"{f['name']}: `{q.show(x)[:80]}` turns one byte of UTF-8 text into a char: a continuation byte such as 0xAA becomes the letter U+00AA, so scanning by `is_alphanumeric` stops in the middle of a multi-byte character (the slice taken there panics: 'not a char boundary'), and copying text this way re-encodes every non-ASCII byte as two")
    r.count("bytes read out of text", n, 2, "abra_core/src")

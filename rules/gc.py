"""GC / ownership group: GC-BARRIER, GC-ALLOC, GC-ROOTS, GC-CHILDREN, GC-TERMINATION, GC-ATOMIC, GC-SWEEP, OWN-LEDGER, CH-*, SPAWN-COPY."""
from lib import synq as q
from lib.inline import walk_inl as W
from lib.core import rule
from lib.vmsig import is_operand_derived, sshow, subterms
from rules.vm_ops import VM, _arms
from rules.vm_state import kind_types

HEAP_MUT_ACCESSORS = {"get_struct_mut", "get_array_mut", "get_channel_mut"}


def type_closure(items, ty, depth=0, seen=None):
    """Text of a type with aliases, structs and enums defined in this file expanded (bounded), to ask 'can it hold X?'."""
    seen = seen if seen is not None else set()
    out = ty
    import re as _re

    for name in set(_re.findall(r"[A-Za-z_][A-Za-z0-9_]*", ty)):
        if name in seen or depth > 4:
            continue
        for it, _ in q.iter_items(items):
            if it["k"] == "TypeAlias" and it["name"] == name:
                seen.add(name)
                out += " " + type_closure(items, it["ty"], depth + 1, seen)
            elif it["k"] == "Enum" and it["name"] == name and name not in ("ValueTag", "ObjectKind", "GcState"):
                seen.add(name)
                for v in it["variants"]:
                    for fl in v["fields"]:
                        out += " " + type_closure(items, fl["ty"], depth + 1, seen)
    return out


def holds_values(items, ty):
    t = type_closure(items, ty).replace("ValueTag", "")
    import re as _re

    return bool(_re.search(r"\bValue\b", t)) or "*mut" in t or "*const" in t


def obj_root(s):
    """The heap object a payload expression belongs to: the ('opnd'|'stk', .., kind) accessed value."""
    for t in subterms(s):
        if t[0] in ("opnd", "stk") and len(t) > 2 and t[2] in ("struct", "array", "channel", "variant"):
            return t
    return None

def gc_roles(items):
    """The collector's data by role, found from types and use rather than from names:
    HEAP  - the Vec<*mut ObjectHeader> of a thread that objects are unlinked from (swap_remove / remove)
    GRAY  - the Vec<*mut ObjectHeader> of a thread that is popped (the marking worklist)
    STATE - the thread field of type GcState
    LIVE  - the thread's bool that header flags are compared with: the mark value meaning "reached"
    MARK  - the header bool that is compared with / assigned from LIVE
    NOGC  - the header's other bool (objects exempt from collection)
    Returns None when a role cannot be told apart."""
    hd = q.find_struct(items, "ObjectHeader")
    # the record that holds the collector's data: the thread itself, or a struct nested in it
    th = None
    for st_, _ in q.iter_items(items):
        if st_["k"] == "StructDef" and sum(1 for fl in st_["fields"] if fl["ty"].replace(" ", "") == "Vec<*mutObjectHeader>") >= 2 and any(fl["ty"].strip() == "GcState" for fl in st_["fields"]):
            th = st_
    if th is None or hd is None:
        return None
    vecs = [fl["name"] for fl in th["fields"] if fl["ty"].replace(" ", "") == "Vec<*mutObjectHeader>"]
    bools = [fl["name"] for fl in th["fields"] if fl["ty"].strip() == "bool"]
    hbools = [fl["name"] for fl in hd["fields"] if fl["ty"].strip() == "bool"]
    state = [fl["name"] for fl in th["fields"] if fl["ty"].strip() == "GcState"]
    popped, unlinked, flipped = set(), set(), set()
    pairs = {}
    gc_fns = [f for f, _ in q.iter_items(items) if f["k"] == "Fn" and f.get("body") is not None]
    for f in gc_fns:
        if f.get("body") is None:
            continue
        for x in q.walk(f["body"]):
            if x["k"] == "MethodCall" and x["recv"]["k"] == "Field" and x["recv"]["f"] in vecs:
                if x["m"] == "pop":
                    popped.add(x["recv"]["f"])
                if x["m"] in ("swap_remove", "remove"):
                    unlinked.add(x["recv"]["f"])
            if x["k"] == "Assign" and x["a"]["k"] == "Field" and x["a"]["f"] in bools and x["b"]["k"] == "Unary" and x["b"]["op"] == "!" and q.show(x["b"]["e"]) == q.show(x["a"]):
                flipped.add(x["a"]["f"])
    # swap_remove may be applied to a local alias of the list (`let list = &mut self.heap_list`)
    if not unlinked:
        for f in gc_fns:
            if f.get("body") is None:
                continue
            alias = {}
            for x in q.walk(f["body"]):
                if x["k"] == "Local" and x.get("init") is not None:
                    for y in q.walk(x["init"]):
                        if y["k"] == "Field" and y["f"] in vecs:
                            for b in q.pat_bindings(x["pat"]):
                                alias[b] = y["f"]
                if x["k"] == "MethodCall" and x["m"] in ("swap_remove", "remove") and q.show(q.strip_refs(x["recv"])).lstrip("*") in alias:
                    unlinked.add(alias[q.show(q.strip_refs(x["recv"])).lstrip("*")])
    if len(popped) != 1 or len(state) != 1:
        return None
    gray = next(iter(popped))
    heap = [v for v in vecs if v != gray]
    if unlinked - {gray}:
        heap = sorted(unlinked - {gray})
    if len(heap) != 1:
        return None
    # the header flag and the thread flag that meet in comparisons / assignments (the thread flag may arrive through a parameter
    # of the same name)
    for f, _ in q.iter_items(items):
        if f["k"] != "Fn" or f.get("body") is None:
            continue
        for x in q.walk(f["body"]):
            if x["k"] in ("Binary", "Assign") and (x["k"] == "Assign" or x["op"] in ("==", "!=")):
                sides = [x["a"], x["b"]]
                for a, b in (sides, sides[::-1]):
                    a0 = q.strip_refs(a)
                    if a0["k"] == "Field" and a0["f"] in hbools:
                        for tb in bools:
                            if tb in q.idents_in(b) | {y["f"] for y in q.walk(b) if y["k"] == "Field"}:
                                pairs[(a0["f"], tb)] = pairs.get((a0["f"], tb), 0) + 1
    if not pairs:
        return None
    mark, live = max(pairs, key=pairs.get)
    nogc = [b for b in hbools if b != mark]
    return {"OWNER": th["name"], "HEAP": heap[0], "GRAY": gray, "STATE": state[0], "LIVE": live, "MARK": mark, "NOGC": nogc[0] if len(nogc) == 1 else None}

def prim_markers(items):
    """Functions that mark a value themselves: they set the header's mark and push the object on a worklist."""
    ro = gc_roles(items)
    out = set()
    if ro is None:
        return {"mark"}
    for f, _ in q.iter_items(items):
        if f["k"] == "Fn" and f.get("body") is not None:
            if any(x["k"] == "Assign" and q.strip_refs(x["a"])["k"] == "Field" and q.strip_refs(x["a"])["f"] == ro["MARK"] for x in q.walk(f["body"])) and any(x["k"] == "MethodCall" and x["m"] == "push" for x in q.walk(f["body"])) and not any(x["k"] == "MethodCall" and x["m"] == "pop" for x in q.walk(f["body"])):
                out.add(f["name"])
    return out or {"mark"}


def is_mark_call(x, prims):
    return (x["k"] == "Call" and x["f"]["k"] == "Path" and q.last_seg(x["f"]["p"]) in prims) or (x["k"] == "MethodCall" and x["m"] in prims)


def gray_scanner(items):
    """The function that takes objects off the gray worklist and scans them (whatever it is called, wherever it lives)."""
    ro = gc_roles(items)
    if ro is None:
        return None
    cands = [f for f, _ in q.iter_items(items) if f["k"] == "Fn" and f.get("body") is not None and any(x["k"] == "MethodCall" and x["m"] == "pop" and q.strip_refs(x["recv"])["k"] == "Field" and q.strip_refs(x["recv"])["f"] == ro["GRAY"] for x in q.walk(f["body"]))]
    return cands[0] if len(cands) == 1 else None


def marking_fns(items):
    """Names of the functions that mark a value: the one that sets the header's mark and pushes it on the worklist, and every
    function that calls one of those (a helper that marks a slice, the root marker, ...)."""
    ro = gc_roles(items)
    out = set()
    fns = [f for f, _ in q.iter_items(items) if f["k"] == "Fn" and f.get("body") is not None and q.fn_owner(items, f) in ("VmGreenThread", (ro or {}).get("OWNER"))]
    for f in fns:
        if ro and any(x["k"] == "Assign" and q.strip_refs(x["a"])["k"] == "Field" and q.strip_refs(x["a"])["f"] == ro["MARK"] for x in q.walk(f["body"])) and any(x["k"] == "MethodCall" and x["m"] == "push" for x in q.walk(f["body"])):
            out.add(f["name"])
    if not out:
        out.add("mark")
    changed = True
    while changed:
        changed = False
        for f in fns:
            if f["name"] in out:
                continue
            if any((x["k"] == "Call" and x["f"]["k"] == "Path" and q.last_seg(x["f"]["p"]) in out) or (x["k"] == "MethodCall" and x["m"] in out and q.show(x["recv"]).split(".")[0] == "self") for x in q.walk(f["body"])):
                out.add(f["name"])
                changed = True
    return out


@rule("GC-BARRIER", ["C06"], "every store of a Value into a heap object's payload is preceded in its arm by write_barrier(parent, value)")
def gc_barrier(ctx, r):
    arms = _arms(ctx, r)
    if arms is None:
        return
    n = 0
    items = ctx.file_items(VM)
    k2t, _ = kind_types(items)
    acc_ty = {"struct": "StructObject", "array": "ArrayObject", "channel": "ChannelObject", "variant": "EnumObject"}
    valueless = set()
    for acc, tyname in acc_ty.items():
        st = q.find_struct(items, tyname)
        if st is not None and tyname != "StructObject" and not any(holds_values(items, fl["ty"]) for fl in st["fields"] if fl["name"] != "header"):
            valueless.add(acc)
    for v, arm, an in arms:
        barriers = [(ev.data[0], ev.data[1], i) for i, ev in enumerate(an.events) if ev.kind == "barrier"]
        for i, ev in enumerate(an.events):
            store = None
            if ev.kind == "assign" and ev.data[0][0] == "idx":
                obj = obj_root(ev.data[0])
                if obj is not None:
                    store = (obj, ev.data[1], "element store")
            elif ev.kind == "mcall" and ev.data[0] in ("push", "insert", "push_back", "write_value", "extend", "push_front"):
                obj = obj_root(ev.data[1])
                if obj is not None and ev.data[2]:
                    store = (obj, ev.data[2][-1], ev.data[0])
            elif ev.kind == "assign" and ev.data[0][0] == "field" and obj_root(ev.data[0]) is not None and ev.data[0][2] in ("val", "data"):
                store = (obj_root(ev.data[0]), ev.data[1], "field store")
            if store is None:
                continue
            obj, val, how = store
            n += 1
            if obj[2] in valueless:
                r.ob(True, "", VM, ev.line, "", sample=f"{v}: {how} into a {obj[2]} object, whose payload type holds no heap Values (owned data): no barrier needed")
                continue
            if any(t[0] == "imm" for t in subterms(val)) and not any(t[0] in ("opnd", "stk") for t in subterms(val)):
                r.ob(True, "", VM, ev.line, "", sample=f"{v}: {how} of an immediate constant (not a pointer): no barrier needed")
                continue
            ok = any(j < i and obj_root(p) == obj and bv == val for p, bv, j in barriers)
            r.ob(ok, f"vm.rs:step:{v}:{how.replace(' ', '-')}:no-write-barrier", VM, ev.line,
                 f"arm {v}: stores `{sshow(val)}` into the payload of `{sshow(obj)}` ({how}) without a preceding write_barrier on that object and value; during marking a white object can become reachable only from a black one and be swept",
                 sample=f"{v}: write_barrier({sshow(obj)}, {sshow(val)}) before the {how}")
    r.count("heap payload stores in step()", n, 5, VM)


GC_STATES = ("Idle", "Marking", "Sweeping")


STATE_FIELD = ["gc_state"]  # set from gc_roles by the rules that evaluate collector-state tests


def state_eval(e, state, lets, depth=0):
    """Evaluate a boolean expression over `vm.gc_state` for one collector state."""
    if e is None or depth > 8:
        raise ValueError("unsupported expression")
    k = e["k"]
    SF = STATE_FIELD[0]
    if k == "Paren":
        return state_eval(e["e"], state, lets, depth + 1)
    if k == "MethodCall" and isinstance(e.get("inl"), dict) and SF in q.show(e["recv"]):
        # a predicate on the state (`fn is_marking(&self) -> bool`) expanded in place
        return state_eval(e["inl"]["body"], state, lets, depth + 1)
    if k == "Lit" and e.get("t") == "bool":
        return e["v"] == "true"
    if k == "Path":
        if e["p"] in lets:
            return state_eval(lets[e["p"]], state, lets, depth + 1)
        raise ValueError("free variable " + e["p"])
    if k == "Unary" and e["op"] == "!":
        return not state_eval(e["e"], state, lets, depth + 1)
    if k == "Binary" and e["op"] in ("&&", "||"):
        a = state_eval(e["a"], state, lets, depth + 1)
        b = state_eval(e["b"], state, lets, depth + 1)
        return (a and b) if e["op"] == "&&" else (a or b)
    if k == "Binary" and e["op"] in ("==", "!="):
        sides = [q.show(e["a"]), q.show(e["b"])]
        st = next((q.last_seg(s.split("{")[0]) for s in sides if "GcState::" in s), None)
        other = next((s for s in sides if "GcState::" not in s), "")
        if st is None or (SF not in other and other.strip("*& ") != "self"):
            raise ValueError("comparison " + q.show(e))
        return (st == state) if e["op"] == "==" else (st != state)
    if k == "Match" and (SF in q.show(e["e"]) or q.show(e["e"]).strip("*& ") == "self"):
        for a in e["arms"]:
            heads = [q.last_seg(h) for h in q.pat_heads(a["pat"])]
            if state in heads or "_" in heads:
                return state_eval(a["body"], state, lets, depth + 1)
        raise ValueError("no arm for " + state)
    if k == "Macro" and e["name"] == "matches" and e.get("pat") is not None and e.get("args") and (SF in q.show(e["args"][0]) or q.show(e["args"][0]).strip("*& ") == "self"):
        return state in [q.last_seg(h) for h in q.pat_heads(e["pat"])]
    if k == "Block" and len(e["stmts"]) == 1 and e["stmts"][0]["k"] == "ExprStmt":
        return state_eval(e["stmts"][0]["e"], state, lets, depth + 1)
    raise ValueError(k)


@rule("GC-ALLOC", ["C06", "C07"], "all object allocators colour the header from gc_state, register the object, shade it when marking and account its size")
def gc_alloc(ctx, r):
    items = ctx.file_items(VM)
    if items is None:
        r.missing("vm.rs")
        return
    n = 0
    ro = gc_roles(items)
    if ro is None or ro["NOGC"] is None:
        r.missing("collector roles (heap list, gray worklist, state, live mark, header mark)", VM)
        return
    STATE_FIELD[0] = ro["STATE"]
    for impl in q.find_impls(items):
        ty = impl["self_ty"]
        if not ty.endswith("Object"):
            continue
        for f in impl["items"]:
            if f["k"] != "Fn":
                continue
            hdr = [x for x in W(f["body"]) if x["k"] == "Struct" and q.last_seg(x["p"]) == "ObjectHeader"]
            if not hdr:
                continue
            takes_vm = any("VmGreenThread" in p.get("ty", "") for p in f["params"])
            if not takes_vm:
                continue  # static allocation: OWN-LEDGER
            n += 1
            key = f"vm.rs:{ty}::{f['name']}"
            # (1) colour: evaluate the `visited` expression in each collector state
            vis = next((fl["e"] for fl in hdr[0]["fields"] if fl["name"] == ro["MARK"]), None)
            if vis is None:
                r.missing(key + ":header-colour:mark-field", VM, f"the header literal does not set `{ro['MARK']}`")
            lets = {b: x["init"] for x in W(f["body"]) if x["k"] == "Local" and x.get("init") is not None for b in q.pat_bindings(x["pat"])}
            try:
                tbl = {st: state_eval(vis, st, lets) for st in GC_STATES} if vis is not None else None
            except ValueError as e:
                tbl = None
                r.missing(key + ":header-colour:form", VM, f"colour expression not evaluable per collector state: {e}")
            ok = tbl == {"Idle": False, "Marking": True, "Sweeping": True}
            if tbl is not None:
                r.ob(ok, key + ":header-colour", VM, f["l"], f"{ty}::{f['name']}: a new object must be white when idle and black while marking or sweeping; header.visited evaluates to {tbl} (an object born white during the sweep is freed by the sweep in progress while still referenced)", sample=f"{ty}::{f['name']}: colour per state {tbl}")
            nogc = next((q.show(fl["e"]) for fl in hdr[0]["fields"] if fl["name"] == ro["NOGC"]), None)
            r.ob(nogc == "false", key + ":no_gc", VM, f["l"], f"{ty}::{f['name']}: a thread-heap object must not be exempt from collection (no_gc = {nogc})")
            # (2) registered
            reg = any(x["k"] == "MethodCall" and x["m"] == "push" and q.show(x["recv"]).endswith("." + ro["HEAP"]) for x in W(f["body"]))
            r.ob(reg, key + ":not-registered", VM, f["l"], f"{ty}::{f['name']}: the object is not pushed to heap_list: it is never swept nor freed on drop")
            # (3) shaded exactly while marking: evaluate the guard of the gray-stack push in each collector state
            shade_tbl = None
            for x in W(f["body"]):
                if x["k"] == "If" and any(y["k"] == "MethodCall" and y["m"] == "push" and q.show(y["recv"]).endswith("." + ro["GRAY"]) for y in W(x["t"])):
                    try:
                        shade_tbl = {st: state_eval(x["c"], st, lets) for st in GC_STATES}
                    except ValueError as e:
                        r.missing(key + ":not-shaded:form", VM, f"shading guard not evaluable: {e}")
                        shade_tbl = "?"
            if shade_tbl != "?":
                r.ob(shade_tbl == {"Idle": False, "Marking": True, "Sweeping": False}, key + ":not-shaded", VM, f["l"],
                     f"{ty}::{f['name']}: an object allocated black during marking must be pushed on the gray stack (exactly then) so its unbarriered initial fields are scanned; the push happens in states {shade_tbl}")
            # (4) accounting
            acc = {q.show(x["a"]).split(".")[-1] for x in W(f["body"]) if x["k"] == "Binary" and x["op"] == "+="}
            # the two ledgers: the owner's usize fields (live size, and the debt that paces the collector)
            ost = q.find_struct(items, ro["OWNER"])
            ledgers = {fl["name"] for fl in (ost["fields"] if ost else []) if fl["ty"].strip() == "usize"}
            r.ob(len(acc & ledgers) >= 2, key + ":accounting", VM, f["l"], f"{ty}::{f['name']}: must add the object's size to the live-size and debt counters of the collector (adds to {sorted(acc)}; counters {sorted(ledgers)})", sample=f"{ty}::{f['name']}: registered, shaded, accounted")
    r.count("thread-heap allocators", n, 5, VM)


@rule("GC-ROOTS", ["C06", "C10", "C17"], "every Value-holding field of a thread is marked by the root-marking routine")
def gc_roots(ctx, r):
    items = ctx.file_items(VM)
    if items is None:
        r.missing("vm.rs")
        return
    st = q.find_struct(items, "VmGreenThread")
    f = root_marker(items)
    if st is None or f is None:
        r.missing("VmGreenThread / root marking routine", VM)
        return
    prims = prim_markers(items)
    # the fields handed to the marking primitive by the root marker, directly or through its helpers (a slice helper, a local array)
    marked = {x["f"] for x in W(f["body"]) if x["k"] == "Field" and x["e"]["k"] == "Path" and x["e"]["p"] == "self"} if any(is_mark_call(x, prims) for x in W(f["body"])) else set()
    n = 0
    for fl in st["fields"]:
        ty = fl["ty"].replace(" ", "")
        if "Value" in ty.replace("ValueTag", ""):
            n += 1
            r.ob(fl["name"] in marked, f"vm.rs:VmGreenThread.{fl['name']}:not-a-gc-root", VM, fl["l"],
                 f"VmGreenThread.{fl['name']}: {fl['ty']} holds values but {f['name']} does not mark it: an object reachable only from it is swept",
                 sample=f"{fl['name']}: {fl['ty']} marked by {f['name']}")
    r.count("Value-holding thread fields", n, 3, VM)


def root_marker(items):
    """The function that names the roots: start_mark_phase itself, or the function it calls whose own body reads the thread's
    value-holding fields (the operand stack) and marks."""
    smp = q.find_fn(items, "start_mark_phase", impl_ty="VmGreenThread")
    st = q.find_struct(items, "VmGreenThread")
    if smp is None or st is None:
        return smp
    roots = {fl["name"] for fl in st["fields"] if "Value" in fl["ty"].replace("ValueTag", "")}

    def names_roots(f):
        return any(x["k"] == "Field" and x["f"] in roots and x["e"]["k"] == "Path" and x["e"]["p"] == "self" for x in q.walk(f["body"]))

    if names_roots(smp):
        return smp
    for x in q.walk(smp["body"]):
        if x["k"] == "MethodCall" and q.show(x["recv"]) == "self":
            g = q.find_fn(items, x["m"], impl_ty="VmGreenThread")
            if g is not None and g.get("body") is not None and names_roots(g):
                return g
    return smp


@rule("GC-CHILDREN", ["C06", "C08", "C09"], "process_gray marks, and deep_copy copies, every Value-typed payload field of each object kind")
def gc_children(ctx, r):
    items = ctx.file_items(VM)
    if items is None:
        r.missing("vm.rs")
        return
    k2t, _ = kind_types(items)
    pg = gray_scanner(items)
    if pg is None:
        r.missing("process_gray (the function that pops the gray worklist)", VM)
        return
    prims = prim_markers(items)
    arms = {}
    for m in W(pg["body"]):
        if m["k"] == "Match" and any(h.startswith("ObjectKind::") for a in m["arms"] for h in q.pat_heads(a["pat"])):
            for a in m["arms"]:
                for h in q.pat_heads(a["pat"]):
                    arms[q.last_seg(h)] = a
    n = 0
    for kind, ty in sorted(k2t.items()):
        st = q.find_struct(items, ty)
        arm = arms.get(kind)
        if st is None or arm is None:
            r.missing(f"process_gray:{kind}", VM)
            continue
        for fl in st["fields"]:
            t = fl["ty"].replace(" ", "")
            if fl["name"] == "header" or not holds_values(items, fl["ty"]):
                continue
            n += 1
            used = any(x["k"] == "Field" and x["f"] == fl["name"] for x in W(arm["body"]))
            marks = any(is_mark_call(x, prims) for x in W(arm["body"]))
            r.ob(used and marks, f"vm.rs:process_gray:{kind}:{fl['name']}:not-marked", VM, arm["l"],
                 f"process_gray: {ty}.{fl['name']} ({fl['ty']}) is not marked when an object of kind {kind} is scanned", sample=f"process_gray {kind}: marks .{fl['name']}")
            if any(c in t for c in ("Vec<", "VecDeque<")):
                # a collection field: the loop that marks must range over the whole collection, not a partial view of it
                whole = {f"obj.{fl['name']}", f"&obj.{fl['name']}", f"obj.{fl['name']}.iter()"}
                guards = {b for x in W(arm["body"]) if x["k"] == "Local" and x.get("init") is not None and f"obj.{fl['name']}" in q.show(x["init"]) and q.show(x["init"]).endswith(".lock().unwrap()") for b in q.pat_bindings(x["pat"])}
                for gname in guards:
                    whole |= {gname, "&" + gname, gname + ".iter()", "&*" + gname}
                loops = [x for x in W(arm["body"]) if x["k"] == "For" and any(is_mark_call(y, prims) for y in W(x["body"]))]
                srcs = [q.show(x["e"]).replace(" ", "") for x in loops]
                r.ob(bool(loops) and all(s_ in whole for s_ in srcs), f"vm.rs:process_gray:{kind}:{fl['name']}:partially-marked", VM, arm["l"],
                     f"process_gray: the elements of {ty}.{fl['name']} are marked by iterating `{srcs}`; the whole collection must be traversed (a partial view such as one slice of a ring buffer leaves reachable elements white)",
                     sample=f"process_gray {kind}: every element of .{fl['name']} ({srcs})")
        if ty == "StructObject":
            n += 1
            r.ob(any(x["k"] == "MethodCall" and x["m"] == "get_fields" for x in W(arm["body"])) and any(is_mark_call(x, prims) for x in W(arm["body"])),
                 "vm.rs:process_gray:Struct:fields-not-marked", VM, arm["l"], "process_gray: the trailing fields of a StructObject are not marked", sample="process_gray Struct: marks get_fields()")
    r.count("Value-typed payload fields", n, 3, VM)
    # deep_copy: total over ValueTag, recursive on payloads, channel shares the queue
    dc = q.find_fn(items, "deep_copy", impl_ty="Value")
    tags = q.find_enum(items, "ValueTag")
    if dc is None or tags is None:
        r.missing("Value::deep_copy", VM)
        return
    darms = {}
    for m in q.walk(dc["body"]):
        if m["k"] == "Match":
            for a in m["arms"]:
                for h in q.pat_heads(a["pat"]):
                    if h == "_":
                        r.find("vm.rs:deep_copy:wildcard", VM, a["l"], "deep_copy has a catch-all arm: a new value tag would be shared instead of copied")
                    darms[q.last_seg(h)] = a
            break
    for t in tags["variants"]:
        r.ob(t["name"] in darms, f"vm.rs:deep_copy:{t['name']}:unhandled", VM, dc["l"], f"deep_copy has no arm for tag {t['name']}")
    for tag, alloc in (("Struct", "StructObject::new"), ("Array", "ArrayObject::new"), ("Variant", "EnumObject::new"), ("String", "StringObject::new")):
        a = darms.get(tag)
        if a is None:
            continue
        allocs = any(x["k"] == "Call" and q.show(x["f"]) == alloc for x in q.walk(a["body"]))
        rec = tag == "String" or any(x["k"] == "MethodCall" and x["m"] == "deep_copy" for x in W(a["body"]))
        r.ob(allocs and rec, f"vm.rs:deep_copy:{tag}:not-a-deep-copy", VM, a["l"],
             f"deep_copy arm {tag}: must allocate a new {alloc.split('::')[0]} in the destination thread{'' if tag == 'String' else ' from recursively copied payload values'}", sample=f"deep_copy {tag}: new object, payload copied recursively")
    # every object allocated anywhere in deep_copy (fast paths and early returns included) is built from copies only
    def copy_derived(e, body):
        while e["k"] in ("Ref", "Paren") or (e["k"] == "MethodCall" and e["m"] in ("into", "clone") and not e["args"]):
            e = e["e"] if e["k"] in ("Ref", "Paren") else e["recv"]
        if e["k"] == "MethodCall" and e["m"] == "deep_copy":
            return True
        if e["k"] in ("Call", "MethodCall") and isinstance(e.get("inl"), dict):
            # a helper that builds the payload: its result must itself be built from copies only
            hb = e["inl"]["body"]
            tail = hb["stmts"][-1] if hb.get("k") == "Block" and hb.get("stmts") else None
            if tail is not None and tail["k"] == "ExprStmt" and copy_derived(tail["e"], hb):
                return True
        if e["k"] == "MethodCall" and e["m"] == "collect":
            # iterator chain ending in map(|x| x.deep_copy(..))
            c = e["recv"]
            return c["k"] == "MethodCall" and c["m"] == "map" and c["args"] and c["args"][0]["k"] == "Closure" and copy_derived(c["args"][0]["body"], body)
        if e["k"] == "Block" and e["stmts"]:
            last = e["stmts"][-1]
            return last["k"] == "ExprStmt" and copy_derived(last["e"], body)
        if e["k"] == "Path" and "::" not in e["p"]:
            v = e["p"]
            inits = [x for x in q.walk(body) if x["k"] == "Local" and v in q.pat_bindings(x["pat"])]
            if len(inits) != 1 or inits[0].get("init") is None:
                return False
            init = inits[0]["init"]
            empty = q.show(init).replace(" ", "") in ("vec![]", "vec!()", "Vec::new()") or q.show(init).replace(" ", "").startswith("Vec::with_capacity(")
            if empty:
                feeds = [x for x in q.walk(body) if x["k"] == "MethodCall" and x["recv"]["k"] == "Path" and x["recv"]["p"] == v and x["m"] in ("push", "extend", "insert", "append", "extend_from_slice", "resize", "push_back")]
                return bool(feeds) and all(x["m"] == "push" and copy_derived(x["args"][0], body) for x in feeds)
            return copy_derived(init, body)
        return False

    n_alloc = 0
    for x in q.walk(dc["body"]):
        if x["k"] == "Call" and x["f"]["k"] == "Path" and x["f"]["p"].endswith(("Object::new", "Object::new_with_data")):
            ty, fnn = x["f"]["p"].split("::")[-2:]
            ctor = q.find_fn(items, fnn, impl_ty=ty)
            if ctor is None:
                r.missing(f"vm.rs:{ty}::{fnn}", VM)
                continue
            ps = [p for p in ctor["params"] if not p.get("self")]
            for p, arg in zip(ps, x["args"]):
                if "Value" not in p.get("ty", ""):
                    continue
                n_alloc += 1
                r.ob(copy_derived(arg, dc["body"]), f"vm.rs:deep_copy:{ty}:payload-not-copied", VM, x["l"],
                     f"deep_copy allocates a {ty} whose payload `{q.show(arg)[:80]}` is not built from deep copies of the source's payload: the new object would point into the source thread's heap (shared, separately freed)",
                     sample=f"deep_copy: {ty} payload `{q.show(arg)[:40]}` built from copies only")
    r.count("deep_copy: Value-holding payload arguments", n_alloc, 3, VM)
    a = darms.get("Channel")
    if a is not None:
        r.ob(any(x["k"] == "MethodCall" and x["m"] == "copy" for x in q.walk(a["body"])), "vm.rs:deep_copy:Channel:not-shared", VM, a["l"], "deep_copy arm Channel must share the queue (ChannelObject::copy)")
        cp = q.find_fn(items, "copy", impl_ty="ChannelObject")
        shares = cp is not None and any(x["k"] == "MethodCall" and x["m"] == "clone" and q.show(x["recv"]) == "self.data" for x in q.walk(cp["body"]))
        r.ob(shares, "vm.rs:ChannelObject::copy:queue-not-shared", VM, cp["l"] if cp else 0, "ChannelObject::copy must clone the Arc (same queue), not the queue contents", sample="ChannelObject::copy: Arc clone of the queue")
    for tag in ("Int", "Float", "Bool", "Addr"):
        a = darms.get(tag)
        if a is not None:
            r.ob(q.show(a["body"]) == "self", f"vm.rs:deep_copy:{tag}", VM, a["l"], f"deep_copy of the immediate tag {tag} must return the value itself")


@rule("GC-TERMINATION", ["C06"], "marking ends only when the gray stack is empty after the roots were re-marked (the stack is not covered by the write barrier)")
def gc_termination(ctx, r):
    items = ctx.file_items(VM)
    if items is None:
        r.missing("vm.rs")
        return
    rm = root_marker(items)
    ro = gc_roles(items)
    if ro is None:
        r.missing("collector roles", VM)
        return
    GRAYF = ro["GRAY"]
    sites = []
    for f in [g_ for g_, _ in q.iter_items(items) if g_["k"] == "Fn" and g_.get("body") is not None]:
        for x in q.walk(f["body"]):
            if x["k"] == "Assign" and (q.show(x["a"]) == "self." + ro["STATE"] or q.show(x["a"]).endswith("." + ro["STATE"])) and "Sweeping" in q.show(x["b"]):
                sites.append((f, x))
    r.count("transitions to Sweeping", len(sites), 1, VM)
    for f, asg in sites:
        # the emptiness of the worklist is tested, the roots are marked again, and the emptiness is tested once more before
        # the transition - whether written as nested ifs or with an early return
        def empt(node):
            return [1 for c_, pol in q.cond_atoms(q.path_conds(f["body"], node) or []) if pol and GRAYF + ".is_empty()" in q.show(c_).replace(" ", "")]

        order = {id(x): k_ for k_, x in enumerate(q.walk(f["body"]))}
        n_asg = len(empt(asg))
        ok = False
        why = f"the transition is not guarded by {GRAYF}.is_empty()" if n_asg == 0 else "no root re-marking between the emptiness test and the transition"
        for x in q.walk(f["body"]):
            if x["k"] == "MethodCall" and rm is not None and x["m"] == rm["name"] and order[id(x)] < order[id(asg)]:
                n_call = len(empt(x))
                if n_call >= 1 and n_asg >= n_call + 1:
                    ok = True
        loads_shade = False
        r.ob(ok or loads_shade, f"vm.rs:{f['name']}:sweep-without-root-rescan", VM, asg["l"],
             f"{f['name']}: marking ends as soon as the gray stack is empty ({why}). With an insertion-only barrier a reference moved from a not-yet-scanned heap object to the operand stack (ArrayPop, GetField, GetIndex, Deconstruct*, ChannelRead) is never marked and its object is swept while still on the stack",
             sample=f"{f['name']}: roots re-marked, then gray stack re-tested, before Sweeping")


def enclosing_ifs(body, target):
    out = []

    def go(n, chain):
        if n is target:
            out.extend(chain)
            return True
        if isinstance(n, dict):
            if n.get("k") == "If":
                if go(n["c"], chain):
                    return True
                if go(n["t"], chain + [n]):
                    return True
                if n.get("e") is not None and go(n["e"], chain):
                    return True
                return False
            for c in q.children(n):
                if go(c, chain):
                    return True
        return False

    go(body, [])
    return out


@rule("GC-ATOMIC", ["C06"], "collector phases run only from maybe_gc, and maybe_gc only between instructions")
def gc_atomic(ctx, r):
    callers = {"start_mark_phase": set(), "process_gray": set(), "sweep": set(), "maybe_gc": set(), "mark_roots": set()}
    for file, v in ctx.syn["files"].items():
        for f, _ in q.iter_items(v["items"]):
            if f["k"] != "Fn" or f.get("body") is None:
                continue
            for kind, name, node in q.calls_in(f["body"]):
                nm = q.last_seg(name)
                if nm in callers and (kind == "method" or "::" in name):
                    callers[nm].add(f"{file.split('/')[-1]}:{f['name']}")
    for ph in ("start_mark_phase", "process_gray", "sweep"):
        ok = callers[ph] <= {"vm.rs:maybe_gc"} and callers[ph]
        r.ob(bool(ok), f"vm.rs:{ph}:called-outside-maybe_gc", VM, 0, f"{ph} is called from {sorted(callers[ph])}; collector phases may only run from maybe_gc (between instructions)", sample=f"{ph} <- {sorted(callers[ph])}")
    ok = callers["maybe_gc"] <= {"vm.rs:run", "vm.rs:run_n_steps"} and callers["maybe_gc"]
    r.ob(bool(ok), "vm.rs:maybe_gc:called-inside-an-instruction", VM, 0, f"maybe_gc is called from {sorted(callers['maybe_gc'])}; it may only run between instructions (Rust locals holding Values inside one instruction are not roots)", sample=f"maybe_gc <- {sorted(callers['maybe_gc'])}")
    # run loops: maybe_gc and step are separate statements of the loop body
    items = ctx.file_items(VM)
    step = q.find_fn(items, "step", impl_ty="VmGreenThread")
    inside = step is not None and any(x["k"] == "MethodCall" and x["m"] in callers and x["m"] != "mark_roots" for x in q.walk(step["body"]))
    r.ob(not inside, "vm.rs:step:collector-call", VM, step["l"] if step else 0, "step() itself calls into the collector")


@rule("GC-SWEEP", ["C06", "C07"], "sweep frees exactly the unmarked objects, unlinks them, resets survivors; mark sets the flag before pushing; drop frees every registered object once")
def gc_sweep(ctx, r):
    items = ctx.file_items(VM)
    if items is None:
        r.missing("vm.rs")
        return
    ro = gc_roles(items)
    if ro is None or ro["NOGC"] is None:
        r.missing("collector roles", VM)
        return
    HEAP, GRAY, LIVE, MARK, NOGC = ro["HEAP"], ro["GRAY"], ro["LIVE"], ro["MARK"], ro["NOGC"]
    allf = [f for f, _ in q.iter_items(items) if f["k"] == "Fn" and f.get("body") is not None]
    # the sweeper: the function that unlinks objects from the object list
    sw = next((f for f in allf if any(x["k"] == "MethodCall" and x["m"] == "dealloc" for x in q.walk(f["body"])) and any(x["k"] == "If" and any(y["k"] == "Field" and y["f"] == MARK for y in q.walk(x["c"])) and any(y["k"] == "MethodCall" and y["m"] == "dealloc" for y in q.walk(x)) for x in q.walk(f["body"]))), None)
    # the marking primitive: sets the header's mark and pushes the object on the worklist
    mk = next((f for f in allf if f.get("body") is not None and f["name"] != "write_barrier"
               and any(x["k"] == "Assign" and q.strip_refs(x["a"])["k"] == "Field" and q.strip_refs(x["a"])["f"] == MARK for x in q.walk(f["body"]))
               and any(x["k"] == "MethodCall" and x["m"] == "push" for x in q.walk(f["body"]))
               and not any(x["k"] == "MethodCall" and x["m"] == "pop" for x in q.walk(f["body"]))), None)
    if sw is None or mk is None:
        r.missing("sweep/mark", VM)
        return

    def is_mark_test(c):
        while c["k"] == "Paren":
            c = c["e"]
        if c["k"] != "Binary" or c["op"] not in ("==", "!="):
            return False
        sides = [q.strip_refs(c["a"]), q.strip_refs(c["b"])]
        return any(a["k"] == "Field" and a["f"] == MARK and LIVE in (q.idents_in(b) | {y["f"] for y in q.walk(b) if y["k"] == "Field"}) for a, b in (sides, sides[::-1]))

    ifs = [x for x in q.walk(sw["body"]) if x["k"] == "If" and is_mark_test(x["c"])]
    if not ifs:
        r.missing("sweep:mark-test", VM)
    else:
        i = ifs[0]
        c = i["c"]
        while c["k"] == "Paren":
            c = c["e"]
        neq = c["op"] == "!="
        free_branch, keep_branch = (i["t"], i["e"]) if neq else (i["e"], i["t"])
        r.ob(True, "vm.rs:sweep:mark-test-form", VM, i["l"], "", sample=f"sweep: liveness test `{q.show(c)}`")
        if free_branch is not None and keep_branch is not None:
            # the object list may be reached through a local alias
            alias = {HEAP}
            for x in q.walk(sw["body"]):
                if x["k"] == "Local" and x.get("init") is not None and any(y["k"] == "Field" and y["f"] == HEAP for y in q.walk(x["init"])):
                    alias |= set(q.pat_bindings(x["pat"]))
            frees = any(x["k"] == "MethodCall" and x["m"] == "dealloc" for x in q.walk(free_branch))
            unlinks = any(x["k"] == "MethodCall" and x["m"] in ("swap_remove", "remove") and q.show(q.strip_refs(x["recv"])).lstrip("*").split(".")[-1] in alias for x in q.walk(free_branch))
            keeps_free = any(x["k"] == "MethodCall" and x["m"] == "dealloc" for x in q.walk(keep_branch))
            r.ob(frees and unlinks and not keeps_free, "vm.rs:sweep:polarity", VM, i["l"],
                 f"sweep must free and unlink exactly the objects whose mark differs from {LIVE} (the unmarked ones) and keep the others", sample=f"sweep: {MARK} != {LIVE} -> dealloc + swap_remove")
            resets = any(x["k"] == "Assign" and q.strip_refs(x["a"])["k"] == "Field" and q.strip_refs(x["a"])["f"] == MARK and q.show(x["b"]).replace(" ", "") in ("!self." + LIVE, "!" + LIVE) for x in q.walk(keep_branch))
            adv = any(x["k"] == "Binary" and x["op"] == "+=" and "index" in q.show(x["a"]) for x in q.walk(keep_branch))
            adv_free = any(x["k"] == "Binary" and x["op"] == "+=" and "index" in q.show(x["a"]) for x in q.walk(free_branch))
            r.ob(resets and adv and not adv_free, "vm.rs:sweep:survivor", VM, i["l"], "a surviving object must be reset to white and the cursor advanced; after swap_remove the cursor must not advance", sample="sweep: survivor -> white, index += 1")
    # mark: the flag is set before the push, and both happen only for a pointer to a collectable, not yet marked object
    body = mk["body"]
    order = {id(x): n_ for n_, x in enumerate(q.walk(body))}
    sets = [x for x in q.walk(body) if x["k"] == "Assign" and q.strip_refs(x["a"])["k"] == "Field" and q.strip_refs(x["a"])["f"] == MARK]
    pushes = [x for x in q.walk(body) if x["k"] == "MethodCall" and x["m"] == "push"]
    r.ob(bool(sets) and bool(pushes) and order[id(sets[0])] <= order[id(pushes[0])], "vm.rs:mark:flag-before-push", VM, mk["l"], "mark must set the mark flag before pushing the object on the gray stack (otherwise cycles push forever)", sample=f"{mk['name']}: {MARK} set, then pushed")
    atoms = q.cond_atoms(q.path_conds(body, pushes[0]) or []) if pushes else []
    ptr_ok = any(pol and a["k"] == "MethodCall" and a["m"] == "is_pointer" for a, pol in atoms)
    nogc_ok = any((not pol) and q.strip_refs(a)["k"] == "Field" and q.strip_refs(a)["f"] == NOGC for a, pol in atoms)
    unmarked_ok = any(is_mark_test(a) and ((a["op"] == "!=") == pol) for a, pol in atoms if a["k"] == "Binary")
    r.ob(ptr_ok and nogc_ok and unmarked_ok, "vm.rs:mark:early-returns", VM, mk["l"],
         f"{mk['name']} must skip non-pointers, {NOGC} objects and already marked objects; the push is reached under {[('' if pol else 'not ') + q.show(a) for a, pol in atoms]}", sample=f"{mk['name']}: skips non-pointer / {NOGC} / marked")
    # drop
    drops = [i for i in q.find_impls(items, self_ty="VmGreenThread", trait="Drop")] + [i for i in q.find_impls(items, self_ty=ro["OWNER"], trait="Drop") if ro["OWNER"] != "VmGreenThread"]
    ok = False
    if drops:
        d = drops[0]["items"][0]
        loops = [x for x in W(d["body"]) if x["k"] == "For" and any(y["k"] == "Field" and y["f"] == HEAP for y in q.walk(x["e"]))]
        ok = bool(loops) and any(y["k"] == "MethodCall" and y["m"] == "dealloc" for y in q.walk(loops[0]["body"]))
    r.ob(ok, "vm.rs:VmGreenThread:drop-does-not-free-heap", VM, drops[0]["l"] if drops else 0, f"dropping a thread must free every object in its {HEAP} (impl Drop for VmGreenThread)", sample=f"Drop for VmGreenThread frees {HEAP}")


@rule("OWN-LEDGER", ["C07"], "every raw allocation flows into a registry whose owner frees each entry with the matching deallocator when dropped")
def own_ledger(ctx, r):
    items = ctx.file_items(VM)
    if items is None:
        r.missing("vm.rs")
        return
    n = 0
    ro = gc_roles(items)
    if ro is None:
        r.missing("collector roles", VM)
        return
    registries = {}  # registry field -> owner struct
    for st_name in dict.fromkeys(("VmGreenThread", "VmSharedReadonly", ro["OWNER"])):
        st = q.find_struct(items, st_name)
        if st is None:
            r.missing(st_name, VM)
            continue
        for fl in st["fields"]:
            if "*mut" in fl["ty"] and "Vec<" in fl["ty"] and fl["name"] != (ro["GRAY"] if ro else "gray_stack"):
                registries[fl["name"]] = st_name
    for impl in q.find_impls(items):
        ty = impl["self_ty"]
        for f in impl["items"]:
            if f["k"] != "Fn":
                continue
            raw = [x for x in q.walk(f["body"]) if x["k"] == "Call" and x["f"]["k"] == "Path" and x["f"]["p"] in ("alloc", "Box::leak", "Box::into_raw", "std::alloc::alloc")]
            if not raw:
                continue
            n += 1
            regs = {q.show(x["recv"]).split(".")[-1] for x in W(f["body"]) if x["k"] == "MethodCall" and x["m"] == "push" and q.show(x["recv"]).split(".")[-1] in registries}
            where = f"{ty}::{f['name']}"
            if not regs:
                # returned to a caller that must register it
                for g, _ in q.iter_items(items):
                    if g["k"] == "Fn" and g.get("body") is not None:
                        for x in q.walk(g["body"]):
                            if x["k"] == "Local" and x.get("init") is not None and q.show(x["init"]).startswith(where + "("):
                                var = q.pat_bindings(x["pat"])
                                for y in q.walk(g["body"]):
                                    if y["k"] == "MethodCall" and y["m"] == "push" and y["args"] and q.show(y["args"][0]) in var and q.show(y["recv"]).split(".")[-1] in registries:
                                        regs.add(q.show(y["recv"]).split(".")[-1])
            r.ob(len(regs) == 1, f"vm.rs:{where}:allocation-not-registered", VM, f["l"], f"{where} allocates raw memory that is registered in {sorted(regs)}; it must be recorded in exactly one registry so that someone frees it", sample=f"{where} -> {sorted(regs)}")
            for reg in regs:
                owner = registries[reg]
                drops = q.find_impls(items, self_ty=owner, trait="Drop") or (q.find_impls(items, self_ty="VmGreenThread", trait="Drop") if owner == ro["OWNER"] else [])
                ok = False
                if drops:
                    d = drops[0]["items"][0]
                    for x in W(d["body"]):
                        if x["k"] == "For" and reg in q.show(x["e"]):
                            if any(y["k"] == "MethodCall" and y["m"] == "dealloc" for y in q.walk(x["body"])) or any(y["k"] == "Call" and q.show(y["f"]) == "Box::from_raw" for y in q.walk(x["body"])):
                                ok = True
                r.ob(ok, f"vm.rs:{owner}.{reg}:never-freed", VM, f["l"],
                     f"objects allocated by {where} are recorded in {owner}.{reg}, but {owner} has no Drop that frees the entries of {reg}: every runtime leaks them",
                     sample=f"{owner}.{reg}: freed by Drop for {owner}")
    r.count("raw allocation sites", n, 6, VM)


@rule("CH-QUEUE", ["C09", "C08"], "channels are FIFO queues read destructively; a read pushes only a deep copy owned by the reader; tasks receive deep copies of their captures")
def ch_queue(ctx, r):
    items = ctx.file_items(VM)
    arms = _arms(ctx, r)
    if items is None or arms is None:
        return
    by = {v: (arm, an) for v, arm, an in arms}
    rd = q.find_fn(items, "read_value", impl_ty="ChannelObject")
    wr = q.find_fn(items, "write_value", impl_ty="ChannelObject")
    if rd is None or wr is None:
        r.missing("ChannelObject::read_value/write_value", VM)
        return
    rm = {x["m"] for x in q.walk(rd["body"]) if x["k"] == "MethodCall" and x["m"] in ("pop_front", "pop_back", "front", "back", "pop", "remove", "get")}
    wm = {x["m"] for x in q.walk(wr["body"]) if x["k"] == "MethodCall" and x["m"] in ("push_back", "push_front", "push", "insert")}
    fifo = (rm, wm) in (({"pop_front"}, {"push_back"}), ({"pop_back"}, {"push_front"}))
    r.ob(fifo, "vm.rs:ChannelObject:not-fifo", VM, rd["l"], f"write uses {sorted(wm)} and read uses {sorted(rm)}: values must be removed from the end opposite to where they are added (each value delivered once, in order)", sample=f"channel: {sorted(wm)} / {sorted(rm)}")
    # ChannelWrite: the value is queued on every execution of the instruction, whoever holds the channel at that moment
    if "ChannelWrite" in by:
        arm, an = by["ChannelWrite"]
        enq = [ev for ev in an.events if ev.kind in ("mcall", "selfcall") and ev.data[0] == wr["name"]]
        r.ob(len(enq) == 1 and not tuple(enq[0].conds), "vm.rs:step:ChannelWrite:conditional-enqueue", VM, arm["l"],
             f"ChannelWrite must queue its value unconditionally; it does so {len(enq)} time(s)" + (f" under {[sshow(c) + ('' if pol else ' (false)') for c, pol in enq[0].conds]}" if enq and enq[0].conds else "") + ": a write that is skipped when nobody else holds the channel yet (a queue filled before the worker is spawned, a reply channel written before it is published) loses values that a later reader must receive",
             sample="ChannelWrite: write_value on every path")
    else:
        r.missing("step:ChannelWrite", VM)
    # ChannelRead pushes only deep_copy(dequeued)
    if "ChannelRead" in by:
        arm, an = by["ChannelRead"]
        # conversions that materialise a value in a given thread's heap: fns returning Value that take the thread and allocate in it
        materialise = set()
        for g, _ in q.iter_items(items):
            if g["k"] == "Fn" and g.get("body") is not None and (g.get("ret") or "").strip() == "Value" and any("VmGreenThread" in p.get("ty", "") for p in g["params"]):
                if any(x["k"] == "Call" and q.show(x["f"]).endswith("Object::new") or (x["k"] == "Call" and q.show(x["f"]).endswith("Object::new_with_data")) for x in q.walk(g["body"])):
                    materialise.add(g["name"])
        pushes = [ev for ev in an.events if ev.kind == "push" and ev.data[0][0] != "stk"]
        ok = bool(pushes) and all(ev.data[0][0] == "call" and ev.data[0][1] in materialise for ev in pushes)
        r.ob(ok, "vm.rs:step:ChannelRead:value-not-copied", VM, arm["l"], f"ChannelRead must push a copy of the dequeued value materialised in the reader's heap (one of {sorted(materialise)}); it pushes {[sshow(ev.data[0]) for ev in pushes]}", sample=f"ChannelRead: pushes {[sshow(ev.data[0]) for ev in pushes]}")
        dcs = [x for x in q.walk(arm["body"]) if x["k"] == "MethodCall" and x["m"] in materialise]
        r.ob(bool(dcs) and all(q.show(x["args"][0]) == "self" for x in dcs), "vm.rs:step:ChannelRead:copy-destination", VM, arm["l"], "the copy must be allocated in the reading thread (conversion applied to `self`)")
    else:
        r.missing("step:ChannelRead", VM)
    # SpawnTask: captures deep-copied into the new thread
    if "SpawnTask" in by:
        arm, an = by["SpawnTask"]
        body = arm["body"]
        newt = None
        for x in q.walk(body):
            if x["k"] == "Local" and x.get("init") is not None and q.show(x["init"]).startswith("VmGreenThread::new("):
                newt = q.pat_bindings(x["pat"])[0]
        dcs = [x for x in q.walk(body) if x["k"] == "MethodCall" and x["m"] == "deep_copy"]
        pushes = [x for x in q.walk(body) if x["k"] == "MethodCall" and x["m"] == "push" and q.show(x["recv"]) == newt]
        ok = newt is not None and bool(dcs) and all(q.show(x["args"][0]).replace("&mut ", "") == newt for x in dcs)
        r.ob(ok, "vm.rs:step:SpawnTask:copy-destination", VM, arm["l"], "every capture must be deep-copied into the new thread's heap (deep_copy(&mut new_thread))", sample=f"SpawnTask: captures deep_copy(&mut {newt})")
        copied_vars = set()
        for x in q.walk(body):
            if x["k"] == "Local" and x.get("init") is not None and x["init"]["k"] == "MethodCall" and x["init"]["m"] == "deep_copy":
                copied_vars |= set(q.pat_bindings(x["pat"]))
        okp = bool(pushes) and all((x["args"][0]["k"] == "Path" and x["args"][0]["p"] in copied_vars) or (x["args"][0]["k"] == "MethodCall" and x["args"][0]["m"] == "deep_copy") for x in pushes)
        r.ob(okp, "vm.rs:step:SpawnTask:capture-shared", VM, arm["l"], "a captured value is pushed to the new thread without being deep-copied: task and spawner would share (and separately free) the object", sample="SpawnTask: only copied values are pushed")
    else:
        r.missing("step:SpawnTask", VM)


@rule("CH-OWN", ["C09"], "a container shared between threads must not hold Values that point into one thread's heap")
def ch_own(ctx, r):
    items = ctx.file_items(VM)
    if items is None:
        r.missing("vm.rs")
        return
    n = 0
    for st in (it for it, _ in q.iter_items(items) if it["k"] == "StructDef"):
        for fl in st["fields"]:
            t = type_closure(items, fl["ty"]).replace(" ", "")
            if "Arc<" in t and "Mutex<" in t:
                n += 1
                hv = holds_values(items, fl["ty"])
                # a value in transit owns what it names: a non-owning handle dies with the writer
                weak = [w for w in ("Weak<", "*const", "*mut", "&'") if w in t]
                r.ob(not weak, f"vm.rs:{st['name']}.{fl['name']}:shared-container-holds-non-owning-handle", VM, fl["l"],
                     f"{st['name']}.{fl['name']}: the element type of the shared container reaches {weak}: a value in transit that does not own what it names (e.g. a channel handle sent over a channel) vanishes when the writer finishes or collects, and the reader receives something else than what was written",
                     sample=f"{st['name']}.{fl['name']}: every part of a queued message is owned")
                r.ob(not hv, f"vm.rs:{st['name']}.{fl['name']}:shared-container-holds-thread-local-values", VM, fl["l"],
                     f"{st['name']}.{fl['name']}: {fl['ty']} is shared between threads (deep_copy clones the Arc) but stores `Value`s, i.e. raw pointers into the writing thread's heap: "
                     "a value read after the writer finished or collected is a dangling pointer, and the reader's collector marks objects of a foreign heap",
                     sample=f"{st['name']}.{fl['name']}: owned message representation")
    r.count("containers shared between threads", n, 1, VM)


GROWERS = {"push", "insert", "extend", "extend_from_slice", "append", "reserve", "reserve_exact", "resize", "resize_with", "push_str", "shrink_to_fit", "shrink_to", "push_back", "push_front"}


def _enclosing_stmt_list(root, target):
    """Innermost block whose statements (directly) contain target: (stmts, index of the statement holding target)."""
    best = None
    for b in q.walk(root):
        if b["k"] == "Block":
            for i, s in enumerate(b["stmts"]):
                if any(y is target for y in q.walk(s)):
                    best = (b["stmts"], i)
    return best


@rule("HEAP-ACCT", ["C07"], "heap_size is a ledger of nbytes(): wherever a live object's nbytes() can change, heap_size moves by exactly that change, measured with the quantity nbytes() itself uses")
def heap_acct(ctx, r):
    items = ctx.file_items(VM)
    if items is None:
        r.missing("vm.rs")
        return
    # (object type, field, measure, per-unit factor) from the nbytes() of each heap object type
    measures = []
    for impl in q.find_impls(items):
        ty = impl["self_ty"]
        if not ty.endswith("Object") or impl.get("trait"):
            continue
        for f in impl["items"]:
            if f["k"] == "Fn" and f["name"] == "nbytes" and f.get("body") is not None:
                for x in q.walk(f["body"]):
                    if x["k"] == "MethodCall" and x["recv"]["k"] == "Field" and q.show(x["recv"]["e"]) == "self" and not x["args"]:
                        factor = None
                        for b in q.walk(f["body"]):
                            if b["k"] == "Binary" and b["op"] == "*" and (b["a"] is x or b["b"] is x):
                                factor = q.show(b["b"] if b["a"] is x else b["a"])
                        measures.append((ty, x["recv"]["f"], x["m"], factor))
    r.count("object kinds whose nbytes() depends on a growable buffer", len(measures), 2, VM)
    ro = gc_roles(items)
    ost = q.find_struct(items, ro["OWNER"]) if ro else None
    ledgers = {fl["name"] for fl in (ost["fields"] if ost else []) if fl["ty"].strip() == "usize"} or {"heap_size"}
    # the live-size ledger is the one deallocation subtracts from: the field handed to `dealloc(&mut ..)`
    size_led = {y["f"] for f_, _ in q.iter_items(items) if f_["k"] == "Fn" and f_.get("body") is not None for c in q.walk(f_["body"]) if c["k"] == "MethodCall" and c["m"] == "dealloc" for a in c["args"] for y in q.walk(a) if y["k"] == "Field" and y["f"] in ledgers}
    if size_led:
        ledgers = size_led
    n = 0
    for ty, field, measure, factor in measures:
        for impl in q.find_impls(items):
            if impl["self_ty"] == ty:
                continue  # the constructor registers nbytes() as a whole (GC-ALLOC)
            for f in impl["items"]:
                if f["k"] != "Fn" or f.get("body") is None:
                    continue
                for x in q.walk(f["body"]):
                    if not (x["k"] == "MethodCall" and x["m"] in GROWERS and x["recv"]["k"] == "Field" and x["recv"]["f"] == field):
                        continue
                    base = q.show(x["recv"]["e"])
                    # is the base an object of type ty? (bound from get_<kind>_mut / a cast to ty)
                    origin = [l for l in q.walk(f["body"]) if l["k"] == "Local" and base in q.pat_bindings(l["pat"]) and l.get("init") is not None]
                    kindname = ty.replace("Object", "").lower()
                    if not origin or not any((y["k"] == "MethodCall" and kindname in y["m"].lower()) or (y["k"] == "Cast" and ty in y.get("ty", "")) for y in q.walk(origin[-1]["init"])):
                        continue
                    n += 1
                    armv = ""
                    for a in q.walk(f["body"]):
                        if a["k"] == "Arm" and any(y is x for y in q.walk(a["body"])):
                            hs = [q.last_seg(h) for h in q.pat_heads(a["pat"]) if "::" in h]
                            if hs:
                                armv = ":" + "|".join(hs)
                    where = f"vm.rs:{f['name']}{armv}:{base}.{field}.{x['m']}"
                    got = _enclosing_stmt_list(f["body"], x)
                    if got is None:
                        r.missing(where, VM)
                        continue
                    stmts, i = got
                    want = f"{base}.{field}.{measure}()"
                    before = [s for s in stmts[:i] if s["k"] == "Local" and s.get("init") is not None and q.show(s["init"]).replace(" ", "") == want]
                    after = [s for s in stmts[i + 1:] if s["k"] == "Local" and s.get("init") is not None and q.show(s["init"]).replace(" ", "") == want]
                    bvars = {b for s in before for b in q.pat_bindings(s["pat"])}
                    avars = {b for s in after for b in q.pat_bindings(s["pat"])}
                    adj = []
                    for s in stmts[i + 1:]:
                        for y in q.walk(s):
                            if y["k"] == "Binary" and y["op"] == "+=" and q.show(y["a"]).split(".")[-1] in ledgers:
                                adj.append(y)
                            # or through an accounting helper that adds its parameter to the ledger
                            if y["k"] == "MethodCall" and isinstance(y.get("inl"), dict):
                                ps = y["inl"].get("params") or []
                                for z in q.walk(y["inl"]["body"]):
                                    if z["k"] == "Binary" and z["op"] == "+=" and q.show(z["a"]).split(".")[-1] in ledgers:
                                        rhs = z["b"]
                                        if rhs["k"] == "Path" and rhs["p"] in ps and ps.index(rhs["p"]) < len(y["args"]):
                                            adj.append({"k": "Binary", "op": "+=", "a": z["a"], "b": y["args"][ps.index(rhs["p"])], "l": y["l"]})
                                        elif not (rhs["k"] == "Path"):
                                            adj.append({"k": "Binary", "op": "+=", "a": z["a"], "b": rhs, "l": y["l"]})
                    ok = False
                    detail = f"found before={sorted(bvars)} after={sorted(avars)} adjustments={[q.show(y['b']) for y in adj]}"
                    def resolved(e):
                        # a delta hoisted into a local: `let grown = (after - before) * unit; heap_size += grown`
                        while e["k"] == "Paren":
                            e = e["e"]
                        if e["k"] == "Path":
                            for s_ in stmts:
                                if s_["k"] == "Local" and s_.get("init") is not None and e["p"] in q.pat_bindings(s_["pat"]):
                                    return s_["init"]
                        return e

                    for y in adj:
                        y = dict(y, b=resolved(y["b"]))
                        for d in q.walk(y["b"]):
                            if d["k"] == "Binary" and d["op"] == "-" and d["a"]["k"] == "Path" and d["b"]["k"] == "Path" and d["a"]["p"] in avars and d["b"]["p"] in bvars:
                                # (after - before) * factor, nothing else
                                top = y["b"]
                                while top["k"] == "Paren":
                                    top = top["e"]
                                if factor is None:
                                    ok = True
                                elif top["k"] == "Binary" and top["op"] == "*":
                                    sides = [q.show(top["a"]).strip("()"), q.show(top["b"]).strip("()")]
                                    ok = factor in (q.show(top["a"]), q.show(top["b"])) and f"{d['a']['p']} - {d['b']['p']}" in sides
                    r.ob(ok, where + ":growth-not-accounted", VM, x["l"],
                         f"{f['name']}: `{base}.{field}.{x['m']}(..)` can change {ty}::nbytes() (= .. + {field}.{measure}() * {factor}); heap_size must move by (`{want}` after - `{want}` before) * {factor}, or the ledger drifts from what dealloc subtracts and collection pacing degrades ({detail})",
                         sample=f"{f['name']}: {base}.{field}.{x['m']} accounted by {measure}() delta")
    r.count("buffer-growing operations on live heap objects", n, 2, VM)

"""Ownership rules for utils: OWN-IDSET (C37), ARENA-BOUNDS / ARENA-ALIGN (C38)."""
from lib import synq as q
from lib.core import rule
from lib.inline import materialize

IDSET = "utils/src/id_set.rs"
ARENA = "utils/src/arena.rs"

REALLOCATING = {"reserve", "reserve_exact", "extend", "extend_from_slice", "insert", "append", "resize", "resize_with", "shrink_to_fit", "shrink_to", "splice", "dedup", "retain", "remove", "swap_remove", "drain", "truncate", "split_off"}


def raw_ptr_types(items):
    """Names of types (in this file) that hold raw pointers, directly or through a wrapper defined here."""
    holders = set()
    structs = [it for it, _ in q.iter_items(items) if it["k"] == "StructDef"]
    changed = True
    while changed:
        changed = False
        for st in structs:
            if st["name"] in holders:
                continue
            for fl in st["fields"]:
                t = fl["ty"]
                if "*mut" in t or "*const" in t or any(h + "<" in t or t == h for h in holders):
                    holders.add(st["name"])
                    changed = True
                    break
    return holders


@rule("OWN-IDSET", ["C37"], "the interning set never copies or exposes the raw pointers into its own buffers, and never reallocates a buffer that pointers refer to")
def own_idset(ctx, r):
    items = ctx.file_items(IDSET)
    if items is None:
        r.missing("id_set.rs")
        return
    st = q.find_struct(items, "IdSet")
    if st is None:
        r.missing("struct IdSet", IDSET)
        return
    holders = raw_ptr_types(items)
    ptr_fields = [fl["name"] for fl in st["fields"] if "*mut" in fl["ty"] or "*const" in fl["ty"] or any(h + "<" in fl["ty"] for h in holders if h != "IdSet")]
    buf_fields = [fl["name"] for fl in st["fields"] if fl["ty"].replace(" ", "").startswith("Vec<") and fl["name"] not in ptr_fields]
    # the buffer values are pushed into: the Vec<T> (the retired ones are a Vec<Vec<T>>)
    live = [fl["name"] for fl in st["fields"] if fl["ty"].replace(" ", "").startswith("Vec<") and not fl["ty"].replace(" ", "").startswith("Vec<Vec<") and fl["name"] in buf_fields]
    live_buf = live[0] if len(live) == 1 else "current_buf"
    r.count("pointer-holding fields", len(ptr_fields), 2, IDSET)
    r.count("buffer fields", len(buf_fields), 2, IDSET)
    # (1) no field-wise Clone/Copy
    derives = " ".join(st["attrs"])
    r.ob("Clone" not in derives and "Copy" not in derives, "id_set.rs:IdSet:derived-clone", IDSET, st["l"],
         f"IdSet derives Clone/Copy ({derives}): the copy's `{'`, `'.join(ptr_fields)}` point into the original's buffers and dangle once the original is dropped or cleared",
         sample="IdSet: no derived Clone")
    for impl in q.find_impls(items, self_ty="IdSet", trait="Clone"):
        for f in impl["items"]:
            if f["k"] != "Fn":
                continue
            for x in q.walk(f["body"]):
                if x["k"] == "MethodCall" and x["m"] in ("clone", "to_vec", "to_owned") and x["recv"]["k"] == "Field" and x["recv"]["f"] in ptr_fields and q.show(x["recv"]["e"]) == "self":
                    r.find(f"id_set.rs:IdSet::clone:copies-{x['recv']['f']}", IDSET, x["l"], f"the hand-written Clone copies self.{x['recv']['f']}, which holds pointers into the original's buffers")
            rebuilds = any(x["k"] == "MethodCall" and x["m"] == "insert" for x in q.walk(f["body"]))
            r.ob(rebuilds, "id_set.rs:IdSet::clone:does-not-rebuild", IDSET, f["l"], "Clone for IdSet must rebuild the pointer tables by re-inserting the values", sample="Clone for IdSet: re-inserts every value in iteration order")
    # (2) buffers are only pushed to under the capacity check; no reallocating method on them
    ins = q.find_fn(items, "insert", impl_ty="IdSet")
    if ins is None:
        r.missing("IdSet::insert", IDSET)
    n_calls = 0
    for f, _ in q.iter_items(items):
        if f["k"] != "Fn" or f.get("body") is None:
            continue
        for x in q.walk(f["body"]):
            if x["k"] == "MethodCall" and x["recv"]["k"] == "Field" and q.show(x["recv"]["e"]) == "self" and x["recv"]["f"] in buf_fields:
                n_calls += 1
                m = x["m"]
                r.ob(m not in REALLOCATING, f"id_set.rs:{f['name']}:{x['recv']['f']}.{m}", IDSET, x["l"],
                     f"{f['name']} calls {x['recv']['f']}.{m}(), which can reallocate or shift a buffer that `{'`, `'.join(ptr_fields)}` point into")
                if m == "push" and x["recv"]["f"] == live_buf:
                    # preceded by the capacity check that swaps in a fresh buffer (written in place or in a helper called before the push)
                    ok = False
                    flat = list(q.walk(materialize(f["body"], closures_only=False)))
                    at = next((i for i, y in enumerate(flat) if y["k"] == "MethodCall" and y["m"] == "push" and y.get("l") == x["l"] and q.show(y["recv"]) == q.show(x["recv"])), len(flat))
                    caps = {b for y in flat if y["k"] == "Local" and y.get("init") is not None and q.show(y["init"]).replace(" ", "") == f"self.{live_buf}.capacity()" for b in q.pat_bindings(y["pat"])} | {f"self.{live_buf}.capacity()"}
                    for i, y in enumerate(flat[:at]):
                        if y["k"] == "If" and any(z["k"] == "Call" and q.show(z["f"]).endswith("mem::replace") and live_buf in q.show(z["args"][0]) for z in q.walk(y["t"])):
                            c = q.show(y["c"]).replace(" ", "")
                            ok = any(c in (f"((self.{live_buf}.len()+1)>{cap})", f"(self.{live_buf}.len()>={cap})", f"(self.{live_buf}.len()=={cap})") for cap in caps)
                    r.ob(ok, f"id_set.rs:{f['name']}:push-without-capacity-check", IDSET, x["l"],
                         "current_buf.push must be preceded by `len + 1 > capacity` => swap in a fresh buffer: a push beyond capacity reallocates and every stored pointer dangles",
                         sample="insert: capacity check swaps the buffer before push")
                if m == "pop":
                    r.ob(f["name"] == "insert", f"id_set.rs:{f['name']}:pop", IDSET, x["l"], "values may only be popped to undo the speculative push of a duplicate")
                if m == "clear":
                    cleared = {y["recv"]["f"] for y in q.walk(f["body"]) if y["k"] == "MethodCall" and y["m"] == "clear" and y["recv"]["k"] == "Field"}
                    r.ob(set(ptr_fields) <= cleared, f"id_set.rs:{f['name']}:partial-clear", IDSET, x["l"], f"{f['name']} clears a buffer but not {sorted(set(ptr_fields) - cleared)}: pointers to freed values remain", sample="clear(): buffers and pointer tables cleared together")
            # the same buffers reached through another value of the type (`ret.current_buf` in clone, `other.old_bufs`): never reallocated either
            if x["k"] == "MethodCall" and x["recv"]["k"] == "Field" and q.show(x["recv"]["e"]) != "self" and x["recv"]["f"] in buf_fields and x["m"] in REALLOCATING:
                r.find(f"id_set.rs:{f['name']}:{q.show(x['recv']['e'])}.{x['recv']['f']}.{x['m']}", IDSET, x["l"],
                       f"{f['name']} calls {q.show(x['recv'])}.{x['m']}(): the buffer of that set is already pointed into by its `{'`, `'.join(ptr_fields)}`; a reallocation (here possibly moving the block) leaves every one of those pointers dangling")
    r.count("method calls on the buffers", n_calls, 8, IDSET)
    # duplicate path: the popped value's pointer is not stored
    if ins is not None:
        for m in q.walk(ins["body"]):
            if m["k"] == "Match":
                for a in m["arms"]:
                    if "Occupied" in q.show_pat(a["pat"]):
                        stores = any(x["k"] == "MethodCall" and x["m"] in ("push", "insert") and any(q.show(x["recv"]).startswith("self." + pf) for pf in ptr_fields if "Vec<" in next(fl["ty"] for fl in st["fields"] if fl["name"] == pf)) for x in q.walk(a["body"]))
                        r.ob(not stores, "id_set.rs:insert:duplicate-path-stores-pointer", IDSET, a["l"], "the duplicate path must not record the pointer of the popped value")
    # (3b) membership, id and size queries answer from the index tables only: insert() swaps in a fresh buffer before it
    #      knows whether the value is a duplicate, so the occupancy of the storage buffers says nothing about membership
    nq = 0
    for f in q.find_fns(items, impl_ty="IdSet"):
        ret = (f.get("ret") or "").replace(" ", "")
        recv = next((p for p in f["params"] if p.get("self")), None)
        is_query = recv is not None and "mut" not in q.show(recv) if isinstance(recv, dict) and "k" in recv else (recv is not None and not recv.get("mut"))
        if f.get("body") is None or not is_query or ret not in ("bool", "usize", "u32", "Option<u32>"):
            continue
        nq += 1
        reads = sorted({x["f"] for x in q.walk(f["body"]) if x["k"] == "Field" and q.show(x["e"]) == "self" and x["f"] in buf_fields})
        r.ob(not reads, f"id_set.rs:{f['name']}:query-reads-storage-buffer", IDSET, f["l"],
             f"{f['name']} decides from the storage buffer(s) {reads}: after a duplicate insert that arrived at a full buffer the live buffer is empty although the set is not, so the answer disagrees with the map-plus-vector model",
             sample=f"{f['name']}: answers from the index tables only")
    r.count("membership / id / size queries", nq, 4, IDSET)
    # (3c) nor does any other method take the occupancy of a storage buffer for the state of the set (the live buffer is empty
    #      after a duplicate that arrived at a full buffer, while the set is not): only the capacity test may look at it
    for f in q.find_fns(items, impl_ty="IdSet"):
        if f.get("body") is None:
            continue
        for x in q.walk(f["body"]):
            if x["k"] != "If":
                continue
            occ = [y for y in q.walk(x["c"]) if y["k"] == "MethodCall" and y["m"] in ("is_empty", "len") and q.strip_refs(y["recv"])["k"] == "Field" and q.strip_refs(y["recv"])["f"] in buf_fields]
            if not occ:
                continue
            capacity_test = "capacity" in q.show(x["c"]) or any(z["k"] == "Call" and q.show(z["f"]).endswith("mem::replace") for z in q.walk(x["t"]))
            r.ob(capacity_test, f"id_set.rs:{f['name']}:decides-from-storage-buffer", IDSET, x["l"],
                 f"{f['name']} branches on `{q.show(x['c'])}`: the occupancy of a storage buffer is not the state of the set - after `insert a; insert b; insert a` the live buffer is empty while the set holds two values, so e.g. a `clear()` that returns early leaves every value, id and pointer in place",
                 sample=f"{f['name']}: buffer occupancy used for the capacity test only")
    # (4) nothing public exposes a pointer or a field
    for fl in st["fields"]:
        r.ob(fl["vis"] == "", f"id_set.rs:IdSet.{fl['name']}:public-field", IDSET, fl["l"], f"field {fl['name']} is `{fl['vis']}`: internal buffers/pointers must be private")
    for f in q.find_fns(items, impl_ty="IdSet"):
        if f["vis"].startswith("pub") and f.get("ret") and ("*mut" in f["ret"] or "*const" in f["ret"] or "Ptr<" in f["ret"]):
            r.find(f"id_set.rs:{f['name']}:exposes-pointer", IDSET, f["l"], f"public {f['name']} returns {f['ret']}")

def arena_layout(items):
    """(position field, current buffer field, retired buffers field) of the arena's state struct, found by type: the byte
    buffer is a Box<[..u8..]>, the retired ones a Vec of those, the write position the usize field."""
    for st, _ in q.iter_items(items):
        if st["k"] != "StructDef":
            continue
        tys = {fl["name"]: fl["ty"].replace(" ", "") for fl in st["fields"]}
        cur = [n for n, t in tys.items() if t.startswith("Box<[") and "u8" in t]
        old = [n for n, t in tys.items() if t.startswith("Vec<Box<[") and "u8" in t]
        pos = [n for n, t in tys.items() if t == "usize"]
        if len(cur) == 1 and len(old) == 1 and len(pos) == 1:
            return pos[0], cur[0], old[0]
    return None


def arena_alloc(ctx, r):
    """Arena::alloc with its helpers (closures and methods of this file) expanded in place."""
    items = ctx.file_items(ARENA)
    if items is None:
        r.missing("arena.rs")
        return None, None, None
    f = q.find_fn(items, "alloc", impl_ty="Arena")
    lay = arena_layout(items)
    if f is None or lay is None:
        r.missing("Arena::alloc / arena state struct", ARENA)
        return None, None, None
    f = dict(f)
    f["body"] = materialize(f["body"], closures_only=False)
    return items, f, lay


@rule("ARENA-BOUNDS", ["C38"], "an arena write is bounded by the buffer it writes into: switching buffers resets the offset and the new buffer holds value plus worst-case padding; old buffers are kept")
def arena_bounds(ctx, r):
    items, f, lay = arena_alloc(ctx, r)
    if f is None:
        return
    POS, CUR, OLD = lay
    writes = [x for x in q.walk(f["body"]) if x["k"] == "Call" and q.show(x["f"]).endswith("ptr::write")]
    r.count("raw writes", len(writes), 1, ARENA)
    swaps = [x for x in q.walk(f["body"]) if x["k"] == "If" and any(z["k"] == "Call" and q.show(z["f"]).endswith("mem::replace") and CUR in q.show(z["args"][0]) for z in q.walk(x["t"]))]
    if not swaps:
        r.missing("alloc:buffer-switch", ARENA)
        return
    sw = swaps[0]
    c = q.show(sw["c"]).replace(" ", "")
    r.ob(f"{CUR}.len()" in c and (">" in c), "arena.rs:alloc:bounds-check", ARENA, sw["l"], f"the buffer is switched under `{c}`: it must compare the end of the new allocation with the length of the current buffer", sample=f"alloc: switch iff {c}")
    # the comparison must bound the very extent that is written: every additive term of `start` and the size
    def terms(e):
        while e["k"] == "Paren":
            e = e["e"]
        if e["k"] == "Binary" and e["op"] == "+":
            return terms(e["a"]) | terms(e["b"])
        return {q.show(e).replace(" ", "")}

    cmpn = sw["c"]
    while cmpn["k"] == "Paren":
        cmpn = cmpn["e"]
    # the write position: the variable handed to `.add(..)` on the buffer's pointer, whatever it is called
    posv = next((q.show(x["args"][0]) for x in q.walk(f["body"]) if x["k"] == "MethodCall" and x["m"] == "add" and x["args"] and "as_mut_ptr" in q.show(x["recv"])), "start")
    start_l = [x for x in q.walk(f["body"]) if x["k"] == "Local" and q.pat_bindings(x["pat"]) == [posv] and x.get("init") is not None]
    if cmpn["k"] == "Binary" and cmpn["op"] in (">", ">=") and start_l:
        need = terms(start_l[0]["init"]) | {"size"}
        have = terms(cmpn["a"])
        missing = sorted(need - have)
        r.ob(not missing, "arena.rs:alloc:bounds-check-omits-a-term", ARENA, sw["l"],
             f"the value is written at [{q.show(start_l[0]['init'])}, .. + size) but the buffer is switched only when `{q.show(cmpn['a'])}` exceeds the length: {missing} is not counted, so a value that fits without it is written up to that many bytes past the end of the buffer",
             sample=f"alloc: bounds check covers {sorted(need)}")
    else:
        r.missing("alloc:bounds comparison / start", ARENA)
    resets = [x for x in q.walk(sw["t"]) if x["k"] == "Assign" and q.show(x["a"]).endswith("." + POS)]
    r.ob(bool(resets) and q.show(resets[0]["b"]) == "0", "arena.rs:alloc:offset-not-reset-on-buffer-switch", ARENA, sw["l"],
         "after replacing current_buf the write offset still counts from the old buffer: the bounds check above was made against the old length, so the write lands past the end of the new buffer when the allocation is larger than the previous buffer (a u8 then a u64 on an empty arena)",
         sample="alloc: offset = 0 in the buffer-switch branch")
    # start is computed after the switch from the (possibly reset) offset
    starts = [x for x in q.walk(f["body"]) if x["k"] == "Local" and q.pat_bindings(x["pat"]) == [posv]]
    r.ob(bool(starts) and starts[0]["l"] > sw["l"] and POS in q.idents_in(starts[0]["init"]) | {x["f"] for x in q.walk(starts[0]["init"]) if x["k"] == "Field"}, "arena.rs:alloc:start-before-switch", ARENA, f["l"], "the write position must be computed after the buffer switch from the current offset")
    # capacity of the new buffer covers size and padding
    caps = [q.show(x["args"][0]) for x in q.walk(sw["t"]) if x["k"] == "MethodCall" and x["m"] == "max"]
    ok = any("size" in c_ and ("align" in c_ or "padding" in c_) for c_ in caps)
    r.ob(ok, "arena.rs:alloc:new-buffer-too-small-for-padding", ARENA, sw["l"], f"the new buffer must hold at least one value plus its worst-case padding (`.max(size + align)`); it is sized with max({caps})", sample=f"alloc: new capacity max({caps})")
    # old buffers are only pushed
    bad = [x["m"] for g, _ in q.iter_items(items) if g["k"] == "Fn" and g.get("body") is not None for x in q.walk(g["body"]) if x["k"] == "MethodCall" and q.show(x["recv"]).endswith(OLD) and x["m"] != "push"]
    pushed = any(x["k"] == "MethodCall" and x["m"] == "push" and q.show(x["recv"]).endswith(OLD) for x in q.walk(sw["t"]))
    r.ob(pushed and not bad, "arena.rs:old-buffers-dropped", ARENA, sw["l"], f"replaced buffers must be kept alive for the arena's lifetime (pushed: {pushed}; other operations on old_bufs: {bad})", sample="alloc: old buffer pushed to old_bufs")
    # the offset advances past the value
    adv = [x for x in q.walk(f["body"]) if x["k"] == "Assign" and q.show(x["a"]).endswith("." + POS)]
    r.ob(any(q.show(x["b"]).replace(" ", "") == f"({posv}+size)" for x in adv), "arena.rs:alloc:offset-advance", ARENA, f["l"], "after a write the offset must advance to start + size (allocations must not overlap)", sample="alloc: offset = start + size")


@rule("ARENA-ALIGN", ["C38"], "padding is computed from the address (the byte buffers have alignment 1) and recomputed after a buffer switch")
def arena_align(ctx, r):
    items, f, lay = arena_alloc(ctx, r)
    if f is None:
        return
    # every `% align` must be applied to a value derived from a pointer address
    mods = [x for x in q.walk(f["body"]) if x["k"] == "Binary" and x["op"] == "%" and q.show(x["b"]) == "align"]
    r.count("alignment computations", len(mods), 1, ARENA)
    lets = {}
    for x in q.walk(f["body"]):
        if x["k"] == "Local" and x.get("init") is not None:
            for nme in q.pat_bindings(x["pat"]):
                lets[nme] = x["init"]

    def from_address(e, depth=0):
        s = q.show(e)
        if ("as_mut_ptr()" in s or "as_ptr()" in s) and "as usize" in s:
            return True
        if depth > 3:
            return False
        return any(from_address(lets[i], depth + 1) for i in q.idents_in(e) if i in lets)

    aligned_alloc = any(x["k"] == "Call" and q.show(x["f"]).split("::")[-1] in ("alloc", "from_size_align") for x in q.walk(f["body"]))
    for m in mods:
        ok = from_address(m["a"]) or aligned_alloc
        r.ob(ok, "arena.rs:alloc:padding-from-offset", ARENA, m["l"],
             f"padding is computed as `{q.show(m)}`: relative to the offset, but a Box<[MaybeUninit<u8>]> is only 1-aligned, so the returned reference can be misaligned for any T with alignment > 1",
             sample=f"alloc: padding from the address ({q.show(m['a'])[:60]})")
    swaps = [x for x in q.walk(f["body"]) if x["k"] == "If" and any(z["k"] == "Call" and q.show(z["f"]).endswith("mem::replace") for z in q.walk(x["t"]))]
    if swaps:
        re_pad = any(x["k"] == "Assign" and q.show(x["a"]) == "padding" for x in q.walk(swaps[0]["t"]))
        # or computed only once, after the switch, against the buffer the value lands in
        stmts = f["body"]["stmts"]
        si = next((i for i, s_ in enumerate(stmts) if any(y is swaps[0] for y in q.walk(s_))), None)
        if si is not None:
            pads = [i for i, s_ in enumerate(stmts) if s_["k"] == "Local" and "padding" in q.pat_bindings(s_["pat"])]
            if pads and all(i > si for i in pads):
                re_pad = True
        # and recomputed for the position the value will really be written at: after the position was reset
        POS = lay[0]
        flat = list(q.walk(swaps[0]["t"]))
        resets = [i_ for i_, x in enumerate(flat) if x["k"] == "Assign" and q.show(x["a"]).endswith("." + POS)]
        repads = [i_ for i_, x in enumerate(flat) if x["k"] == "Assign" and q.show(x["a"]) == "padding"]
        if resets and repads:
            r.ob(min(repads) > max(resets), "arena.rs:alloc:padding-computed-before-position-reset", ARENA, swaps[0]["l"],
                 "in the buffer-switch branch the padding is recomputed before the write position is reset to the start of the new buffer: it is the padding for `new buffer + old position`, while the value is placed at `new buffer + 0 + padding`, so a value that needs alignment lands misaligned whenever the old position was not a multiple of its alignment (u8, u8, u64 on a fresh arena)",
                 sample="alloc: position reset, then padding recomputed")
        r.ob(re_pad or aligned_alloc, "arena.rs:alloc:padding-not-recomputed", ARENA, swaps[0]["l"], "after switching to a new buffer (a different base address) the padding must be recomputed", sample="alloc: padding recomputed for the new buffer")

"""Optimiser / assembler group: ASM-TOTAL, PEEP-TABLES, PEEP-SOUND, FOLD."""
import itertools

from lib import ordcase as oc
from lib import synq as q
from lib import vmsig
from lib.core import rule
from lib.vmsig import sshow, subterms
from rules.vm_ops import VM, _arms, asm_to_vm, imm_pairs, outcome_table, root_operand, semop

OPT = "abra_core/src/optimize_bytecode.rs"
ASM = "abra_core/src/assembly.rs"
TB = "abra_core/src/translate_bytecode.rs"


def slot_pat(p):
    k = p["k"]
    if k == "PWild":
        return "_"
    if k == "PRest":
        return ".."
    if k == "PPath" and q.last_seg(p["p"]) == "Top":
        return "Top"
    if k == "PTupleStruct" and q.last_seg(p["p"]) == "Offset":
        return "Offset"
    if k == "PIdent":
        return "=" + p["name"]
    if k == "PLit":
        return "lit:" + p["v"]
    if k == "PRef":
        return slot_pat(p["pat"])
    return "?" + q.show_pat(p)


def instr_pats(p):
    """Flatten an instruction pattern into [(variant, [slot patterns])] (or-patterns expanded)."""
    k = p["k"]
    if k == "POr":
        out = []
        for c in p["cases"]:
            out += instr_pats(c)
        return out
    if k == "PTupleStruct":
        return [(q.last_seg(p["p"]), [slot_pat(e) for e in p["elems"]])]
    if k == "PStruct":
        return [(q.last_seg(p["p"]), [slot_pat(f["pat"]) for f in p["fields"]])]
    if k == "PPath":
        return [(q.last_seg(p["p"]), [])]
    if k == "PIdent":
        return [("=" + p["name"], [])]
    if k == "PWild":
        return [("_", [])]
    if k == "PRef":
        return instr_pats(p["pat"])
    return [("?" + q.show_pat(p), [])]


def predicate_table(fn):
    """fn body is `matches!(self, PAT)`: returns [(variant, slots)] or None."""
    for x in q.walk(fn["body"]):
        if x["k"] == "Macro" and x["name"] == "matches" and x.get("pat"):
            return instr_pats(x["pat"])
    return None


def rewriter_table(fn):
    """match self { Instr::V(a, _, c) => Instr::W(a, X, c), _ => panic }: returns {variant: (slots, target, args, line)}, has_panic_fallback."""
    out = {}
    fallback = None
    for m in q.walk(fn["body"]):
        if m["k"] != "Match":
            continue
        for arm in m["arms"]:
            ips = instr_pats(arm["pat"])
            if ips == [("_", [])]:
                fallback = "panic" if q.only_diverges(arm["body"]) else "other"
                continue
            body = arm["body"]
            if body["k"] == "Block" and len(body["stmts"]) == 1 and body["stmts"][0]["k"] == "ExprStmt":
                body = body["stmts"][0]["e"]
            tgt, args = None, None
            if body["k"] == "Call" and body["f"]["k"] == "Path":
                tgt = q.last_seg(body["f"]["p"])
                args = [q.show(a) for a in body["args"]]
            for v, slots in ips:
                out[v] = (slots, tgt, args, arm["l"])
        break
    return out, fallback


def opt_fns(ctx, r):
    items = ctx.file_items(OPT)
    if items is None:
        r.missing("optimize_bytecode.rs")
        return None
    # local closures (`let mut emit = |instr| ret.push(Line::Instr { instr, .. })`) are expanded at their call sites
    from lib.inline import materialize

    key = ("opt_fns", id(items))
    if key not in ctx._abra:
        ctx._abra[key] = {f["name"]: materialize(f) for f in q.find_fns(items)}
    return ctx._abra[key]


def asm_enum(ctx, r):
    items = ctx.file_items(ASM)
    if items is None:
        r.missing("assembly.rs")
        return None
    e = q.find_enum(items, "Instr")
    if e is None:
        r.missing("assembly.rs:enum Instr", ASM)
        return None
    return {v["name"]: [f["ty"] for f in v["fields"]] for v in e["variants"]}


# ------------------------------------------------------------------------------------------- ASM-TOTAL


@rule("ASM-TOTAL", ["C01", "C03", "C05", "C02"], "assembler is total, injective and positional; every constant looked up at assembly time is gathered")
def asm_total(ctx, r):
    items = ctx.file_items(ASM)
    if items is None:
        r.missing("assembly.rs")
        return
    f = q.find_fn(items, "instr_to_vminstr")
    if f is None:
        r.missing("instr_to_vminstr", ASM)
        return
    from lib.inline import materialize

    f = materialize(f)  # closures such as `let int_imm = |imm| constants.int_constants.try_get_id(imm).unwrap() as u16` expanded in place
    enum = asm_enum(ctx, r) or {}
    ms = [m for m in q.walk(f["body"]) if m["k"] == "Match"]
    if not ms:
        r.missing("instr_to_vminstr:match", ASM)
        return
    m = ms[0]
    seen_vm = {}
    covered = set()
    lookups = {}  # variant -> table
    for arm in m["arms"]:
        for v, slots in instr_pats(arm["pat"]):
            if v == "_" or v.startswith("="):
                r.find("assembly.rs:instr_to_vminstr:wildcard-arm", ASM, arm["l"], "instr_to_vminstr has a catch-all arm: a new assembly instruction would be assembled as something else")
                continue
            covered.add(v)
            body = arm["body"]
            call = None
            for x in q.walk(body):
                if x["k"] in ("Call",) and x["f"]["k"] == "Path" and x["f"]["p"].startswith("VmInstr::"):
                    call = x
                    break
                if x["k"] == "Path" and x["p"].startswith("VmInstr::"):
                    call = x
                    break
                if x["k"] == "Struct" and x["p"].startswith("VmInstr::"):
                    call = x
                    break
            if call is None:
                r.find(f"assembly.rs:instr_to_vminstr:{v}:no-vm-instruction", ASM, arm["l"], f"arm {v} does not construct a VM instruction")
                continue
            tgt = q.last_seg(call["f"]["p"] if call["k"] == "Call" else call["p"])
            if tgt in seen_vm and seen_vm[tgt] != v:
                r.find(f"assembly.rs:instr_to_vminstr:{v}:not-injective", ASM, arm["l"], f"assembly {v} and {seen_vm[tgt]} both assemble to VM {tgt}")
            seen_vm[tgt] = v
            # positional operands
            binds = [s[1:] if s.startswith("=") else None for s in slots]
            if call["k"] == "Call" and len(call["args"]) != len(binds):
                r.notes.append(f"{v}: operands packed into {len(call['args'])} argument(s) of VmInstr::{tgt} (not positional; not decided)")
            elif call["k"] == "Call":
                ok = True
                for j, a in enumerate(call["args"]):
                    ids = q.idents_in(a) & {b for b in binds if b}
                    if j < len(binds) and binds[j] and ids != {binds[j]}:
                        ok = False
                r.ob(ok, f"assembly.rs:instr_to_vminstr:{v}:operand-positions", ASM, arm["l"],
                     f"arm {v}: operands are not passed positionally to VmInstr::{tgt}: pattern {binds}, arguments {[q.show(a) for a in call['args']]}",
                     sample=f"{v} -> {tgt} positional {binds}")
            for x in q.walk(body):
                if x["k"] == "MethodCall" and x["m"] == "try_get_id":
                    tbl = q.show(x["recv"]).split(".")[-1]
                    lookups[v] = tbl
    for v in enum:
        r.ob(v in covered, f"assembly.rs:instr_to_vminstr:{v}:unhandled", ASM, f["l"], f"assembly instruction {v} has no arm in instr_to_vminstr")
    r.count("assembly instructions assembled", len(covered), 110, ASM)
    # VM step has no wildcard
    got = vmsig.step_arms(ctx, r)
    if got:
        arms, _, sm = got
        for arm in sm["arms"]:
            if any(h in ("_",) for h in q.pat_heads(arm["pat"])):
                r.find("vm.rs:step:wildcard-arm", VM, arm["l"], "step() has a catch-all arm")
        vm_enum = q.find_enum(ctx.file_items(VM), "Instr")
        handled = {v for v, _, _ in arms}
        for vv in vm_enum["variants"]:
            r.ob(vv["name"] in handled, f"vm.rs:step:{vv['name']}:unhandled", VM, vv["l"], f"VM instruction {vv['name']} has no arm in step()")
    # gather_constants covers every lookup
    titems = ctx.file_items(TB)
    g = q.find_fn(titems, "gather_constants") if titems else None
    if g is None:
        r.missing("gather_constants", TB)
        return
    gathered = {}
    for mm in q.walk(g["body"]):
        if mm["k"] != "Match":
            continue
        for arm in mm["arms"]:
            tbls = {q.show(x["recv"]).split(".")[-1] for x in q.walk(arm["body"]) if x["k"] == "MethodCall" and x["m"] == "insert"}
            for v, slots in instr_pats(arm["pat"]):
                for t in tbls:
                    gathered[v] = t
    for v, tbl in sorted(lookups.items()):
        r.ob(gathered.get(v) == tbl, f"translate_bytecode.rs:gather_constants:{v}", TB, g["l"],
             f"assembly {v} looks its operand up in {tbl} with try_get_id(..).unwrap(), but gather_constants inserts it into {gathered.get(v)}: assembling a program that uses it panics",
             sample=f"{v}: constant gathered into {tbl}")
    r.count("constant lookups", len(lookups), 26, ASM)


# ------------------------------------------------------------------------------------------- peephole extraction


def peephole_arms(fn, n):
    """Arms of the `match (instr1, .., instrn)` in a peephole helper: [(pats[n], guard, body, line)]."""
    out = []
    for m in q.walk(fn["body"]):
        if m["k"] == "Match" and m["e"]["k"] == "Tuple" and len(m["e"]["elems"]) == n:
            for arm in m["arms"]:
                if arm["pat"]["k"] == "PTuple" and len(arm["pat"]["elems"]) == n:
                    out.append((arm["pat"]["elems"], arm.get("guard"), arm["body"], arm["l"]))
                elif arm["pat"]["k"] == "PWild":
                    out.append((None, arm.get("guard"), arm["body"], arm["l"]))
            return out, m
    return out, None


def guard_calls(g):
    """[(receiver ident, method)] of predicate calls in a guard."""
    out = []
    if g is None:
        return out
    for x in q.walk(g):
        if x["k"] == "MethodCall" and x["recv"]["k"] == "Path":
            out.append((x["recv"]["p"], x["m"]))
    return out


def body_rewrite(body):
    """(pushed instruction expr | None, returns_true)."""
    pushed = None
    for x in q.walk(body):
        if x["k"] == "MethodCall" and x["m"] == "push" and q.show(x["recv"]) == "ret":
            for y in q.walk(x["args"][0]):
                if y["k"] == "Struct" and q.last_seg(y["p"]) == "Instr":
                    for fl in y["fields"]:
                        if fl["name"] == "instr":
                            pushed = fl["e"]
    st = q.body_stmts(body)
    ret = None
    if st and st[-1]["k"] == "ExprStmt":
        e = st[-1]["e"]
        if e["k"] == "Lit" and e["t"] == "bool":
            ret = e["v"] == "true"
        elif e["k"] == "If":
            ret = "cond"
    return pushed, ret


@rule("PEEP-TABLES", ["C05"], "peephole predicates accept only instructions their rewriter handles; rewriters change exactly the replaced slot")
def peep_tables(ctx, r):
    fns = opt_fns(ctx, r)
    if fns is None:
        return
    enum = asm_enum(ctx, r) or {}
    pairs_imm = {(a, b): k for a, b, k in imm_pairs(ctx, r)}
    p2 = fns.get("peephole2_helper")
    if p2 is None:
        r.missing("peephole2_helper", OPT)
        return
    arms, _ = peephole_arms(p2, 2)
    n_pairs = 0
    for pats, guard, body, line in arms:
        if pats is None:
            continue
        gcs = guard_calls(guard)
        if not gcs:
            continue
        pushed, _ = body_rewrite(body)
        if pushed is None:
            continue
        rewriters = [x["m"] for x in q.walk(pushed) if x["k"] == "MethodCall" and x["m"].startswith("replace_")]
        if not rewriters:
            continue
        rw_name = rewriters[0]
        rw = fns.get(rw_name)
        if rw is None:
            r.missing(rw_name, OPT)
            continue
        table, fallback = rewriter_table(rw)
        # which instruction is rewritten: the receiver of the rewriter call
        target_ident = None
        for x in q.walk(pushed):
            if x["k"] == "MethodCall" and x["m"] == rw_name:
                target_ident = next(iter(q.idents_in(x["recv"])), None)
        preds = [m for (recv, m) in gcs if recv == target_ident and m in fns]
        accepted = None
        slot_of = {}
        for pn in preds:
            t = predicate_table(fns[pn])
            if t is None:
                r.missing(f"{pn}:matches!", OPT)
                continue
            vs = {v for v, _ in t}
            accepted = vs if accepted is None else accepted & vs
            for v, slots in t:
                if "Top" in slots:
                    slot_of.setdefault(v, slots)
        if accepted is None:
            continue
        n_pairs += 1
        for v in sorted(accepted):
            ok = v in table
            r.ob(ok, f"optimize_bytecode.rs:{'+'.join(preds)}->{rw_name}:{v}:no-rewriter-arm", OPT, line,
                 f"predicate {'&&'.join(preds)} accepts {v} but {rw_name} has no arm for it (falls to `{fallback}`): optimising a program containing it panics the compiler",
                 sample=f"{'&&'.join(preds)} accepts {v}; {rw_name} handles it")
            if v not in enum:
                r.find(f"optimize_bytecode.rs:{preds[0]}:{v}:unknown-variant", OPT, line, f"{v} is not an assembly instruction")
    r.count("predicate/rewriter pairs", n_pairs, 5, OPT)
    # rewriter arms: identity except the replaced slot
    n_arms = 0
    for rw_name in ("replace_first_arg", "replace_second_arg", "replace_dest", "replace_second_arg_imm_int", "replace_second_arg_imm_float"):
        rw = fns.get(rw_name)
        if rw is None:
            r.missing(rw_name, OPT)
            continue
        param = [p for p in rw["params"] if not p.get("self")]
        pname = q.pat_bindings(param[0]["pat"])[0] if param else None
        table, fallback = rewriter_table(rw)
        for v, (slots, tgt, args, line) in sorted(table.items()):
            n_arms += 1
            wild = [i for i, s in enumerate(slots) if s == "_"]
            is_imm = rw_name.startswith("replace_second_arg_imm")
            ok_variant = (tgt == v) if not is_imm else ((v, tgt) in pairs_imm)
            ok_slots = args is not None and len(args) == len(slots) and len(wild) == 1
            if ok_slots:
                for i, s in enumerate(slots):
                    if i == wild[0]:
                        ok_slots = ok_slots and args[i] == pname
                    else:
                        ok_slots = ok_slots and s == "=" + args[i]
            r.ob(ok_variant and ok_slots, f"optimize_bytecode.rs:{rw_name}:{v}:not-identity-elsewhere", OPT, line,
                 f"{rw_name} arm {v}{slots} => {tgt}({args}) must keep the instruction and every slot except the replaced one",
                 sample=f"{rw_name}: {v}{slots} => {tgt}({', '.join(args or [])})")
            # replaced slot type must be a register for reg rewrites
            if not is_imm and ok_slots and v in enum:
                r.ob(enum[v][wild[0]] == "Reg", f"optimize_bytecode.rs:{rw_name}:{v}:replaced-slot-not-a-register", OPT, line, f"{rw_name} arm {v}: slot {wild[0]} has type {enum[v][wild[0]]}")
    r.count("rewriter arms", n_arms, 179, OPT)


# ------------------------------------------------------------------------------------------- PEEP-SOUND


def stack_seq(an):
    """Ordered stack accesses of a VM arm: ('r', pos) register read, ('p',) anonymous pop/peek, ('w', pos) register store, ('u',) push."""
    seq = []
    for ev in an.events:
        if ev.kind == "read":
            seq.append(("r", ev.data[0], ev.conds))
        elif ev.kind in ("pop", "popn", "peek"):
            seq.append(("p", None, ev.conds))
        elif ev.kind == "store":
            seq.append(("w", ev.data[0], ev.conds))
        elif ev.kind in ("push", "settop"):
            seq.append(("u", None, ev.conds))
    return seq

def _declines(n):
    """Does the expression/block evaluate to (or return) false and do nothing else?"""
    if n is None:
        return False
    while n.get("k") in ("Paren",):
        n = n["e"]
    if n.get("k") == "Lit":
        return n.get("t") == "bool" and n.get("v") == "false"
    if n.get("k") == "Return":
        return n.get("e") is not None and _declines(n["e"])
    if n.get("k") == "Block":
        st = q.body_stmts(n)
        return len(st) == 1 and st[0]["k"] == "ExprStmt" and _declines(st[0]["e"])
    return False


def _window_offset(e):
    """k for an expression that reads `lines[index + k]` / `lines.get(index + k)` (through clone / refs); None otherwise."""
    e = q.strip_refs(e)
    while e.get("k") == "MethodCall" and e["m"] in ("clone", "as_ref", "cloned", "copied"):
        e = q.strip_refs(e["recv"])
    idx = None
    if e.get("k") == "Index" and q.show(q.strip_refs(e["e"])) == "lines":
        idx = e["i"]
    elif e.get("k") == "MethodCall" and e["m"] == "get" and q.show(q.strip_refs(e["recv"])) == "lines" and len(e["args"]) == 1:
        idx = e["args"][0]
    if idx is None:
        return None
    while idx.get("k") == "Paren":
        idx = idx["e"]
    if idx.get("k") == "Path" and idx["p"] in ("index", "idx", "i"):
        return 0
    if idx.get("k") == "Binary" and idx["op"] == "+":
        for a, b in ((idx["a"], idx["b"]), (idx["b"], idx["a"])):
            if a.get("k") == "Path" and b.get("k") == "Lit":
                try:
                    return int(str(b["v"]).rstrip("usize").rstrip("_") or 0)
                except ValueError:
                    return None
    return None


def window_binders(f):
    """{instruction variable: (offset k, declines_otherwise)} for every variable bound to the `instr` field of a `Line::Instr`
    pattern applied to `lines[index + k]`, whatever the construct: match arm, `if .. let`, or `let .. else`."""
    out = {}

    def instr_var(pat):
        for p in q.walk(pat):
            if p["k"] == "PStruct" and q.last_seg(p["p"]) == "Instr" and "Line" in p["p"]:
                for fl in p["fields"]:
                    if fl["name"] == "instr":
                        bs = q.pat_bindings(fl["pat"])
                        if bs:
                            return bs[0]
        return None

    def pairs(pat, e):
        """(sub-pattern, sub-expression) pairs of a destructuring, component by component for tuples."""
        e0 = e
        while e0.get("k") == "Paren":
            e0 = e0["e"]
        if pat.get("k") == "PTuple" and e0.get("k") == "Tuple" and len(pat["elems"]) == len(e0["elems"]):
            for sp, se in zip(pat["elems"], e0["elems"]):
                yield from pairs(sp, se)
        else:
            yield pat, e

    def record(pat, e, declines):
        for sp, se in pairs(pat, e):
            v = instr_var(sp)
            k = _window_offset(se)
            if v and k is not None:
                out[v] = (k, declines)

    for x in q.walk(f["body"]):
        if x["k"] == "Match":
            for a in x["arms"]:
                others = [b for b in x["arms"] if b is not a]
                record(a["pat"], x["e"], all(_declines(b["body"]) for b in others))
        elif x["k"] == "Local" and x.get("else") is not None and x.get("init") is not None:
            record(x["pat"], x["init"], _declines(x["else"]))
        elif x["k"] == "If":
            for c in q.walk(x["c"]):
                if c["k"] == "Let":
                    record(c["pat"], c["e"], _declines(x.get("e")))
    return out


@rule("PEEP-SOUND", ["C05", "C16", "C15"], "each peephole rewrite preserves the stack effect given the VM arm's operand access order; control rewrites match the jump arms")
def peep_sound(ctx, r):
    fns = opt_fns(ctx, r)
    arms = _arms(ctx, r)
    if fns is None or arms is None:
        return
    by = {v: an for v, arm, an in arms}
    a2v = asm_to_vm(ctx, r)
    enum = asm_enum(ctx, r) or {}
    p2 = fns.get("peephole2_helper")
    if p2 is None:
        r.missing("peephole2_helper", OPT)
        return
    parms, m = peephole_arms(p2, 2)
    r.count("two-instruction rewrite arms", len([a for a in parms if a[0]]), 14, OPT)
    # multi-instruction windows never span a label: every instruction of the window is bound through a `Line::Instr`
    # pattern on `lines[index + k]`, and when that pattern does not match the helper declines (false)
    for name, n in (("peephole2_helper", 2), ("peephole3_helper", 3)):
        f = fns.get(name)
        if f is None:
            r.missing(name, OPT)
            continue
        _, pm = peephole_arms(f, n)
        if pm is None:
            r.missing(f"{name}:window match", OPT)
            continue
        names = [q.show(q.strip_refs(e)) for e in pm["e"]["elems"]]
        bound = window_binders(f)
        got = {}
        for k, nm in enumerate(names):
            b = bound.get(nm)
            if b is not None and b[0] == k:
                got[k] = b
        later = [k for k in range(1, n) if k in got and got[k][1]]
        r.ob(len(later) >= n - 1, f"optimize_bytecode.rs:{name}:window-may-span-label", OPT, f["l"],
             f"{name} must bind each of the {n - 1} following lines through a Line::Instr pattern on `lines[index + k]` and decline otherwise (a window spanning a label would swallow a jump target); found {len(later)} of {names[1:]}",
             sample=f"{name}: {len(later)} following lines bound as Line::Instr")
        r.ob(0 in got and got[0][1], f"optimize_bytecode.rs:{name}:label-first", OPT, f["l"], f"{name}: a window starting at a label must be declined (`{names[0]}` must come from a Line::Instr pattern on `lines[index]`, every other case giving false)")
    earlier_top = {}  # variant -> set of slots for which an earlier rule fires when the slot is Top
    for idx, (pats, guard, body, line) in enumerate(parms):
        if pats is None:
            continue
        gcs = guard_calls(guard)
        pushed, ret = body_rewrite(body)
        i1 = instr_pats(pats[0])
        i2 = instr_pats(pats[1])
        rewriters = [x["m"] for x in q.walk(pushed) if x["k"] == "MethodCall" and x["m"].startswith("replace_")] if pushed else []
        if rewriters:
            rw = rewriters[0]
            preds = [mn for _, mn in gcs if mn in fns and predicate_table(fns[mn]) is not None]
            tables = [predicate_table(fns[p]) for p in preds]
            # instructions accepted with their slot patterns (from the first predicate that constrains slots)
            acc = None
            for t in tables:
                vs = {v for v, _ in t}
                acc = vs if acc is None else acc & vs
            slotpats = {}
            for t in tables:
                for v, slots in t:
                    if v in (acc or ()) and any(s in ("Top", "Offset") for s in slots):
                        slotpats.setdefault(v, []).append(slots)
            for v in sorted(acc or ()):
                vm = a2v.get(v)
                an = by.get(vm)
                if an is None:
                    r.missing(f"vm-arm-for:{v}", VM)
                    continue
                seq = stack_seq(an)
                for slots in slotpats.get(v, [["?"]]):
                    key = f"optimize_bytecode.rs:{rw}:{v}"
                    if rw in ("replace_second_arg", "replace_second_arg_imm_int", "replace_second_arg_imm_float"):
                        # LoadOffset(x)/Push(c); Op(.., Top at slot s)  ->  Op(.., x): valid iff the arm's first stack access reads slot s
                        s = slots.index("Top") if "Top" in slots else None
                        ok = s is not None and bool(seq) and seq[0][0] == "r" and seq[0][1] == s
                        r.ob(ok, key + ":operand-not-read-first", OPT, line,
                             f"`Load/Push; {v}(.., Top)` is rewritten into a register/immediate operand in slot {s}, but VM arm {vm} accesses the stack in order {[(k, p) for k, p, _ in seq][:4]}: the value moved into the instruction is not the first one it consumes",
                             sample=f"{rw}: {v} slot {s} is the first stack access of {vm}")
                        if s is not None and idx == first_index(parms, rw):
                            earlier_top.setdefault(v, set()).add(s)
                    elif rw == "replace_first_arg":
                        f_slot = slots.index("Top") if "Top" in slots else None
                        # every stack access before the read of f_slot must be a read of a slot constrained to Offset / immediate
                        ok = f_slot is not None
                        why = ""
                        if ok:
                            for k, p, _ in seq:
                                if k == "r" and p == f_slot:
                                    break
                                if k == "r":
                                    ty = enum.get(v, [None] * 8)[p] if p < len(enum.get(v, [])) else None
                                    if ty != "Reg":
                                        continue
                                    if slots[p] == "Offset":
                                        continue
                                    if p in earlier_top.get(v, set()):
                                        continue  # an earlier rule fires when that slot is Top
                                    ok = False
                                    why = f"slot {p} may be Top and is read before slot {f_slot}"
                                    break
                                ok = False
                                why = f"the arm performs a {k} access before reading slot {f_slot}"
                                break
                            else:
                                ok = False
                                why = f"slot {f_slot} is never read"
                        r.ob(ok, key + ":first-operand-not-next", OPT, line,
                             f"`Load(x); {v}{slots}` -> operand x in slot {f_slot}: unsound for VM arm {vm}: {why}",
                             sample=f"{rw}: {v}{slots}: slot {f_slot} is the next stack access of {vm}")
                    elif rw == "replace_dest":
                        d = slots.index("Top") if "Top" in slots else None
                        writes = [(k, p) for k, p, _ in seq if k in ("w", "u")]
                        ok = d is not None and writes and writes[-1] == ("w", d) and len(writes) == 1 and seq[-1][0] == "w"
                        r.ob(ok, key + ":dest-not-last-effect", OPT, line,
                             f"`{v}(Top, ..); StoreOffset(n)` -> `{v}(n, ..)`: VM arm {vm} must write slot {d} as its only and last stack effect; it does {[(k, p) for k, p, _ in seq]}",
                             sample=f"{rw}: {v} writes slot {d} last")
            continue
        # concrete rewrites: compare the effect of the window and of its replacement on an abstract stack
        if ret is False:
            continue
        check_concrete_rewrite(r, by, a2v, pats, guard, pushed, line, preds={nm: t for nm, fn_ in fns.items() if fn_ is not None and fn_.get("body") is not None and nm not in ("peephole2_helper", "peephole3_helper") for t in [predicate_table(fn_)] if t})


def first_index(parms, rw):
    for i, (pats, guard, body, line) in enumerate(parms):
        if pats is None:
            continue
        pushed, _ = body_rewrite(body)
        if pushed and any(x["k"] == "MethodCall" and x["m"] == rw for x in q.walk(pushed)):
            return i
    return -1


class AbsMachine:
    """Executes a VM arm's event list on an abstract stack (symbolic entries) with concrete instruction immediates."""

    def __init__(self, stack):
        self.stack = list(stack)
        self.jump = None
        self.locals = {}
        self.fault = None

    def run(self, an, imm):
        """imm: {binding position: value}; a register slot value is 'Top' or ('Offset', n)."""
        vals = {}

        def ev_val(s):
            if not isinstance(s, tuple):
                return s
            t = s[0]
            if t == "instr":
                return imm.get(s[1], ("imm", s[2]))
            if t in ("opnd", "stk"):
                key = (t, s[1])
                v = vals.get(key, ("?",))
                return v
            if t == "lit":
                return {"true": True, "false": False}.get(s[1], s[1])
            if t == "un" and s[1] == "!":
                v = ev_val(s[2])
                return (not v) if isinstance(v, bool) else ("not", v)
            if t == "bin" and s[1] in ("==", "!=", "&&", "||"):
                a, b = ev_val(s[2]), ev_val(s[3])
                if isinstance(a, bool) and isinstance(b, bool):
                    return {"==": a == b, "!=": a != b, "&&": a and b, "||": a or b}[s[1]]
                return ("expr", sshow(s))
            if t == "imm":
                return ("const", imm.get(s[1]))
            if t == "local":
                return self.locals.get(ev_val(s[1]), ("local", ev_val(s[1])))
            if t == "lit":
                return s[1]
            return ("expr", sshow(s))

        def mult(conds):
            m = 1
            for c, pol in conds:
                if isinstance(c, tuple) and c[0] == "loop" and isinstance(c[1], tuple) and c[1][0] == "range":
                    a, b = ev_val(c[1][1]), ev_val(c[1][2])
                    try:
                        m *= max(0, int(b) - int(a))
                    except (TypeError, ValueError):
                        return None
            return m

        def holds(conds):
            for c, pol in conds:
                if isinstance(c, tuple) and c[0] == "loop" and isinstance(c[1], tuple) and c[1][0] == "range":
                    continue
                v = ev_val(c)
                if not isinstance(v, bool):
                    return None
                if v != pol:
                    return False
            return True

        for ev in an.events:
            h = holds(ev.conds)
            if h is None:
                self.fault = "condition not evaluable"
                return
            if not h:
                continue
            k = ev.kind
            reps = mult(ev.conds)
            if reps is None:
                self.fault = "loop bound not evaluable"
                return
            if k == "push" and reps != 1:
                for _ in range(reps):
                    self.stack.append(ev_val(ev.data[0]))
                continue
            if reps == 0:
                continue
            if k == "pop":
                if not self.stack:
                    self.fault = "underflow"
                    return
                vals[("stk", ev.data[0])] = self.stack.pop()
            elif k == "peek":
                if not self.stack:
                    self.fault = "underflow"
                    return
                vals[("stk", ev.data[0])] = self.stack[-1]
            elif k == "read":
                reg = imm.get(ev.data[0])
                if reg == "Top":
                    if not self.stack:
                        self.fault = "underflow"
                        return
                    vals[("opnd", ev.data[0])] = self.stack.pop()
                else:
                    vals[("opnd", ev.data[0])] = self.locals.get(reg, ("local", reg))
            elif k == "push":
                self.stack.append(ev_val(ev.data[0]))
            elif k == "store":
                reg = imm.get(ev.data[0])
                if reg == "Top":
                    self.stack.append(ev_val(ev.data[1]))
                else:
                    self.locals[reg] = ev_val(ev.data[1])
            elif k == "localstore":
                self.locals[("Offset", ev_val(ev.data[0]))] = ev_val(ev.data[1])
            elif k == "localread":
                pass
            elif k == "assign" and ev.data[0] == ("self", "pc"):
                self.jump = ev_val(ev.data[1])
            elif k in ("access", "cast", "binop", "mcall", "index", "inline", "helper-ret"):
                # markers of a helper expanded in place: its own events follow with their conditions
                pass
            else:
                self.fault = f"event {k} not modelled"
                return

    def state(self):
        return (tuple(map(str, self.stack)), str(self.jump), tuple(sorted((str(k), str(v)) for k, v in self.locals.items())), self.fault)


def concrete_instances(pat):
    """Enumerate concrete instances of an instruction pattern: [(variant, {pos: value}, {binding: value})]."""
    out = []
    for v, slots in instr_pats(pat):
        if v.startswith("=") or v == "_":
            return None
        choices = []
        for s in slots:
            if s == "Top":
                choices.append([("Top", None)])
            elif s.startswith("lit:"):
                lit = s[4:]
                choices.append([({"true": True, "false": False}.get(lit, int(lit) if lit.lstrip("-").isdigit() else lit), None)])
            elif s.startswith("="):
                choices.append([(x, s[1:]) for x in ("$sym",)])
            elif s == "_":
                choices.append([("$any", None)])
            else:
                return None
        for combo in itertools.product(*choices):
            out.append((v, combo))
    return out


BINDING_DOMAINS = {"bool": [True, False], "u16": [0, 1, 2], "i16": [("Offset", 3)], "AbraInt": [7], "Label": ["L"], "String": ["s"]}


def _error_kinds(an):
    """Runtime error kinds a VM arm can record."""
    out = set()
    for ev in (an.events if an is not None else []):
        if ev.kind == "assign" and ev.data[0] == ("self", "error"):
            for t in subterms_of(ev.data[1]):
                if isinstance(t, tuple) and t and t[0] == "error":
                    out.add(t[1])
    return out


def subterms_of(s):
    if isinstance(s, tuple):
        yield s
        for x in s:
            yield from subterms_of(x)
    elif isinstance(s, list):
        for x in s:
            yield from subterms_of(x)


def check_concrete_rewrite(r, by, a2v, pats, guard, pushed, line, preds=None):
    i1 = instr_pats(pats[0])
    i2 = instr_pats(pats[1])
    label = " ; ".join(q.show_pat(p) for p in pats)
    key = "optimize_bytecode.rs:peephole2:" + "+".join(v for v, _ in i1) + ";" + "+".join(v for v, _ in i2)
    if guard is not None:
        # `(x, ..) if x.pred()` with `pred` a table of instruction forms (`matches!(self, A(..) | B(..))`): the bound slot
        # stands for each listed form in turn
        g = guard
        while g["k"] == "Paren":
            g = g["e"]
        tbl = None
        if g["k"] == "MethodCall" and g["recv"]["k"] == "Path" and not g["args"] and preds and g["m"] in preds:
            tbl = preds[g["m"]]
            b = "=" + g["recv"]["p"]
            if i1 == [(b, [])]:
                i1 = tbl
            elif i2 == [(b, [])]:
                i2 = tbl
            else:
                tbl = None
        if tbl is None:
            r.missing(key + ":guarded-concrete-rewrite", OPT, "a concrete rewrite with a guard that is not a table predicate on a whole instruction is not modelled")
            return
    enum_items = None
    n = 0
    for (v1, s1), (v2, s2) in itertools.product(i1, i2):
        an1, an2 = by.get(a2v.get(v1)), by.get(a2v.get(v2))
        if an1 is None or an2 is None:
            r.missing(key + ":vm-arm", VM)
            return
        # bindings and their domains
        binds = {}
        for slots in (s1, s2):
            for s in slots:
                if s.startswith("="):
                    binds[s[1:]] = None
        # replacement
        rep = None
        if pushed is not None:
            if pushed["k"] == "Call" and pushed["f"]["k"] == "Path":
                rep = (q.last_seg(pushed["f"]["p"]), pushed["args"])
            elif pushed["k"] == "Path":
                rep = (q.last_seg(pushed["p"]), [])
            else:
                r.missing(key + ":replacement-form", OPT, q.show(pushed))
                return
        # the same stack effect is not enough: an instruction that can stop the program with a runtime error may only be
        # replaced by something that raises the same error (decided from the arms' error events, before any execution)
        anr0 = by.get(a2v.get(rep[0])) if rep is not None else None
        lost = (_error_kinds(an1) | _error_kinds(an2)) - (_error_kinds(anr0) if anr0 is not None else set())
        if lost:
            r.find(key + f":drops-runtime-error:{v1};{v2}", OPT, line,
                   f"rewrite `{label}` ({v1}; {v2}): the window can stop the program with {sorted(lost)} (the VM arm of {v1 if _error_kinds(an1) else v2} checks its operation), its replacement {'is empty' if anr0 is None else 'cannot'}: `a + b` as a statement with an overflowing sum no longer reports the overflow, and the program behaves differently with and without the optimiser")
            continue
        doms = []
        names = sorted(binds)
        for b in names:
            doms.append(binding_domain(b, (v1, s1), (v2, s2)))
        for combo in itertools.product(*doms):
            bv = dict(zip(names, combo))
            if (v1, v2, tuple(sorted(bv.items()))) in EXCLUDED_INSTANCES:
                continue
            imm1 = slots_to_imm(s1, bv)
            imm2 = slots_to_imm(s2, bv)
            immr = {}
            anr = None
            if rep is not None:
                anr = by.get(a2v.get(rep[0]))
                if anr is None:
                    r.missing(key + ":replacement-arm", VM)
                    return
                bad = None
                for j, a in enumerate(rep[1]):
                    val = eval_simple(a, bv)
                    if val is OVERFLOW:
                        bad = f"`{q.show(a)}` underflows for {bv}"
                    immr[j] = val
                if bad:
                    r.find(key + ":replacement-arithmetic", OPT, line, f"rewrite `{label}`: {bad}: the optimiser panics (debug) or emits a wrapped operand (release)")
                    return
            evaluated = 0
            for init in (["s0", "s1", "s2"], ["s0", "s1", True], ["s0", "s1", False]):
                lhs = AbsMachine(init)
                lhs.run(an1, imm1)
                if lhs.fault is None:
                    lhs.run(an2, imm2)
                rhs = AbsMachine(init)
                if anr is not None:
                    rhs.run(anr, immr)
                if "condition not evaluable" in (lhs.fault, rhs.fault) and init[-1] == "s2":
                    continue  # needs a concrete boolean on top: covered by the next two initial stacks
                evaluated += 1
                n += 1
                if lhs.fault or rhs.fault:
                    r.missing(key + ":abstract-execution", OPT, f"{lhs.fault or rhs.fault}")
                    return
                if lhs.state() != rhs.state():
                    r.find(key + ":effect-differs", OPT, line,
                           f"rewrite `{label}` with {bv} on stack {init}: the window leaves (stack, jump, locals) = {lhs.state()[:3]} but its replacement leaves {rhs.state()[:3]}")
                    return
            if not evaluated:
                r.missing(key + ":abstract-execution", OPT, "no initial stack could be evaluated")
                return
    r.ob(True, key, OPT, line, "", sample=f"rewrite `{label}`: same stack/jump/locals effect in {n} concrete instances")


# instances excluded from a concrete rewrite check, each with the reason (never wider than one instance)
EXCLUDED_INSTANCES = {
    # PushNil(0) is emitted only as a function prologue (PushNil(locals.len()) with no locals), where the frame is
    # empty; it cannot be followed by Pop in generated code, and peephole1 deletes it.
    ("PushNil", "Pop", (("n", 0),)): "PushNil(0);Pop is not generated",
}


class _Ovf:
    pass


OVERFLOW = _Ovf()


def binding_domain(b, p1, p2):
    if b in ("b",):
        return [True, False]
    if b in ("n",):
        return [0, 1, 2]
    if b in ("offset",):
        return [("Offset", 3)]
    if b in ("label", "target"):
        return ["L"]
    return [7]


def slots_to_imm(slots, bv):
    imm = {}
    for j, s in enumerate(slots):
        if s == "Top":
            imm[j] = "Top"
        elif s.startswith("lit:"):
            lit = s[4:]
            imm[j] = {"true": True, "false": False}.get(lit, int(lit) if lit.lstrip("-").isdigit() else lit)
        elif s.startswith("="):
            imm[j] = bv[s[1:]]
        elif s == "Offset":
            imm[j] = ("Offset", 3 + j)
        elif s == "_":
            imm[j] = 7
    return imm


def eval_simple(e, bv):
    k = e["k"]
    if k == "Path":
        return bv.get(e["p"], e["p"])
    if k == "Unary" and e["op"] == "*":
        return eval_simple(e["e"], bv)
    if k == "Unary" and e["op"] == "!":
        return not eval_simple(e["e"], bv)
    if k == "MethodCall" and e["m"] == "clone":
        return eval_simple(e["recv"], bv)
    if k == "Binary" and e["op"] in ("-", "+"):
        a, b = eval_simple(e["a"], bv), eval_simple(e["b"], bv)
        if isinstance(a, int) and isinstance(b, int):
            v = a - b if e["op"] == "-" else a + b
            return OVERFLOW if v < 0 else v
    if k == "Lit":
        return int(e["v"]) if e["t"] == "int" else e["v"]
    return ("expr", q.show(e))


# ------------------------------------------------------------------------------------------- FOLD

FOLD_OPS = {
    "checked_add": "+", "checked_sub": "-", "checked_mul": "*", "checked_div": "/", "checked_pow": "pow",
    "+": "+", "-": "-", "*": "*", "/": "/", "powf": "powf", "wrapping_rem_euclid": "rem_euclid", "checked_rem_euclid": "rem_euclid",
}


@rule("FOLD", ["C05", "C15", "C16"], "constant folds compute with the arm's operator and are declined wherever the arm would raise an error")
def fold(ctx, r):
    fns = opt_fns(ctx, r)
    arms = _arms(ctx, r)
    if fns is None or arms is None:
        return
    by = {v: an for v, arm, an in arms}
    a2v = asm_to_vm(ctx, r)
    p3 = fns.get("peephole3_helper")
    if p3 is None:
        r.missing("peephole3_helper", OPT)
        return
    parms, _ = peephole_arms(p3, 3)
    n = 0
    for pats, guard, body, line in parms:
        if pats is None:
            continue
        i1, i2, i3 = instr_pats(pats[0]), instr_pats(pats[1]), instr_pats(pats[2])
        if len(i1) != 1 or len(i2) != 1 or len(i3) != 1:
            r.missing("peephole3:or-pattern", OPT)
            continue
        (v1, s1), (v2, s2), (v3, s3) = i1[0], i2[0], i3[0]
        key = f"optimize_bytecode.rs:peephole3:{v3}"
        n += 1
        if not (v1 == v2 and v1 in ("PushInt", "PushFloat") and s3 == ["Top", "Top", "Top"] and s1[0].startswith("=") and s2[0].startswith("=")):
            r.find(key + ":unclassified-window", OPT, line, f"three-instruction rewrite {v1};{v2};{v3}{s3} is not a constant fold of two pushed literals: not covered by the fold rules")
            continue
        kind = "int" if v1 == "PushInt" else "float"
        an = by.get(a2v.get(v3))
        if an is None:
            r.missing(key + ":vm-arm", VM)
            continue
        so = semop(an)
        # analyse the fold arm with its two literals named like the VM arm's operands
        fa = vmsig.ArmAnalyzer({})
        fa.variant, fa.binds = v3, []
        fa.events, fa.stk_n, fa.unknown, fa._assume = [], 0, [], None
        env = {s1[0][1:]: ("opnd", 1, kind), s2[0][1:]: ("opnd", 2, kind)}
        conds = []
        if guard is not None:
            g = fa._expr(guard, env, [], 0)
            conds = [(g, True)]
        fa._block(body, env, conds, 0)
        pushes = [ev for ev in fa.events if ev.kind == "mcall" and ev.data[0] == "push" and sshow(ev.data[1]) == "ret"]
        if len(pushes) != 1:
            r.missing(key + ":fold-push", OPT, f"{len(pushes)} pushes")
            continue
        pev = pushes[0]
        # folded value
        val = None
        for t in subterms(pev.data[2][0]):
            if t[0] == "struct":
                for name, fv in t[2]:
                    if name == "instr" and fv[0] == "fn" and fv[2]:
                        val = fv[2][0]
        if val is None:
            r.missing(key + ":folded-value", OPT)
            continue
        while val[0] == "call" and val[1] in ("to_string",):
            val = val[2]
        fop = (val[1], [val[2], val[3]]) if val[0] == "bin" else ((val[1], [val[2]] + list(val[3])) if val[0] == "call" else None)
        if fop is None or so is None:
            r.missing(key + ":operators", OPT, f"fold value {sshow(val)}; arm op {so}")
            continue
        # (a) same operator, same operand order
        same_op = FOLD_OPS.get(so[0]) == FOLD_OPS.get(fop[0], fop[0])
        order = [root_operand(a)[1] for a in fop[1]] == [root_operand(a)[1] for a in so[1]]
        r.ob(same_op and order, key + ":operator", OPT, line,
             f"fold of {v3} computes `{sshow(val)}` but the VM arm computes `{so[0]}` on operands {[sshow(a) for a in so[1]]}",
             sample=f"fold {v3}: `{sshow(val)}` ~ arm `{so[0]}`")
        # (b) declined wherever the arm errors; (c) folded value exact under the guard
        try:
            A, B = ("opnd", 1, kind), ("opnd", 2, kind)
            atoms, arm_table = outcome_table(an, atoms_from=[A, B])
            fatoms = oc.collect_atoms([c for c, _ in pev.conds] + [A, B])
            bad = None
            ncase = 0
            for envv in oc.assignments(fatoms):
                taken = oc.holds(pev.conds, envv)
                if not taken:
                    continue
                ncase += 1
                arm_out = arm_table.get(tuple(sorted((k, envv[k]) for k in atoms)))
                if arm_out is None:
                    raise oc.Unknown("arm table does not cover the fold's operands")
                if arm_out != ("ok",):
                    bad = (envv, f"the fold replaces the operation although the VM arm stops with {arm_out[1]}")
                    break
                if kind == "int":
                    # casts inside the folded expression must be value-preserving under the guard
                    for t in subterms(val):
                        if t[0] == "cast" and t[1] in oc.CASTS:
                            if oc.evaluate(t, envv) != oc.evaluate(t[2], envv):
                                bad = (envv, f"`{sshow(t)}` changes the operand")
                                break
                    if bad:
                        break
            if bad:
                envv, why = bad
                r.find(key + ":folds-an-error-case", OPT, line, f"fold of {v3}: for {', '.join(f'{k}={v}' for k, v in sorted(envv.items()))} {why}")
            else:
                r.ob(True, key, OPT, line, "", sample=f"fold {v3}: declined on every error case of the arm ({ncase} folded ordering cases)")
        except oc.Unknown as e:
            texts = [t for c, _ in pev.conds for t in subterms(c) if isinstance(t, tuple) and t and t[0] == "text"]
            if texts:
                r.find(key + ":guard-compares-spelling", OPT, line,
                       f"fold of {v3}: the condition under which the fold is taken compares the literal's spelling with {sorted({repr(t[1]) for t in texts})}; a literal has many spellings of the same value (`0.0`, `0.00`, `0`, `-0`, the text produced by an earlier fold), so the error cases of the VM arm are not excluded by value")
            else:
                r.missing(key + ":case-table", OPT, f"not evaluable: {e}")
    r.count("constant-fold cases", n, 10, OPT)
    # one-instruction rewrites
    p1 = fns.get("peephole1_helper")
    if p1 is None:
        r.missing("peephole1_helper", OPT)

"""Rules over the Abra sources (prelude.abra, core/map.abra, core/set.abra), parsed by the independent abrasyn parser."""
import itertools
import os
import re

from lib import abrasyn as A
from lib import synq as q
from lib.core import rule
from rules.pipe import actions
from rules.vm_ops import VM, _arms, asm_to_vm, root_operand, semop
from rules.vm_state import STR_OPS

PRELUDE = "modules/prelude.abra"
MAP = "modules/core/map.abra"
SET = "modules/core/set.abra"
TB = "abra_core/src/translate_bytecode.rs"
INTR = "abra_core/src/intrinsic.rs"


def abra(ctx, r, rel):
    key = ("abra", rel)
    if key in ctx._abra:
        return ctx._abra[key]
    p = os.path.join(ctx.root, rel)
    if not os.path.exists(p):
        r.missing(rel)
        ctx._abra[key] = None
        return None
    try:
        items = A.parse_file(p)
    except A.ParseError as e:
        r.missing(f"{rel}:parse", rel, f"independent Abra parser failed: {e}")
        items = None
    ctx._abra[key] = items
    return items


def snake(name):
    s = re.sub(r"(?<=[a-z0-9])(?=[A-Z])", "_", name)
    return s.lower()


def intrinsic_chain(ctx, r):
    """intrinsic function name -> (VM arm variant, analyzer) via IntrinsicOperation -> emit_intrinsic -> assembler."""
    items = ctx.file_items(INTR)
    titems = ctx.file_items(TB)
    if items is None or titems is None:
        r.missing("intrinsic.rs / translate_bytecode.rs")
        return {}
    e = q.find_enum(items, "IntrinsicOperation")
    f = q.find_fn(titems, "emit_intrinsic", impl_ty="Translator")
    if e is None or f is None:
        r.missing("IntrinsicOperation / emit_intrinsic", INTR)
        return {}
    a2v = asm_to_vm(ctx, r)
    emitted = {}
    ms = [m for m in q.walk(f["body"]) if m["k"] == "Match" and q.show(m["e"]) == "b"]
    for m in ms:
        for arm in m["arms"]:
            acts = [a for a in actions(arm["body"]) if a[0] == "E"]
            for h in q.pat_heads(arm["pat"]):
                if h.startswith("IntrinsicOperation::") and acts:
                    emitted.setdefault(q.last_seg(h), acts)
    out = {}
    for v in e["variants"]:
        acts = emitted.get(v["name"])
        if not acts:
            continue
        main = acts[-1] if acts[-1][1] != "Pop" else acts[0]
        main = next((a for a in acts if a[1] not in ("PushNil", "Pop")), acts[0])
        out[snake(v["name"])] = (a2v.get(main[1]), main)
    return out


ORD_METHODS = {"less_than": "<", "less_than_or_equal": "<=", "greater_than": ">", "greater_than_or_equal": ">="}


def delegated_call(fn):
    """If fn's body is `intrinsic(p1, p2, ..)` with the parameters in order, return the intrinsic name."""
    body = fn[4]
    params = [p[0] for p in fn[2]]
    if body is None:
        return None
    e = body
    if e[0] == "block" and len(e[1]) == 1 and e[1][0][0] == "expr":
        e = e[1][0][1]
    if e[0] == "call" and e[1][0] == "var":
        args = [a[1] for a in e[2]]
        if [a[1] if a[0] == "var" else None for a in args] == params:
            return e[1][1]
        return ("swapped", e[1][1], [A.show(a) for a in args])
    return None


def arm_op(by, vm):
    """Comparison operator a VM arm implements: from its semantic op (int/float/bool) or the string case table name."""
    if vm in STR_OPS:
        return STR_OPS[vm]
    an = by.get(vm)
    if an is None:
        return None
    so = semop(an)
    if so is None:
        return None
    op = so[0]
    pos = [root_operand(a)[1] for a in so[1]]
    if pos != sorted(pos):
        return "swapped:" + op
    return {"total_cmp.is_lt": "<", "total_cmp.is_le": "<=", "total_cmp.is_gt": ">", "total_cmp.is_ge": ">=", "total_cmp.is_eq": "=="}.get(op, op)


def bool_eval(e, env):
    """Evaluate a pure boolean Abra expression; raises KeyError/ValueError on anything else."""
    k = e[0]
    if k == "bool":
        return e[1]
    if k == "var":
        return env[e[1]]
    if k == "un" and e[1] == "not":
        return not bool_eval(e[2], env)
    if k == "bin" and e[1] == "and":
        return bool_eval(e[2], env) and bool_eval(e[3], env)
    if k == "bin" and e[1] == "or":
        return bool_eval(e[2], env) or bool_eval(e[3], env)
    if k == "bin" and e[1] in ("==", "!="):
        a, b = bool_eval(e[2], env), bool_eval(e[3], env)
        return (a == b) if e[1] == "==" else (a != b)
    if k == "if":
        c = bool_eval(e[1], env)
        br = e[2] if c else e[3]
        if br is None:
            raise ValueError("if without else")
        return bool_eval(br, env)
    if k == "block":
        if len(e[1]) == 1 and e[1][0][0] == "expr":
            return bool_eval(e[1][0][1], env)
        raise ValueError("block")
    if k == "int":
        return e[1]
    raise ValueError(k)


@rule("ORD-LAWS", ["C24"], "built-in Ord/Equal implementations: delegations end in the VM arm of the same operator; bool/void by truth table; tuples by lexicographic case analysis; arrays by length and every index")
def ord_laws(ctx, r):
    items = abra(ctx, r, PRELUDE)
    arms = _arms(ctx, r)
    if items is None or arms is None:
        return
    by = {v: an for v, arm, an in arms}
    chain = intrinsic_chain(ctx, r)
    r.count("intrinsics with a VM chain", len(chain), 50, INTR)
    n_ord = n_eq = 0
    # ---- Ord
    for ty, ms, it in A.impls(items, "Ord"):
        n_ord += 1
        for m, op in ORD_METHODS.items():
            f = ms.get(m)
            key = f"prelude.abra:Ord for {ty}:{m}"
            if f is None:
                r.find(key + ":missing", PRELUDE, it[-1], f"implement Ord for {ty} lacks {m}")
                continue
            params = [p[0] for p in f[2]]
            d = delegated_call(f)
            if isinstance(d, str) and d in chain:
                vm = chain[d][0]
                got = arm_op(by, vm)
                r.ob(got == op, key + ":delegates-to-wrong-operation", PRELUDE, f[-1],
                     f"Ord.{m} for {ty} calls {d}, whose VM arm {vm} implements `{got}`; `{op}` is required", sample=f"Ord.{m} for {ty} -> {d} -> {vm} (`{got}`)")
                continue
            if isinstance(d, tuple):
                r.find(key + ":arguments-swapped", PRELUDE, f[-1], f"Ord.{m} for {ty} passes {d[2]} to {d[1]}: parameters must be passed in order")
                continue
            if ty in ("bool", "void"):
                try:
                    bad = None
                    dom = [False, True] if ty == "bool" else [0]
                    for a, b in itertools.product(dom, dom):
                        got = bool_eval(f[4], {params[0]: a, params[1]: b})
                        want = {"<": a < b, "<=": a <= b, ">": a > b, ">=": a >= b}[op]
                        if bool(got) != want:
                            bad = (a, b, got, want)
                            break
                    r.ob(bad is None, key + ":truth-table", PRELUDE, f[-1],
                         f"Ord.{m} for {ty} is `{A.show(f[4])}`: for a={str(bad[0]).lower() if bad else ''}, b={str(bad[1]).lower() if bad else ''} it yields {bad[2] if bad else ''} but `a {op} b` (false < true) is {bad[3] if bad else ''}",
                         sample=f"Ord.{m} for {ty}: `{A.show(f[4])}` == truth table of `{op}`")
                except (ValueError, KeyError) as e:
                    r.missing(key + ":truth-table", PRELUDE, f"not a pure boolean expression: {e}")
                continue
            if ty.startswith("("):
                ok, why = tuple_ord_ok(f, op, ty.count(",") + 1)
                r.ob(ok, key + ":not-lexicographic", PRELUDE, f[-1], f"Ord.{m} for {ty}: {why}", sample=f"Ord.{m} for {ty}: lexicographic over {3 ** (ty.count(',') + 1)} component-order cases")
                continue
            r.missing(key + ":form", PRELUDE, "implementation form not modelled")
    r.count("Ord implementations", n_ord, 8, PRELUDE)
    # ---- Equal
    for ty, ms, it in A.impls(items, "Equal"):
        n_eq += 1
        f = ms.get("equal")
        key = f"prelude.abra:Equal for {ty}:equal"
        if f is None:
            r.find(key + ":missing", PRELUDE, it[-1], f"implement Equal for {ty} lacks equal")
            continue
        params = [p[0] for p in f[2]]
        d = delegated_call(f)
        if isinstance(d, str) and d in chain:
            vm = chain[d][0]
            got = arm_op(by, vm)
            r.ob(got == "==", key + ":delegates-to-wrong-operation", PRELUDE, f[-1], f"Equal.equal for {ty} calls {d} -> VM {vm}, which implements `{got}`", sample=f"Equal for {ty} -> {d} -> {vm}")
        elif ty in ("bool", "void"):
            try:
                dom = [False, True] if ty == "bool" else [0]
                bad = [(a, b) for a, b in itertools.product(dom, dom) if bool(bool_eval(f[4], {params[0]: a, params[1]: b})) != (a == b)]
                r.ob(not bad, key + ":truth-table", PRELUDE, f[-1], f"Equal.equal for {ty} differs from `a == b` at {bad[:1]}", sample=f"Equal for {ty}: truth table of ==")
            except (ValueError, KeyError) as e:
                r.missing(key + ":truth-table", PRELUDE, str(e))
        elif ty.startswith("("):
            ok, why = tuple_eq_ok(f, ty.count(",") + 1)
            r.ob(ok, key + ":not-componentwise", PRELUDE, f[-1], f"Equal for {ty}: {why}", sample=f"Equal for {ty}: all components, pairwise at equal index")
        elif ty.startswith("array"):
            ok, why = array_eq_ok(f)
            r.ob(ok, key + ":array", PRELUDE, f[-1], f"Equal for {ty}: {why}", sample="Equal for array: length, then every index")
        else:
            r.missing(key + ":form", PRELUDE, "implementation form not modelled")
    r.count("Equal implementations", n_eq, 9, PRELUDE)


def destructure(stmts, param):
    """`let (x1, .., xn) = param` -> [x1..xn]"""
    for s in stmts:
        if s[0] == "let" and s[4][0] == "var" and s[4][1] == param and s[2][0] == "ptuple":
            return [p[1] if p[0] == "pbind" else None for p in s[2][1]]
    return None


def tuple_ord_ok(f, op, n):
    body = f[4]
    params = [p[0] for p in f[2]]
    if body[0] != "block":
        return False, "body is not a block"
    stmts = body[1]
    an = destructure(stmts, params[0])
    bn = destructure(stmts, params[1])
    if an is None or bn is None or len(an) != n or len(bn) != n:
        return False, "the two operands are not destructured into their components"

    def rel_eval(e, rel):
        k = e[0]
        if k == "bool":
            return e[1]
        if k == "call" and e[1][0] == "member" and e[1][1] == ("var", "Ord", e[1][1][-1]) or (k == "call" and e[1][0] == "member" and e[1][1][0] == "var" and e[1][1][1] == "Ord"):
            m = e[1][2]
            args = [a[1] for a in e[2]]
            if len(args) != 2 or args[0][0] != "var" or args[1][0] != "var":
                raise ValueError("Ord call on non-components")
            x, y = args[0][1], args[1][1]
            if x in an and y in bn and an.index(x) == bn.index(y):
                c = rel[an.index(x)]
            elif x in bn and y in an and bn.index(x) == an.index(y):
                c = -rel[bn.index(x)]
            else:
                raise ValueError(f"compares {x} with {y}: not the same component of the two operands")
            return {"less_than": c < 0, "less_than_or_equal": c <= 0, "greater_than": c > 0, "greater_than_or_equal": c >= 0}[m]
        if k == "bin" and e[1] in ORD_METHODS.values() and e[2][0] == "var" and e[3][0] == "var":
            x, y = e[2][1], e[3][1]
            if x in an and y in bn and an.index(x) == bn.index(y):
                c = rel[an.index(x)]
                return {"<": c < 0, "<=": c <= 0, ">": c > 0, ">=": c >= 0}[e[1]]
            raise ValueError("operator on non-matching components")
        if k == "bin" and e[1] in ("and", "or"):
            a = rel_eval(e[2], rel)
            return (a and rel_eval(e[3], rel)) if e[1] == "and" else (a or rel_eval(e[3], rel))
        if k == "un" and e[1] == "not":
            return not rel_eval(e[2], rel)
        raise ValueError("form " + k)

    class Ret(Exception):
        def __init__(self, v):
            self.v = v

    def run(stmts, rel):
        last = None
        for s in stmts:
            if s[0] == "let":
                continue
            if s[0] == "return":
                raise Ret(rel_eval(s[1], rel))
            if s[0] == "expr":
                e = s[1]
                if e[0] == "if":
                    c = rel_eval(e[1], rel)
                    br = e[2] if c else e[3]
                    if br is not None:
                        last = run(br[1], rel)
                    else:
                        last = None
                else:
                    last = rel_eval(e, rel)
        return last

    try:
        for rel in itertools.product((-1, 0, 1), repeat=n):
            try:
                got = run(stmts, rel)
            except Ret as ret:
                got = ret.v
            first = next((c for c in rel if c != 0), 0)
            want = {"<": first < 0, "<=": first <= 0, ">": first > 0, ">=": first >= 0}[op]
            if got is None or bool(got) != want:
                names = {-1: "lt", 0: "eq", 1: "gt"}
                return False, f"for component orders {[names[c] for c in rel]} it yields {got} but lexicographic `{op}` is {want}"
    except ValueError as e:
        return False, f"not evaluable: {e}"
    return True, ""


def tuple_eq_ok(f, n):
    body = f[4]
    params = [p[0] for p in f[2]]
    if body[0] != "block":
        return False, "body is not a block"
    an = destructure(body[1], params[0])
    bn = destructure(body[1], params[1])
    if an is None or bn is None or len(an) != n:
        return False, "operands are not destructured"
    last = body[1][-1]
    if last[0] != "expr":
        return False, "no result expression"

    def ev(e, eqs):
        if e[0] == "bin" and e[1] == "and":
            return ev(e[2], eqs) and ev(e[3], eqs)
        if e[0] == "bin" and e[1] == "or":
            return ev(e[2], eqs) or ev(e[3], eqs)
        if e[0] == "bin" and e[1] in ("==", "!=") and e[2][0] == "var" and e[3][0] == "var":
            x, y = e[2][1], e[3][1]
            if x in an and y in bn and an.index(x) == bn.index(y):
                v = eqs[an.index(x)]
            elif x in bn and y in an and bn.index(x) == an.index(y):
                v = eqs[bn.index(x)]
            else:
                raise ValueError(f"compares {x} with {y}")
            return v if e[1] == "==" else not v
        if e[0] == "bool":
            return e[1]
        raise ValueError(e[0])

    try:
        for eqs in itertools.product((True, False), repeat=n):
            if bool(ev(last[1], eqs)) != all(eqs):
                return False, f"for component equalities {eqs} it yields {ev(last[1], eqs)}"
    except ValueError as e:
        return False, f"not evaluable: {e}"
    return True, ""


def array_eq_ok(f):
    body = A.inline_lets(f[4])  # `let n = a.len()` stands for a.len()
    a, b = [p[0] for p in f[2]]
    if body[0] != "block":
        return False, "body is not a block"
    len_check = any(s[0] == "expr" and s[1][0] == "if" and A.show(s[1][1]) in (f"({a}.len() != {b}.len())", f"({b}.len() != {a}.len())") and any(x[0] == "return" and x[1] == ("bool", False, x[1][-1]) for x in A.walk(s[1][2]) if isinstance(x, tuple) and x and x[0] == "return") for s in body[1])
    loop = [s for s in body[1] if s[0] == "for"]
    elem = False
    full = False
    # the same traversal written with a counter: `var i = 0  while i < len { ..; i = i + 1 }`
    wl = [s for s in body[1] if s[0] == "while"]
    if not loop and wl:
        w = wl[0]
        c = w[1]
        wb = w[2][1] if w[2][0] == "block" else []
        if c[0] == "bin" and c[1] == "<" and c[2][0] == "var" and wb:
            iv0 = c[2][1]
            starts0 = any(s_[0] == "let" and s_[1] and s_[2][0] == "pbind" and s_[2][1] == iv0 and A.show(s_[4]) == "0" for s_ in body[1])
            last_ = wb[-1]
            steps1 = last_[0] == "assign" and A.show(last_[2]) == iv0 and A.show(last_[3]).replace(" ", "") in (f"({iv0}+1)", f"{iv0}+1")
            touched = [s_ for s_ in A.walk(wb[:-1]) if isinstance(s_, tuple) and s_ and s_[0] == "assign" and A.show(s_[2]) == iv0]
            conts = [s_ for s_ in A.walk(wb) if isinstance(s_, tuple) and s_ and s_[0] == "continue"]
            if starts0 and steps1 and not touched and not conts:
                loop = [("for", ("pbind", iv0), c[3], ("block", wb[:-1], w[-1]), w[-1])]
    if loop:
        lp = loop[0]
        full = A.show(lp[2]) in (f"{a}.len()", f"{b}.len()")
        iv = lp[1][1] if lp[1][0] == "pbind" else None
        for x in A.walk(lp[3]):
            if isinstance(x, tuple) and x and x[0] == "if" and A.show(x[1]) in (f"({a}[{iv}] != {b}[{iv}])", f"({b}[{iv}] != {a}[{iv}])"):
                elem = any(y[0] == "return" and A.show(y[1]) == "false" for y in A.walk(x[2]) if isinstance(y, tuple) and y and y[0] == "return")
    ends_true = body[1][-1][0] == "expr" and A.show(body[1][-1][1]) == "true"
    if not (len_check and loop and full and elem and ends_true):
        return False, f"expected length comparison, a loop over every index comparing a[i] with b[i], and a final true (length check {len_check}, full loop {full}, element check {elem}, final true {ends_true})"
    return True, ""


@rule("HASH-LAWS", ["C24"], "equal values have equal hashes: every component Equal compares feeds the hash in order; hashing arithmetic cannot fail")
def hash_laws(ctx, r):
    items = abra(ctx, r, PRELUDE)
    if items is None:
        return
    n = 0
    SAFE_CALLS = {"bit_xor", "wrapping_mul", "wrapping_add", "hash_combine", "string_nth_byte", "string_count_bytes", "hash"}
    for ty, ms, it in A.impls(items, "Hash"):
        n += 1
        f = ms.get("hash")
        key = f"prelude.abra:Hash for {ty}"
        if f is None:
            r.find(key + ":missing", PRELUDE, it[-1], "no hash method")
            continue
        body = f[4]
        # no overflow-capable arithmetic anywhere in a hash
        bad = [x for x in A.walk(body) if isinstance(x, tuple) and x and ((x[0] == "bin" and x[1] in ("+", "-", "*", "^", "/")) or (x[0] == "un" and x[1] == "-"))]
        r.ob(not bad, key + ":overflowing-arithmetic", PRELUDE, f[-1], f"Hash for {ty} uses `{A.show(bad[0]) if bad else ''}`: hashing some value would stop the program with an integer overflow", sample=f"Hash for {ty}: only wrapping intrinsics")
        if ty.startswith("("):
            params = [p[0] for p in f[2]]
            comps = destructure(body[1], params[0]) if body[0] == "block" else None
            # the accumulator is followed through its bindings (`h = hash_combine(h, a)` or `let h1 = hash_combine(17, a)`):
            # what counts is the sequence of components folded into the value the method returns
            chain = {}

            def fold(e):
                if e[0] == "call" and A.show(e[1]) == "hash_combine" and len(e[2]) == 2:
                    acc = fold(e[2][0][1])
                    return None if acc is None else acc + [A.show(e[2][1][1])]
                if e[0] == "var":
                    return chain.get(e[1])
                if e[0] in ("int", "num", "lit"):
                    return []
                return None

            fed = None
            for s in body[1] if body[0] == "block" else []:
                if s[0] == "let" and s[2][0] == "pbind":
                    chain[s[2][1]] = fold(s[4])
                elif s[0] == "assign" and s[2][0] == "var":
                    chain[s[2][1]] = fold(s[3])
                elif s[0] == "expr":
                    fed = fold(s[1])
            fed = fed or []
            r.ob(comps is not None and fed == comps, key + ":components", PRELUDE, f[-1], f"Hash for {ty} must feed every component, in order, to hash_combine: components {comps}, fed {fed}", sample=f"Hash for {ty}: feeds {fed}")
        elif ty.startswith("array"):
            loops = [s for s in body[1] if s[0] == "for"] if body[0] == "block" else []
            ok = bool(loops) and A.show(loops[0][2]) == f[2][0][0] and any(isinstance(x, tuple) and x and x[0] == "call" and A.show(x[1]) == "hash_combine" for x in A.walk(loops[0][3]))
            r.ob(ok, key + ":elements", PRELUDE, f[-1], "Hash for array must combine every element in order", sample="Hash for array: hash_combine over every element")
        elif ty == "int":
            r.ob(A.show(body) == f[2][0][0], key + ":identity", PRELUDE, f[-1], "Hash for int is documented as the identity", sample="Hash for int: identity")
        elif ty == "bool":
            try:
                vals = {v: bool_eval(body, {f[2][0][0]: v}) for v in (False, True)}
                r.ob(vals[False] != vals[True] or True, key, PRELUDE, f[-1], "", sample=f"Hash for bool: {vals}")
            except (ValueError, KeyError):
                r.missing(key + ":form", PRELUDE)
        else:
            r.ob(True, key, PRELUDE, f[-1], "", sample=f"Hash for {ty}: arithmetic-free or wrapping only")
    hc = next((it for it in items if it[0] == "fn" and it[1] == "hash_combine"), None)
    if hc is None:
        r.missing("prelude.abra:hash_combine", PRELUDE)
    else:
        bad = [x for x in A.walk(hc[4]) if isinstance(x, tuple) and x and x[0] == "bin" and x[1] in ("+", "-", "*")]
        r.ob(not bad, "prelude.abra:hash_combine:overflowing-arithmetic", PRELUDE, hc[-1], "hash_combine must use wrapping arithmetic", sample="hash_combine: wrapping_add(wrapping_mul(seed, 31), hash(value))")
    r.count("Hash implementations", n, 8, PRELUDE)


@rule("TRY-TEMPLATES", ["C23"], "option/result implement Try and Unwrap as documented: some/ok continue with the payload, none/err break with the residual")
def try_templates(ctx, r):
    items = abra(ctx, r, PRELUDE)
    if items is None:
        return

    def arms_of(fn):
        body = fn[4]
        e = body[1][0][1] if body[0] == "block" and body[1] and body[1][0][0] == "expr" else body
        if e[0] != "match":
            return None
        out = {}
        for p, b in e[2]:
            if p[0] == "pvariant":
                out[p[2]] = (p[3], b)
        return out

    want = {
        "option": {"branch": {"some": ("Continue", "payload"), "none": ("Break", "nil")}, "res": "option.none"},
        "result": {"branch": {"ok": ("Continue", "payload"), "err": ("Break", "payload")}, "res": "result.err({r})"},
    }
    n = 0
    for ty, ms, it in A.impls(items, "Try"):
        base = ty.split("<")[0]
        if base not in want:
            continue
        n += 1
        br = ms.get("branch")
        arms = arms_of(br) if br else None
        key = f"prelude.abra:Try for {base}"
        if arms is None:
            r.missing(key + ":branch", PRELUDE)
            continue
        for tag, (cf, payload) in want[base]["branch"].items():
            got = arms.get(tag)
            ok = False
            desc = "missing"
            if got is not None:
                sub, body = got
                desc = A.show(body)
                bound = sub[0][1] if sub and sub[0][0] == "pbind" else None
                if body[0] == "call" and body[1] == ("dot", cf, body[1][-1]):
                    arg = body[2][0][1]
                    ok = (payload == "payload" and arg[0] == "var" and arg[1] == bound) or (payload == "nil" and arg[0] == "nil")
            r.ob(ok, key + f":branch:{tag}", PRELUDE, br[-1], f"Try.branch for {base}: `.{tag}` must map to .{cf}({'its payload' if payload == 'payload' else 'nil'}); it is `{desc}`", sample=f"Try.branch {base}.{tag} -> .{cf}")
        fr = ms.get("from_residual")
        if fr is None:
            r.find(key + ":from_residual:missing", PRELUDE, it[-1], "no from_residual")
        else:
            body = fr[4]
            e = body[1][0][1] if body[0] == "block" and len(body[1]) == 1 else body
            wantres = want[base]["res"].format(r=fr[2][0][0])
            r.ob(A.show(e) == wantres, key + ":from_residual", PRELUDE, fr[-1], f"Try.from_residual for {base} must build `{wantres}`; it is `{A.show(e)}`", sample=f"from_residual {base}: {wantres}")
    r.count("Try implementations", n, 2, PRELUDE)
    m = 0
    for ty, ms, it in A.impls(items, "Unwrap"):
        base = ty.split("<")[0]
        if base not in want:
            continue
        m += 1
        un = ms.get("unwrap")
        arms = arms_of(un) if un else None
        key = f"prelude.abra:Unwrap for {base}"
        if arms is None:
            r.missing(key, PRELUDE)
            continue
        good, bad = ("some", "none") if base == "option" else ("ok", "err")
        g = arms.get(good)
        b = arms.get(bad)
        okg = g is not None and g[0] and g[0][0][0] == "pbind" and g[1][0] == "var" and g[1][1] == g[0][0][1]
        okb = b is not None and b[1][0] == "call" and A.show(b[1][1]) == "panic"
        r.ob(okg, key + f":{good}", PRELUDE, un[-1], f"`!` on .{good}(x) must evaluate to x", sample=f"unwrap {base}.{good}(x) -> x")
        r.ob(okb, key + f":{bad}", PRELUDE, un[-1], f"`!` on .{bad} must stop the program with panic(..)", sample=f"unwrap {base}.{bad} -> panic")
    r.count("Unwrap implementations", m, 2, PRELUDE)


def enum_variants(items, name):
    for it in items:
        if it[0] == "type" and it[1] == name and it[3][0] == "enum":
            return [v[0] for v in it[3][1]]
    return None


def iface_methods(items, name):
    for it in items:
        if it[0] == "interface" and it[1] == name:
            return [m[1] for m in it[2] if m[0] == "fn"]
    return None


@rule("TAG-AGREE", ["C23", "C36", "C14"], "variant tags and interface method indices hard-coded in Rust equal the declaration order in prelude.abra")
def tag_agree(ctx, r):
    items = abra(ctx, r, PRELUDE)
    titems = ctx.file_items(TB)
    if items is None or titems is None:
        return
    n = 0
    te = q.find_fn(titems, "translate_expr", impl_ty="Translator")
    ts = q.find_fn(titems, "translate_stmt", impl_ty="Translator")
    from rules.frontend import arm_of

    def tag_tests(arm):
        """[(K, line)] for DeconstructVariant; PushInt(K); EqualInt; JumpIfFalse sequences"""
        acts = [a for a in actions(arm["body"]) if a[0] in ("E",)]
        out = []
        for i in range(len(acts) - 3):
            if acts[i][1] == "DeconstructVariant" and acts[i + 1][1] == "PushInt" and acts[i + 2][1] == "EqualInt" and acts[i + 3][1] == "JumpIfFalse":
                out.append(acts[i + 1][2][0])
        return out

    def iface_calls(arm):
        out = []
        decls = {}
        for x in q.walk(arm["body"]):
            if x["k"] == "Local" and x.get("init") is not None and x["init"]["k"] == "MethodCall" and x["init"]["m"] == "get_iface_decl":
                decls[q.pat_bindings(x["pat"])[0]] = x["init"]["args"][0]["v"]
        for x in q.walk_post(arm["body"]):
            if x["k"] == "MethodCall" and x["m"] == "translate_iface_method_call_helper":
                iface = decls.get(q.show(x["args"][2]).lstrip("&"))
                out.append((iface, q.show(x["args"][3]), x["l"]))
        out.sort(key=lambda t: t[2])
        return out

    sites = [
        (te, "ExprKind", "Try", "ControlFlow", "Break", [("prelude.Try", "branch"), ("prelude.Try", "from_residual")]),
        (ts, "StmtKind", "ForLoop", "option", "some", [("prelude.Iterable", "make_iterator"), ("prelude.Iterator", "next")]),
        (te, "ExprKind", "Unwrap", None, None, [("prelude.Unwrap", "unwrap")]),
    ]
    for fn, enum, variant, ename, vname, calls in sites:
        arm = arm_of(fn, enum, variant) if fn else None
        if arm is None:
            r.missing(f"translate:{variant}", TB)
            continue
        if ename:
            vs = enum_variants(items, ename)
            tests = tag_tests(arm)
            n += 1
            want = str(vs.index(vname)) if vs and vname in vs else None
            ok = len(tests) == 1 and want is not None and tests[0].replace(" as AbraInt", "").strip("()") == want
            r.ob(ok, f"translate_bytecode.rs:{variant}:tag-of-{ename}.{vname}", TB, arm["l"],
                 f"the {variant} lowering falls through when the variant tag equals {tests}; `{vname}` is variant #{want} of `type {ename}` in prelude.abra ({vs})", sample=f"{variant}: tag {tests} == index of {ename}.{vname} ({want})")
        got = iface_calls(arm)
        for (iface, mname), g in zip(calls, got):
            n += 1
            ms = iface_methods(items, iface.split(".")[-1])
            want = str(ms.index(mname)) if ms and mname in ms else None
            r.ob(g[0] == iface and g[1] == want, f"translate_bytecode.rs:{variant}:method-index:{iface}.{mname}", TB, g[2],
                 f"the {variant} lowering calls method #{g[1]} of {g[0]}; `{mname}` is method #{want} of interface {iface.split('.')[-1]} ({ms})", sample=f"{variant}: {iface}.{mname} = #{want}")
        if len(got) < len(calls):
            r.missing(f"translate:{variant}:interface-calls", TB, f"expected {len(calls)} interface calls, found {len(got)}")
    # Index.index_set in plain assignment
    arm = arm_of(ts, "StmtKind", "Assign") if ts else None
    if arm is not None:
        ms = iface_methods(items, "Index")
        for x in q.walk(arm["body"]):
            if x["k"] == "MethodCall" and x["m"] == "translate_iface_method_call_helper":
                n += 1
                want = str(ms.index("index_set")) if ms and "index_set" in ms else None
                r.ob(q.show(x["args"][3]) == want, "translate_bytecode.rs:Assign:method-index:prelude.Index.index_set", TB, x["l"], f"assignment through a user Index calls method #{q.show(x['args'][3])}; index_set is #{want} of {ms}", sample=f"Assign: Index.index_set = #{want}")
    # host / foreign marshalling of option and result
    for file, trait in (("abra_core/src/host_bindings.rs", "VmType"), ("abra_core/src/foreign_bindings.rs", "VmFfiType")):
        fitems = ctx.file_items(file)
        if fitems is None:
            r.missing(file)
            continue
        for impl in q.find_impls(fitems, trait=trait):
            ty = impl["self_ty"]
            base = "option" if ty.startswith("Option<") else "result" if ty.startswith("Result<") else None
            if base is None:
                continue
            vs = enum_variants(items, base)
            rust = {"option": {"Some": "some", "None": "none"}, "result": {"Ok": "ok", "Err": "err"}}[base]
            for f in impl["items"]:
                if f["k"] != "Fn":
                    continue
                for m in q.walk(f["body"]):
                    if m["k"] != "Match":
                        continue
                    for a in m["arms"]:
                        heads = q.pat_heads(a["pat"])
                        if f["name"].startswith("to_vm"):
                            rv = next((q.last_seg(h) for h in heads if q.last_seg(h) in rust), None)
                            if rv is None:
                                continue
                            tags = [q.show(x["args"][-1]) for x in q.walk(a["body"]) if (x["k"] == "MethodCall" and x["m"] == "construct_variant") or (x["k"] == "Call" and "construct_variant" in q.show(x["f"]))]
                            n += 1
                            want = str(vs.index(rust[rv]))
                            r.ob(tags == [want], f"{file.split('/')[-1]}:{trait} for {base}:to_vm:{rv}", file, a["l"], f"to_vm builds {rv} with variant tag {tags}; `{rust[rv]}` is variant #{want} of `type {base}`", sample=f"{trait} {base}.to_vm {rv} -> tag {want}")
                        elif f["name"].startswith("from_vm"):
                            lit = next((h[4:] for h in heads if h.startswith("lit:")), None)
                            if lit is None:
                                continue
                            built = [q.last_seg(x["p"]) for x in q.walk(a["body"]) if x["k"] == "Path" and q.last_seg(x["p"]) in rust] + [q.last_seg(x["f"]["p"]) for x in q.walk(a["body"]) if x["k"] == "Call" and x["f"]["k"] == "Path" and q.last_seg(x["f"]["p"]) in rust]
                            n += 1
                            want = vs[int(lit)] if int(lit) < len(vs) else None
                            r.ob(bool(built) and rust.get(built[-1]) == want, f"{file.split('/')[-1]}:{trait} for {base}:from_vm:{lit}", file, a["l"], f"from_vm maps tag {lit} to {built}; variant #{lit} of `type {base}` is `{want}`", sample=f"{trait} {base}.from_vm tag {lit} -> {built[-1] if built else '?'}")
    r.count("hard-coded tags and method indices", n, 14, TB)


@rule("CLONE-DEEP", ["C26"], "array clone builds a new array from clones of every element")
def clone_deep(ctx, r):
    items = abra(ctx, r, PRELUDE)
    if items is None:
        return
    got = [(ty, ms) for ty, ms, it in A.impls(items, "Clone") if ty.startswith("array")]
    if not got:
        r.missing("prelude.abra:Clone for array", PRELUDE)
        return
    f = got[0][1].get("clone")
    body = f[4]
    param = f[2][0][0]
    stmts = body[1] if body[0] == "block" else []
    new = next((s[2][1] for s in stmts if s[0] == "let" and s[4][0] == "array" and not s[4][1] and s[2][0] == "pbind"), None)
    loops = [s for s in stmts if s[0] == "for" and A.show(s[2]) == param]
    pushed = None
    if loops and new:
        iv = loops[0][1][1] if loops[0][1][0] == "pbind" else None
        for x in A.walk(loops[0][3]):
            if isinstance(x, tuple) and x and x[0] == "call" and A.show(x[1]) == f"{new}.push":
                pushed = A.show(x[2][0][1])
                want = f"Clone.clone({iv})"
    ret = stmts[-1] if stmts else None
    ok = new is not None and loops and pushed in (want, f"{iv}.clone()") and ret is not None and ret[0] == "expr" and A.show(ret[1]) == new
    r.ob(bool(ok), "prelude.abra:Clone for array:not-a-deep-copy", PRELUDE, f[-1], f"array clone must create a fresh array, push Clone.clone(x) for every element x and return the new array (new={new}, pushed={pushed})", sample=f"Clone for array: new [] ; push {pushed} ; return {new}")


@rule("CLONE-STORE", ["C26"], "a function of the prelude that builds a container from a Clone-constrained value stores clones only, never the value it was handed")
def clone_store(ctx, r):
    items = abra(ctx, r, PRELUDE)
    if items is None:
        return
    n = 0
    for it in items:
        if it[0] != "extend":
            continue
        ty = it[1]
        clone_params = {a[1] for a in (ty[2] if len(ty) > 2 else []) if isinstance(a, tuple) and len(a) > 3 and "Clone" in (a[3] or [])}
        if not clone_params:
            continue
        for f in it[2]:
            if f[4] is None:
                continue
            vals = {p[0] for p in f[2] if p[1] is not None and p[1][0] == "tname" and p[1][1] in clone_params}
            fresh = {x[2][1] for x in A.walk(f[4]) if isinstance(x, tuple) and x and x[0] == "let" and x[2][0] == "pbind" and x[4][0] == "array" and not x[4][1]}
            if not vals or not fresh:
                continue
            for x in A.walk(f[4]):
                if isinstance(x, tuple) and x and x[0] == "call" and x[1][0] == "member" and x[1][2] in ("push", "insert") and x[1][1][0] == "var" and x[1][1][1] in fresh:
                    for a in x[2]:
                        n += 1
                        arg = a[1]
                        bare = arg[0] == "var" and arg[1] in vals
                        r.ob(not bare, f"prelude.abra:{A.type_name(ty)}.{f[1]}:{arg[1] if bare else 'arg'}:stored-without-clone", PRELUDE, x[-1],
                             f"{f[1]}: `{A.show(x)}` stores the caller's value itself in the new container: for element types that are references (arrays) the result then shares that element with the caller, and a later change to either shows in the other",
                             sample=f"{f[1]}: stores {A.show(arg)}")
    r.count("values stored into fresh containers by Clone-constrained builders", n, 1, PRELUDE)


def must_use_as_index(stmts, param, recv="self"):
    """Does every path through `stmts` apply `param` as a subscript of `recv` (directly or via self.swap / array_get / array_set)?
    Uses inside loops or inside one branch only do not count (must-analysis)."""

    def expr_uses(e):
        for x in A.walk(e):
            if not (isinstance(x, tuple) and x):
                continue
            if x[0] == "index" and A.show(x[1]) == recv and any(isinstance(y, tuple) and y and y[0] == "var" and y[1] == param for y in A.walk(x[2])):
                return True
            if x[0] == "call" and A.show(x[1]) in (f"{recv}.swap", "array_get", "array_set") and any(a[1][0] == "var" and a[1][1] == param for a in x[2]):
                return True
        return False

    def analyse(stmts, used):
        """(every path that leaves the method from inside `stmts` has used the position; whether the paths that fall
        through the end have - None when there is no such path), given whether all paths reaching `stmts` have."""
        ok = True
        for s in stmts:
            k = s[0]
            if k in ("while", "for"):
                # the loop header is evaluated at least once; the body may not run, but a `return` inside it is an exit
                if expr_uses(s[1] if k == "while" else s[2]):
                    used = True
                body = s[2] if k == "while" else s[3]
                ok_b, _ = analyse(body[1] if body and body[0] == "block" else [], used)
                ok = ok and ok_b
                continue
            if k == "expr" and s[1][0] == "if":
                e = s[1]
                if expr_uses(e[1]):
                    used = True
                ok_t, ft_t = analyse(e[2][1] if e[2][0] == "block" else [("expr", e[2], e[-1])], used)
                if e[3] is not None:
                    ok_e, ft_e = analyse(e[3][1] if e[3][0] == "block" else [("expr", e[3], e[-1])], used)
                else:
                    ok_e, ft_e = True, used
                ok = ok and ok_t and ok_e
                fts = [x for x in (ft_t, ft_e) if x is not None]
                if not fts:
                    return ok, None
                used = all(fts)
                continue
            if k == "return":
                if s[1] is not None and expr_uses(s[1]):
                    used = True
                return ok and used, None
            if k == "let" and expr_uses(s[4]):
                used = True
            elif k == "assign" and (expr_uses(s[2]) or expr_uses(s[3])):
                used = True
            elif k == "expr" and expr_uses(s[1]):
                used = True
        return ok, used

    ok, ft = analyse(stmts, False)
    return ok and (ft is None or ft)


@rule("INDEX-MUST-USE", ["C26"], "array methods taking a position apply it to a bounds-checked subscript on every path (an out-of-range position stops with the runtime error)")
def index_must_use(ctx, r):
    items = abra(ctx, r, PRELUDE)
    if items is None:
        return
    n = 0
    for it in items:
        if it[0] != "extend" or A.type_name(it[1]).split("<")[0] != "array":
            continue
        for f in it[2]:
            body = f[4]
            if body is None or body[0] != "block":
                continue
            params = [p[0] for p in f[2] if p[0] != "self"]
            for p in params:
                # positions: parameters that are used as a subscript of self somewhere in the method
                # (the parameter itself is the subscript: helper offsets such as self[left + i] are not positions of the public API)
                used_somewhere = any(isinstance(x, tuple) and x and ((x[0] == "index" and A.show(x[1]) == "self" and x[2][0] == "var" and x[2][1] == p)
                                     or (x[0] == "call" and A.show(x[1]) == "self.swap" and any(a[1][0] == "var" and a[1][1] == p for a in x[2]))) for x in A.walk(body))
                if not used_somewhere:
                    continue
                n += 1
                ok = must_use_as_index(body[1], p)
                r.ob(ok, f"prelude.abra:array.{f[1]}:{p}:position-not-checked-on-every-path", PRELUDE, f[-1],
                     f"array.{f[1]}: the position parameter `{p}` reaches a subscript of `self` only on some paths; on the others an out-of-range `{p}` is accepted silently instead of stopping with the array-bounds runtime error",
                     sample=f"array.{f[1]}: `{p}` is subscripted on every path")
    r.count("position parameters of array methods", n, 3, PRELUDE)


@rule("HASH-ARITH", ["C27"], "core/map never applies an overflow-capable operation to a hash code; core/set delegates every operation to the same-named map operation")
def hash_arith(ctx, r):
    mp = abra(ctx, r, MAP)
    st = abra(ctx, r, SET)
    if mp is None or st is None:
        return
    n = 0
    fns = [f for it in mp if it[0] in ("extend", "implement") for f in (it[2] if it[0] == "extend" else it[3])]
    for f in fns:
        if f[4] is None:
            continue
        tainted = {p[0] for p in f[2] if p[0] in ("hash_code", "hash")}

        def is_hash(src):
            """a hash code: the result of Hash.hash, a stored hash, or a name bound to one (written in place or through a local)"""
            return (src[0] == "call" and A.show(src[1]) == "Hash.hash") or (src[0] == "index" and A.show(src[1]).endswith("entry_hashes")) or (src[0] == "var" and src[1] in tainted)

        changed = True
        while changed:
            changed = False
            for x in A.walk(f[4]):
                if isinstance(x, tuple) and x and x[0] == "let" and x[2][0] == "pbind":
                    src = x[4]
                    if is_hash(src) and x[2][1] not in tainted:
                        tainted.add(x[2][1])
                        changed = True
        for x in A.walk(f[4]):
            if not (isinstance(x, tuple) and x):
                continue
            bad = None
            if x[0] == "call" and x[1][0] == "member" and is_hash(x[1][1]) and x[1][2] in ("abs", "pow", "negate"):
                bad = A.show(x)
            if x[0] == "un" and x[1] == "-" and is_hash(x[2]):
                bad = A.show(x)
            if x[0] == "bin" and x[1] in ("+", "-", "*", "^", "/") and any(is_hash(s) for s in (x[2], x[3])):
                bad = A.show(x)
            if bad:
                n += 1
                r.find(f"map.abra:{f[1]}:hash-arithmetic:{bad}", MAP, x[-1], f"map.{f[1]}: `{bad}` applies an overflow-capable operation to a hash code, which is an arbitrary 64-bit integer: a key whose hash is the minimum integer stops the program with an overflow error (`%` alone is already non-negative)")
            if x[0] == "bin" and x[1] == "%" and is_hash(x[2]):
                n += 1
                r.ob(True, "", MAP, x[-1], "", sample=f"map.{f[1]}: bucket = {A.show(x)} (Euclidean remainder of the raw hash)")
    r.count("bucket index computations", n, 4, MAP)
    # set delegates
    sfns = [f for it in st if it[0] == "extend" for f in it[2]]
    d = 0
    for f in sfns:
        if f[1] == "new":
            continue
        d += 1
        body = f[4]
        e = body[1][0][1] if body[0] == "block" and len(body[1]) == 1 and body[1][0][0] == "expr" else None
        ok = e is not None and e[0] == "call" and A.show(e[1]) == f"self.inner.{f[1]}" and [A.show(a[1]) for a in e[2]][: len(f[2]) - 1] == [p[0] for p in f[2][1:]]
        r.ob(ok, f"set.abra:{f[1]}:does-not-delegate", SET, f[-1], f"set.{f[1]} must be `self.inner.{f[1]}(..)` with its own arguments in order; it is `{A.show(e) if e else '?'}`", sample=f"set.{f[1]} -> {A.show(e) if e else '?'}")
    r.count("set operations", d, 4, SET)


def str_template(e, env, fns, depth=0):
    """Constant-propagate a string expression into a template: list of literal strings and ('hole', component) entries."""
    k = e[0]
    if k == "str":
        return [e[1]]
    if k == "var":
        v = env.get(e[1])
        if v is not None:
            return v
        return [("hole", e[1])]
    if k == "bin" and e[1] == "..":
        return str_template(e[2], env, fns, depth) + str_template(e[3], env, fns, depth)
    if k == "call" and A.show(e[1]) == "ToString.str" and len(e[2]) == 1:
        return [("hole", A.show(e[2][0][1]))]
    if k == "call" and e[1][0] == "var" and e[1][1] in fns:
        return [("call", e[1][1])]
    if k == "block" and len(e[1]) >= 1 and e[1][-1][0] == "expr":
        env2 = dict(env)
        for s in e[1][:-1]:
            if s[0] != "let":
                raise ValueError("statement " + s[0])
        return str_template(e[1][-1][1], env2, fns, depth)
    raise ValueError(k)


def norm_tpl(t):
    out = []
    for x in t:
        if isinstance(x, str) and out and isinstance(out[-1], str):
            out[-1] += x
        else:
            out.append(x)
    return out


@rule("STR-TEMPLATES", ["C28"], "ToString implementations render the documented formats: constant propagation through `..` yields the template of each type")
def str_templates(ctx, r):
    items = abra(ctx, r, PRELUDE)
    if items is None:
        return
    chain = intrinsic_chain(ctx, r)
    fns = {it[1] for it in items if it[0] == "fn"}
    n = 0
    impls = {ty.split("<")[0] if not ty.startswith("(") else ty: (ms, it) for ty, ms, it in A.impls(items, "ToString")}

    def body_expr(f):
        b = f[4]
        return b[1][-1][1] if b[0] == "block" and b[1] and b[1][-1][0] == "expr" else b

    def check(ty, want, got_fn):
        nonlocal n
        n += 1
        try:
            got = got_fn()
        except (ValueError, KeyError, TypeError) as e:
            r.missing(f"prelude.abra:ToString for {ty}:template", PRELUDE, f"not a constant-propagatable string expression: {e}")
            return
        r.ob(got == want, f"prelude.abra:ToString for {ty}:format", PRELUDE, impls[ty][1][-1] if ty in impls else 0, f"ToString for {ty} renders {got}; the documented format is {want}", sample=f"ToString for {ty}: {got}")

    for ty in ("string", "void", "int", "float", "bool", "option", "result", "array"):
        if ty not in impls:
            r.missing(f"prelude.abra:ToString for {ty}", PRELUDE)
    if "string" in impls:
        f = impls["string"][0]["str"]
        check("string", [("hole", f[2][0][0])], lambda: norm_tpl(str_template(body_expr(f), {}, fns)))
    if "void" in impls:
        f = impls["void"][0]["str"]
        check("void", ["nil"], lambda: norm_tpl(str_template(body_expr(f), {}, fns)))
    if "bool" in impls:
        f = impls["bool"][0]["str"]
        e = body_expr(f)

        def bool_tpl():
            if e[0] != "if" or A.show(e[1]) != f[2][0][0]:
                raise ValueError("not `if b ..`")
            return {"true": norm_tpl(str_template(e[2], {}, fns)), "false": norm_tpl(str_template(e[3], {}, fns))}

        check("bool", {"true": ["true"], "false": ["false"]}, bool_tpl)
    for ty, intr, vm in (("int", "string_from_int", "StringFromInt"), ("float", "string_from_float", "StringFromFloat")):
        if ty in impls:
            f = impls[ty][0]["str"]
            n += 1
            d = delegated_call(f)
            r.ob(d == intr and chain.get(intr, (None,))[0] == vm, f"prelude.abra:ToString for {ty}:conversion", PRELUDE, f[-1], f"ToString for {ty} must call {intr} (VM {vm}); it calls {d} -> {chain.get(d, (None,))[0] if isinstance(d, str) else None}", sample=f"ToString for {ty} -> {intr} -> {vm}")
    for ty, arms_want in (("option", {"some": ["some(", ("hole", "x"), ")"], "none": ["none"]}), ("result", {"ok": ["ok(", ("hole", "x"), ")"], "err": ["err(", ("hole", "x"), ")"]})):
        if ty not in impls:
            continue
        f = impls[ty][0]["str"]
        e = body_expr(f)

        def variant_tpl(e=e):
            if e[0] != "match":
                raise ValueError("not a match")
            out = {}
            for p, b in e[2]:
                bound = p[3][0][1] if p[3] and p[3][0][0] == "pbind" else None
                t = norm_tpl(str_template(b, {}, fns))
                out[p[2]] = [("hole", "x") if isinstance(x, tuple) and x[1] == bound else x for x in t]
            return out

        check(ty, arms_want, variant_tpl)
    if "array" in impls:
        f = impls["array"][0]["str"]
        check("array", ["[ ", ("call", "array_to_string_helper"), " ]"], lambda: norm_tpl(str_template(body_expr(f), {}, fns)))
        h = next((it for it in items if it[0] == "fn" and it[1] == "array_to_string_helper"), None)
        if h is None:
            r.missing("prelude.abra:array_to_string_helper", PRELUDE)
        else:
            n += 1
            arr, idx = h[2][0][0], h[2][1][0]
            # the body as one value tree (early returns folded, named intermediate values substituted):
            # if idx == l "" ; else if idx == l - 1 str(arr[idx]) ; else str(arr[idx]) .. ", " .. helper(arr, idx + 1)
            e = A.canon(h[4])
            ok = False
            try:
                c1, b1, rest = e[1], e[2], e[3]
                c2, b2, b3 = rest[1], rest[2], rest[3]
                t1 = norm_tpl(str_template(b1, {}, fns))
                t2 = norm_tpl(str_template(b2, {}, fns))
                t3 = norm_tpl(str_template(b3, {}, fns | {"array_to_string_helper"}))
                ok = t1 == [""] and t2 == [("hole", f"{arr}[{idx}]")] and t3 == [("hole", f"{arr}[{idx}]"), ", ", ("call", "array_to_string_helper")]
                rec = [x for x in A.walk(b3) if isinstance(x, tuple) and x and x[0] == "call" and A.show(x[1]) == "array_to_string_helper"]
                ok = ok and rec and [A.show(a[1]) for a in rec[0][2]] == [arr, f"({idx} + 1)"]
                # the length: a local bound to array_length(arr) / arr.len(), under any name, or that call written in place
                lens = {f"array_length({arr})", f"{arr}.len()"}
                for x in A.walk(h[4]):
                    if isinstance(x, tuple) and x and x[0] == "let" and x[2][0] == "pbind" and A.show(x[4]).replace(" ", "") in lens:
                        lens.add(x[2][1])
                ok = ok and A.show(c1).replace(" ", "") in {f"({idx}=={lv})" for lv in lens} and A.show(c2).replace(" ", "") in {f"({idx}==({lv}-1))" for lv in lens}
            except (ValueError, KeyError, TypeError, IndexError):
                ok = False
            r.ob(bool(ok), "prelude.abra:array_to_string_helper:format", PRELUDE, h[-1], "array elements must be rendered in order separated by \", \" (empty: \"\", last: element, otherwise element .. \", \" .. rest)", sample="array_to_string_helper: e0, e1, .. separated by ', '")
    for k in (2, 3, 4):
        ty = next((t for t in impls if t.startswith("(") and t.count(",") == k - 1), None)
        if ty is None:
            r.missing(f"prelude.abra:ToString for {k}-tuple", PRELUDE)
            continue
        f = impls[ty][0]["str"]
        comps = destructure(f[4][1], f[2][0][0])
        want = ["("]
        for i, c in enumerate(comps or []):
            want.append(("hole", c))
            want.append(", " if i < k - 1 else ")")
        check(ty, norm_tpl(want), lambda f=f: norm_tpl(str_template(body_expr(f), {}, fns)))
    r.count("ToString templates", n, 11, PRELUDE)


def conjuncts(e):
    """The conditions joined by `and` in a test (each must hold when the branch is taken)."""
    if isinstance(e, tuple) and e and e[0] == "bin" and e[1] == "and":
        return conjuncts(e[2]) + conjuncts(e[3])
    if isinstance(e, tuple) and e and e[0] == "paren":
        return conjuncts(e[1])
    return [e]


@rule("CHAIN-WALK", ["C27"], "collision chains in core/map are walked with an unconditional advance, a trailing pointer that is always the predecessor, a full (hash and key) match test, and slots whose parallel arrays are all written")
def chain_walk(ctx, r):
    mp = abra(ctx, r, MAP)
    if mp is None:
        return
    fns = [f for it in mp if it[0] in ("extend", "implement") for f in (it[2] if it[0] == "extend" else it[3])]
    n_walk = 0
    n_slot = 0
    for f in fns:
        if f[4] is None:
            continue
        for w in A.walk(f[4]):
            if not (isinstance(w, tuple) and w and w[0] == "while"):
                continue
            body = w[2][1]
            # cursor: `c = self.entry_nexts[c]`
            adv = [(i, s) for i, s in enumerate(body) if s[0] == "assign" and s[1] == "=" and s[2][0] == "var" and s[3][0] == "index" and A.show(s[3][1]).endswith("entry_nexts") and A.show(s[3][2]) == s[2][1]]
            nested_adv = [s for s in A.walk(w[2]) if isinstance(s, tuple) and s and s[0] == "assign" and s[2][0] == "var" and s[3][0] == "index" and A.show(s[3][1]).endswith("entry_nexts") and A.show(s[3][2]) == s[2][1]]
            if not nested_adv:
                continue
            n_walk += 1
            key = f"map.abra:{f[1]}:chain-walk"
            cur = nested_adv[0][2][1]
            ok_adv = len(adv) == 1 and len(nested_adv) == 1 and adv[0][0] == len(body) - 1
            conts = [s for s in A.walk(w[2]) if isinstance(s, tuple) and s and s[0] == "continue"]
            r.ob(ok_adv and not conts, key + ":advance-not-unconditional", MAP, w[-1],
                 f"map.{f[1]}: the chain cursor `{cur}` must advance exactly once per iteration, as the last top-level statement of the loop, and no `continue` may skip it", sample=f"map.{f[1]}: `{cur} = entry_nexts[{cur}]` closes every iteration")
            r.ob(A.show(w[1]).replace(" ", "") in (f"{cur}!=-1", f"({cur}!=-1)"), key + ":termination", MAP, w[-1], f"map.{f[1]}: the walk must run until the end-of-chain marker (`{cur} != -1`); it runs while `{A.show(w[1])}`", sample=f"map.{f[1]}: while {A.show(w[1])}")
            # trailing pointers: variables assigned from the cursor inside the loop
            trails = [s for s in A.walk(w[2]) if isinstance(s, tuple) and s and s[0] == "assign" and s[1] == "=" and s[2][0] == "var" and s[3] == ("var", cur) or (isinstance(s, tuple) and s and s[0] == "assign" and s[2][0] == "var" and s[3][0] == "var" and s[3][1] == cur and s[2][1] != cur)]
            seen = set()
            for t in trails:
                tv = t[2][1]
                if tv in seen:
                    continue
                seen.add(tv)
                top = [i for i, s in enumerate(body) if s is t]
                all_t = [s for s in trails if s[2][1] == tv]
                ok_t = len(all_t) == 1 and top and ok_adv and top[0] == adv[0][0] - 1
                r.ob(bool(ok_t), f"map.abra:{f[1]}:{tv}:trailing-pointer-not-predecessor", MAP, t[-1],
                     f"map.{f[1]}: `{tv}` is used as the predecessor of `{cur}` when unlinking; it must be set to `{cur}` unconditionally, immediately before the cursor advances - if it is skipped on some iterations the unlink cuts every entry between the stale `{tv}` and the removed one out of the chain",
                     sample=f"map.{f[1]}: `{tv} = {cur}` immediately before the advance, every iteration")
                # initialised to the end marker, and the unlink distinguishes the chain head
                inits = [s for s in A.walk(f[4]) if isinstance(s, tuple) and s and s[0] == "let" and s[2][0] == "pbind" and s[2][1] == tv]
                r.ob(len(inits) == 1 and A.show(inits[0][4]).replace(" ", "") == "-1", f"map.abra:{f[1]}:{tv}:initial", MAP, t[-1], f"map.{f[1]}: `{tv}` must start as -1 (no predecessor at the chain head)")
            # match test: hash equality and key equality both dominate the hit
            hits = [s for s in A.walk(w[2]) if isinstance(s, tuple) and s and s[0] == "return"]
            for h in hits:
                conds = []
                def enclosing(n, target, acc):
                    if n is target:
                        return acc
                    if isinstance(n, tuple):
                        for i, c in enumerate(n):
                            if isinstance(c, (tuple, list)):
                                a2 = acc + [A.show(c_) for c_ in conjuncts(n[1])] if n and n[0] == "if" and i == 2 else acc
                                got = enclosing(c, target, a2)
                                if got is not None:
                                    return got
                    elif isinstance(n, list):
                        for c in n:
                            got = enclosing(c, target, acc)
                            if got is not None:
                                return got
                    return None
                conds = enclosing(w[2], h, []) or []
                cs = [c_.replace(" ", "").strip("()") for c_ in conds]
                okm = any(re.fullmatch(rf"self\.entry_hashes\[{re.escape(cur)}\]==\w+|\w+==self\.entry_hashes\[{re.escape(cur)}\]", c_) for c_ in cs) and any(re.fullmatch(rf"self\.entry_keys\[{re.escape(cur)}\]==\w+|\w+==self\.entry_keys\[{re.escape(cur)}\]", c_) for c_ in cs)
                r.ob(okm, f"map.abra:{f[1]}:match-test", MAP, h[-1], f"map.{f[1]}: an entry is the sought one only if its stored hash equals the key's hash and its key equals the key; the hit is taken under `{' && '.join(conds)}`", sample=f"map.{f[1]}: hit under {' && '.join(conds)}")
        # slots: reuse branch and create branch write the same parallel arrays
        for x in A.walk(f[4]):
            if isinstance(x, tuple) and x and x[0] == "if" and "free_list" in A.show(x[1]) and x[3] is not None:
                def pushes(b):
                    return sorted({A.show(s[1][1]) for s in A.walk(b) if isinstance(s, tuple) and s and s[0] == "call" and s[1][0] == "member" and s[1][2] == "push" and "entry_" in A.show(s[1][1])})
                # which branch creates a slot (it pushes) and which reuses one: by what they do, then checked against the test
                create_b, reuse_b = (x[3], x[2]) if pushes(x[3]) or not pushes(x[2]) else (x[2], x[3])
                ctxt = A.show(x[1]).replace(" ", "").strip("()")
                then_is_reuse = True if re.fullmatch(r"self\.free_list!=-1|-1!=self\.free_list|self\.free_list>=0", ctxt) else (False if re.fullmatch(r"self\.free_list==-1|-1==self\.free_list|self\.free_list<0", ctxt) else None)
                r.ob(then_is_reuse is not None and (reuse_b is x[2]) == then_is_reuse, f"map.abra:{f[1]}:free-list-test-inverted", MAP, x[-1],
                     f"map.{f[1]}: a slot is taken from the free list exactly when the free list is not empty (free_list != -1); the branch that reuses a slot runs under `{'' if reuse_b is x[2] else 'not '}{A.show(x[1])}`",
                     sample=f"map.{f[1]}: reuse iff free_list != -1")
                wr = sorted({A.show(s[2][1]) for s in A.walk(reuse_b) if isinstance(s, tuple) and s and s[0] == "assign" and s[2][0] == "index" and "entry_" in A.show(s[2][1])})
                pu = pushes(create_b)
                # the link of a vacant slot is the free-list link: it must be read (popping the free list) before the slot's link is overwritten
                stm = reuse_b[1]
                pop_i = [i for i, s_ in enumerate(stm) if s_[0] == "assign" and A.show(s_[2]).endswith("free_list") and s_[3][0] == "index" and A.show(s_[3][1]).endswith("entry_nexts")]
                for i in pop_i:
                    slot = A.show(stm[i][3][2])
                    over_i = [j for j, s_ in enumerate(stm) if s_[0] == "assign" and s_[2][0] == "index" and A.show(s_[2][1]).endswith("entry_nexts") and A.show(s_[2][2]) == slot]
                    r.ob(all(i < j for j in over_i), f"map.abra:{f[1]}:free-list-link-read-after-overwrite", MAP, stm[i][-1],
                         f"map.{f[1]}: `{A.show(stm[i][2])} = {A.show(stm[i][3])}` pops the free list by reading the vacant slot's link, but `entry_nexts[{slot}]` has already been overwritten with the bucket chain: the free list then points at a live entry, and the next insert overwrites a key that was never removed",
                         sample=f"map.{f[1]}: free-list link of slot {slot} read before the slot is linked into its bucket")
                r.ob(bool(pop_i), f"map.abra:{f[1]}:free-list-not-popped", MAP, x[-1], f"map.{f[1]}: reusing a free slot must advance free_list to that slot's link")
                n_slot += 1
                r.ob(wr == pu and len(wr) >= 5, f"map.abra:{f[1]}:slot-arrays-disagree", MAP, x[-1], f"map.{f[1]}: reusing a free slot writes {wr} while creating a slot pushes {pu}: every per-entry array must be written in both cases, or a reused slot keeps a stale key, value, hash, link or occupancy", sample=f"map.{f[1]}: reuse and create both write {len(wr)} per-entry arrays")
    # an operation that walks a chain does so itself or through a helper of the map that does
    walkers = {f[1] for f in fns if f[4] is not None and any(isinstance(w, tuple) and w and w[0] == "while" and any(isinstance(s, tuple) and s and s[0] == "assign" and s[2][0] == "var" and s[3][0] == "index" and A.show(s[3][1]).endswith("entry_nexts") and A.show(s[3][2]) == s[2][1] for s in A.walk(w[2])) for w in A.walk(f[4]))}
    via = sum(1 for f in fns if f[4] is not None for c in A.walk(f[4]) if isinstance(c, tuple) and c and c[0] == "call" and c[1][0] == "member" and A.show(c[1][1]) == "self" and c[1][2] in walkers)
    r.count("collision-chain walks (own loops and calls of a walking helper)", n_walk + via, 3, MAP)
    r.count("slot allocation sites", n_slot, 1, MAP)


@rule("IMPL-HEADER", ["C28", "C24"], "an implementation header of the prelude names each component's type variable once: a repeated variable binds two components to one type and the instance is generated for the wrong one")
def impl_header(ctx, r):
    items = abra(ctx, r, PRELUDE)
    if items is None:
        return
    n = 0

    def tvars(t, acc):
        if isinstance(t, tuple) and t:
            if t[0] == "tname" and len(t[1]) <= 2 or (t[0] == "tname" and t[1][:1].isupper() and t[1][1:].isdigit()):
                acc.append(t[1])
            for x in t[1:]:
                if isinstance(x, (list, tuple)):
                    for y in (x if isinstance(x, list) else [x]):
                        tvars(y, acc)
        return acc

    for it in items:
        if it[0] not in ("implement", "extend"):
            continue
        ty = it[2] if it[0] == "implement" else it[1]
        if not (isinstance(ty, tuple) and ty and ty[0] == "ttuple"):
            continue
        n += 1
        names = [c[1] for c in ty[1] if c[0] == "tname"]
        dup = sorted({x for x in names if names.count(x) > 1})
        what = f"{it[1]} for {A.type_name(ty)}" if it[0] == "implement" else f"extend {A.type_name(ty)}"
        r.ob(not dup and len(names) == len(ty[1]), f"prelude.abra:{it[0]} {it[1] if it[0] == 'implement' else ''}:{len(ty[1])}-tuple:repeated-type-variable", PRELUDE, it[-1],
             f"{what}: the type variable(s) {dup} appear for more than one component. The checker tests each component against its variable separately and does not notice; when the method is instantiated for a concrete tuple the variable is bound twice and the last binding wins, so one component is handled by the code for another component's type (wrong text, or an internal 'expected type' fault)",
             sample=f"{what}: components {names} pairwise distinct")
    r.count("tuple implementation headers", n, 9, PRELUDE)

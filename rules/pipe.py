"""PIPE: operator pipeline chains  char -> TokenKind -> BinaryOperator -> (type -> assembly Instr | interface method) -> VM arm -> semantic op."""
from lib import synq as q
from lib.core import rule
from rules.optimizer import instr_pats
from rules.vm_ops import VM, _arms, asm_to_vm, root_operand, semop
from rules.vm_state import STR_OPS

TB = "abra_core/src/translate_bytecode.rs"
LEX = "abra_core/src/parse/lexer.rs"
PARSE = "abra_core/src/parse.rs"

# documented meaning of each binary operator on primitive operands: semantic operation of the VM arm (operands in order)
INT_SPEC = {
    "+": {"checked_add"}, "-": {"checked_sub"}, "*": {"checked_mul"}, "/": {"checked_div"},
    "%": {"wrapping_rem_euclid", "checked_rem_euclid", "rem_euclid"}, "^": {"checked_pow"},
    "<": {"<"}, "<=": {"<="}, ">": {">"}, ">=": {">="}, "==": {"=="}, "!=": {"=="},
}
FLOAT_SPEC = {
    "+": {"+"}, "-": {"-"}, "*": {"*"}, "/": {"/"}, "^": {"powf"},
    "<": {"total_cmp.is_lt"}, "<=": {"total_cmp.is_le"}, ">": {"total_cmp.is_gt"}, ">=": {"total_cmp.is_ge"},
    "==": {"total_cmp.is_eq"}, "!=": {"total_cmp.is_eq"},
}
BOOL_SPEC = {"==": {"=="}, "!=": {"=="}}
IFACE_SPEC = {
    "<": "prelude.Ord.less_than", "<=": "prelude.Ord.less_than_or_equal", ">": "prelude.Ord.greater_than",
    ">=": "prelude.Ord.greater_than_or_equal", "==": "prelude.Equal.equal", "!=": "prelude.Equal.equal",
    "+": "prelude.Num.add", "-": "prelude.Num.subtract", "*": "prelude.Num.multiply", "/": "prelude.Num.divide", "^": "prelude.Num.power",
}
OP_NAMES = {  # documented spelling -> expected role; the enum variant is found through the lexer+parser tables
    "+", "-", "*", "/", "%", "^", "<", "<=", ">", ">=", "==", "!=", "..", "and", "or",
}
COMPOUND = {"+=": "+", "-=": "-", "*=": "*", "/=": "/", "%=": "%"}


def lexer_table(ctx, r):
    """spelling -> TokenKind variant, from tokenize_file's match on the current char."""
    items = ctx.file_items(LEX)
    if items is None:
        r.missing("lexer.rs")
        return {}
    out = {}
    for f in q.find_fns(items):
        for m in q.walk(f["body"]):
            if m["k"] != "Match" or "current_char" not in q.show(m["e"]):
                continue
            for arm in m["arms"]:
                pat = arm["pat"]
                chars = [p["v"] for p in (pat["cases"] if pat["k"] == "POr" else [pat]) if p["k"] == "PLit" and p.get("t") == "char"]
                if len(chars) != 1:
                    continue
                c = chars[0]
                collect_emits(arm["body"], c, out)
    return out


def collect_emits(body, prefix, out):
    """if let Some('x') = peek_char(1) { emit(A) } else if .. else { emit(B) }"""
    def emitted(n):
        for x in q.walk(n):
            if x["k"] == "MethodCall" and x["m"] == "emit" and x["args"] and x["args"][0]["k"] == "Path" and x["args"][0]["p"].startswith("TokenKind::"):
                return q.last_seg(x["args"][0]["p"])
        return None

    st = q.body_stmts(body)
    if len(st) == 1 and st[0]["k"] == "ExprStmt" and st[0]["e"]["k"] == "If":
        e = st[0]["e"]
        while e is not None and e["k"] == "If":
            c = e["c"]
            nxt = None
            if c["k"] == "Let" and c["pat"]["k"] == "PTupleStruct" and c["pat"]["elems"] and c["pat"]["elems"][0]["k"] == "PLit":
                nxt = c["pat"]["elems"][0]["v"]
            t = emitted(e["t"])
            if nxt is not None and t:
                out[prefix + nxt] = t
            e = e.get("e")
        if e is not None:
            t = emitted(e)
            if t:
                out[prefix] = t
        return
    t = emitted(body)
    if t and len([x for x in q.walk(body) if x["k"] == "MethodCall" and x["m"] == "emit"]) == 1:
        out[prefix] = t


def parser_table(ctx, r, fname, enum_name):
    items = ctx.file_items(PARSE)
    f = q.find_fn(items, fname) if items else None
    if f is None:
        r.missing(fname, PARSE)
        return {}
    out = {}
    for m in q.walk(f["body"]):
        if m["k"] != "Match":
            continue
        for arm in m["arms"]:
            for h in q.pat_heads(arm["pat"]):
                if not h.startswith("TokenTag::"):
                    continue
                for x in q.walk(arm["body"]):
                    if x["k"] == "Path" and x["p"].startswith(enum_name + "::"):
                        out.setdefault(q.last_seg(h), q.last_seg(x["p"]))
                        break
        break
    return out


OP_APPLIERS = {"perform_op"}  # names under which the compound-assignment operator table is applied (filled by assign_tables)


def actions(node):
    """Flat ordered emission actions of a block (not descending into nested matches on other scrutinees is the caller's job)."""
    out = []
    for x in q.walk_post(node):
        if x["k"] == "MethodCall" and q.show(x["recv"]) == "self":
            if x["m"] == "translate_expr":
                out.append(("T", q.show(x["args"][0])))
            elif x["m"] == "emit":
                a = x["args"][1] if len(x["args"]) > 1 else None
                if a is None:
                    continue
                if a["k"] == "Call" and a["f"]["k"] == "Path" and a["f"]["p"].startswith("Instr::"):
                    out.append(("E", q.last_seg(a["f"]["p"]), [q.show(y) for y in a["args"]]))
                elif a["k"] == "Path" and a["p"].startswith("Instr::"):
                    out.append(("E", q.last_seg(a["p"]), []))
                elif a["k"] == "Struct" and a["p"].startswith("Instr::"):
                    out.append(("E", q.last_seg(a["p"]), []))
                else:
                    lab = q.show(a)
                    lab = lab.replace("Line::Label(", "").rstrip(")") if lab.startswith("Line::Label(") else lab
                    out.append(("L", lab.replace(".clone()", "")))
            elif x["m"] in OP_APPLIERS:
                out.append(("P", None))
            elif any(a["k"] == "Lit" and a.get("t") == "str" and str(a.get("v", "")).startswith("prelude.") for a in x["args"]):
                # a method standing where the local `helper("prelude.Iface.method")` closure stood
                out.append(("H", next(a["v"] for a in x["args"] if a["k"] == "Lit" and a.get("t") == "str" and str(a.get("v", "")).startswith("prelude."))))
            elif x["m"] in ("handle_func_call", "translate_iface_method_call_helper", "translate_func_call", "translate_lambda_call", "translate_num_method_call"):
                out.append(("C", x["m"]))
        elif x["k"] == "Call" and x["f"]["k"] == "Path" and (x["f"]["p"] in ("helper",) or x["f"]["p"] in OP_APPLIERS or (isinstance(x.get("inl"), dict) and x["inl"].get("closure"))):
            names = [a["v"] for a in x["args"] if a["k"] == "Lit" and a["t"] == "str"]
            out.append(("H" if names else "P", names[0] if names else None))
        elif x["k"] == "Macro" and x["name"] in ("unreachable", "unimplemented", "panic", "todo"):
            out.append(("X", x["name"]))
        elif x["k"] == "Return":
            out.append(("R",))
    return out


def _value_of(e):
    while e["k"] == "Paren":
        e = e["e"]
    if e["k"] == "Block" and e["stmts"] and e["stmts"][-1]["k"] == "ExprStmt":
        return _value_of(e["stmts"][-1]["e"])
    return e


def _specialised(body, local, arm):
    """Copy of `body` for the case that the type match initialising `local` takes `arm`: the variables the local binds
    stand for the values the arm yields (`let (push_zero, subtract) = match ty { Int => (A, B), .. }; emit(push_zero); ..`)."""
    from lib.inline import _copy, _subst

    val = _value_of(arm["body"])
    names = q.pat_bindings(local["pat"])
    mapping = {}
    if local["pat"]["k"] == "PTuple" and val["k"] == "Tuple" and len(val["elems"]) == len(local["pat"]["elems"]):
        for p_, v in zip(local["pat"]["elems"], val["elems"]):
            b = q.pat_bindings(p_)
            if len(b) == 1:
                mapping[b[0]] = v
    elif len(names) == 1:
        mapping[names[0]] = val
    stmts = q.body_stmts(body)
    rest = [st for st in stmts if st is not local]
    cp = _copy({"k": "Block", "l": body.get("l", 0), "stmts": rest})
    _subst(cp, mapping)
    return cp, mapping


def type_table(body, scrut_names):
    """If body is `match <ty var> { SolvedType::T => .., _ => .. }` return {T or '_': actions} plus trailing actions.
    Also understands the match in value position: `let (a, b) = match <ty var> { T => (X, Y), .. }; emit(a); ..; emit(b)`."""
    for m in q.walk(body):
        if m["k"] == "Match" and q.show(m["e"]) in scrut_names:
            local = next((l for l in q.body_stmts(body) if l["k"] == "Local" and l.get("init") is m), None)
            tbl = {}
            for arm in m["arms"]:
                for h in q.pat_heads(arm["pat"]):
                    if local is not None:
                        acts = actions(arm["body"])
                        if acts and acts[0][0] == "X":
                            tbl[q.last_seg(h) if h != "_" else "_"] = acts
                        else:
                            cp, _ = _specialised(body, local, arm)
                            tbl[q.last_seg(h) if h != "_" else "_"] = actions(cp)
                    else:
                        tbl[q.last_seg(h) if h != "_" else "_"] = actions(arm["body"])
            return tbl, m
    return None, None


def binop_tables(ctx, r):
    """(BinaryOperator variant -> {type: actions}, short-circuit sequences, prefix table, arm node)."""
    items = ctx.file_items(TB)
    f = q.find_fn(items, "translate_expr", impl_ty="Translator") if items else None
    if f is None:
        r.missing("Translator::translate_expr", TB)
        return None
    top = [m for m in q.walk(f["body"]) if m["k"] == "Match" and ".kind" in q.show(m["e"])]
    if not top:
        r.missing("translate_expr:match-kind", TB)
        return None
    binarm = unarm = None
    for arm in top[0]["arms"]:
        hs = q.pat_heads(arm["pat"])
        if "ExprKind::BinOp" in hs:
            binarm = arm
        if "ExprKind::Unop" in hs:
            unarm = arm
    if binarm is None or unarm is None:
        r.missing("translate_expr:BinOp/Unop arms", TB)
        return None
    # lowering helpers the arms delegate to (methods that emit or translate operands themselves) are read in place
    from lib.inline import emits_code, materialize

    named = {"handle_func_call", "translate_iface_method_call_helper", "translate_func_call", "translate_lambda_call", "translate_num_method_call", "emit_intrinsic", "translate_declaration"}
    # (a helper that dispatches to an interface method named by a string argument stays a call: its name argument is what counts)
    dispatches = lambda inl: any(y["k"] == "MethodCall" and y["m"] in ("translate_iface_method_call_helper", "get_iface_decl") for y in q.walk(inl["body"]))  # noqa: E731
    pred = lambda inl: not inl.get("closure") and inl.get("callee") not in named and emits_code(inl) and not dispatches(inl)  # noqa: E731
    binarm = materialize(binarm, pred=pred)
    unarm = materialize(unarm, pred=pred)
    left, opname, right = [e["name"] for e in binarm["pat"]["elems"]]
    ops = {}
    short = {}
    for m in q.walk(binarm["body"]):
        if m["k"] != "Match" or q.show(m["e"]).lstrip("*") != opname:
            continue
        for arm in m["arms"]:
            heads = [q.last_seg(h) for h in q.pat_heads(arm["pat"]) if h.startswith("BinaryOperator::")]
            if not heads:
                continue
            acts = actions(arm["body"])
            if acts == [("X", "unreachable")] or not acts:
                continue
            tbl, tm = type_table(arm["body"], {"arg1_ty"})
            for h in heads:
                if any(a[0] == "T" for a in acts):
                    short[h] = acts
                elif tbl is not None:
                    ops[h] = {"types": tbl, "after": trailing_after(arm["body"], tm, opname)}
                else:
                    ops[h] = {"types": {"_": acts}, "after": []}
    # the same table written as one match on (operator, operand type)
    for m in q.walk(binarm["body"]):
        if not (m["k"] == "Match" and m["e"]["k"] == "Tuple" and len(m["e"]["elems"]) == 2 and q.show(m["e"]["elems"][0]).lstrip("*&") == opname):
            continue
        holder = next((b for b in q.walk(binarm["body"]) if b["k"] == "Block" and any(st_ is m or st_.get("e") is m for st_ in b["stmts"])), None)
        after = trailing_after(holder, m, opname) if holder is not None else []
        for arm in m["arms"]:
            if arm["pat"].get("k") != "PTuple" or len(arm["pat"]["elems"]) != 2:
                continue
            heads = [q.last_seg(h) for h in q.pat_heads(arm["pat"]["elems"][0]) if h.startswith("BinaryOperator::")]
            tys = [q.last_seg(h) if h != "_" else "_" for h in q.pat_heads(arm["pat"]["elems"][1])]
            acts = actions(arm["body"])
            if not heads or acts == [("X", "unreachable")]:
                continue
            for h in heads:
                ent = ops.setdefault(h, {"types": {}, "after": after})
                for t in tys:
                    ent["types"].setdefault(t, acts)
    # order of operand translation in the arm
    order = [a for a in actions(binarm["body"]) if a[0] == "T"]
    pre = {}
    for m in q.walk(unarm["body"]):
        if m["k"] == "Match" and q.show(m["e"]).lstrip("*") == unarm["pat"]["elems"][0]["name"]:
            for arm in m["arms"]:
                for h in q.pat_heads(arm["pat"]):
                    if h.startswith("PrefixOp::"):
                        tbl, _ = type_table(arm["body"], {"arg1_ty"})
                        pre[q.last_seg(h)] = tbl if tbl is not None else {"_": actions(arm["body"])}
    return ops, short, pre, order, (left, right), binarm, unarm


def trailing_after(body, tm, opname):
    """Actions after the type match in the same arm body, with their guard (e.g. `if *op == NotEqual { emit Not }`)."""
    out = []
    for st in q.body_stmts(body):
        if st["k"] == "ExprStmt" and st["e"]["k"] == "If":
            cond = q.show(st["e"]["c"])
            out.append((cond, actions(st["e"]["t"])))
    return out


def assign_tables(ctx, r):
    items = ctx.file_items(TB)
    f = q.find_fn(items, "translate_stmt", impl_ty="Translator") if items else None
    if f is None:
        r.missing("Translator::translate_stmt", TB)
        return None
    per_op = {}
    forms = {}
    # the operator table of compound assignment: a match with one arm per arithmetic AssignOperator, in a closure of
    # translate_stmt or in a method of the translator that translate_stmt calls (whatever either is called)
    ARITH = {"PlusEq", "MinusEq", "StarEq", "SlashEq", "ModEq"}

    def op_table(body):
        for m in q.walk(body):
            if m["k"] != "Match":
                continue
            single = [a for a in m["arms"] if len([h for h in q.pat_heads(a["pat"]) if h.startswith("AssignOperator::")]) == 1 and q.last_seg(q.pat_heads(a["pat"])[0]) in ARITH]
            if len(single) >= 4:
                return m
        return None

    holders = []
    for cl in q.walk(f["body"]):
        if cl["k"] == "Local" and cl.get("init") and cl["init"]["k"] == "Closure" and cl["pat"].get("k") == "PIdent":
            holders.append((cl["pat"]["name"], cl["init"]["body"]))
    for c in q.walk(f["body"]):
        if c["k"] == "MethodCall" and q.show(c["recv"]) == "self":
            g = q.find_fn(items, c["m"], impl_ty="Translator")
            if g is not None and g.get("body") is not None and g is not f and c["m"] not in [h[0] for h in holders]:
                holders.append((c["m"], g["body"]))
    for name, body in holders:
        m = op_table(body)
        if m is None:
            continue
        OP_APPLIERS.add(name)
        tyvars = {"rvalue_ty"} | {q.show(q.strip_refs(mm["e"])).lstrip("*") for arm in m["arms"] for mm in q.walk(arm["body"]) if mm["k"] == "Match" and any("SolvedType::" in h for a2 in mm["arms"] for h in q.pat_heads(a2["pat"]))}
        for arm in m["arms"]:
            for h in q.pat_heads(arm["pat"]):
                if h.startswith("AssignOperator::"):
                    tbl, _ = type_table(arm["body"], tyvars)
                    per_op[q.last_seg(h)] = tbl if tbl is not None else {"_": actions(arm["body"])}
        break
    # the three left-hand-side forms of the compound branch call perform_op exactly once
    for m in q.walk(f["body"]):
        if m["k"] == "Match" and q.show(m["e"]) == "assign_op":
            for arm in m["arms"]:
                hs = [q.last_seg(h) for h in q.pat_heads(arm["pat"])]
                if "PlusEq" in hs:
                    for mm in q.walk(arm["body"]):
                        if mm["k"] == "Match" and "expr1.kind" in q.show(mm["e"]):
                            for a2 in mm["arms"]:
                                for h in q.pat_heads(a2["pat"]):
                                    if h.startswith("ExprKind::"):
                                        forms[q.last_seg(h)] = actions(a2["body"])
            break
    return per_op, forms


@rule("PIPE", ["C02", "C15", "C16", "C24", "C20"], "every operator's chain lexer -> parser -> translator -> assembler -> VM arm ends in the documented operation")
def pipe(ctx, r):
    arms = _arms(ctx, r)
    if arms is None:
        return
    by = {v: an for v, arm, an in arms}
    a2v = asm_to_vm(ctx, r)
    lex = lexer_table(ctx, r)
    lex.update({"and": "And", "or": "Or", "not": "Not"})
    pb = parser_table(ctx, r, "parse_binop", "BinaryOperator")
    pa = parser_table(ctx, r, "parse_assign_op", "AssignOperator")
    pp = parser_table(ctx, r, "parse_prefix_op", "PrefixOp")
    bt = binop_tables(ctx, r)
    if bt is None:
        return
    ops, short, pre, order, (left, right), binarm, unarm = bt
    n_chain = 0
    # operands left to right
    r.ob(len(order) >= 2 and order[0] == ("T", left), "translate_bytecode.rs:translate_expr:BinOp:left-operand-first", TB, binarm["l"],
         f"the BinOp arm must translate the left operand first; translation order is {order}", sample=f"BinOp translates {order}")

    def check_instr(sym, ty, acts, after, key, line):
        """acts -> the VM arm's semantic op must be in the spec set for (sym, ty)."""
        emits = [a for a in acts if a[0] == "E"]
        spec = {"Int": INT_SPEC, "Float": FLOAT_SPEC, "Bool": BOOL_SPEC}.get(ty, {}).get(sym)
        if ty == "String":
            if len(emits) != 1 or emits[0][2] != ["Reg::Top"] * 3:
                r.find(key + ":emission", TB, line, f"`{sym}` on string: expected one three-register instruction on Top, got {acts}")
                return
            vm = a2v.get(emits[0][1])
            want = "==" if sym in ("==", "!=") else sym
            r.ob(STR_OPS.get(vm) == want, key + ":string-instruction", TB, line, f"`{sym}` on strings is translated to {emits[0][1]} (VM {vm}), which implements `{STR_OPS.get(vm)}`",
                 sample=f"`{sym}` string -> {vm}")
            return
        if spec is None:
            return
        if len(emits) != 1:
            r.find(key + ":emission", TB, line, f"`{sym}` on {ty}: expected exactly one instruction, got {acts}")
            return
        ins = emits[0]
        r.ob(ins[2] == ["Reg::Top"] * 3, key + ":registers", TB, line, f"`{sym}` on {ty}: {ins[1]}{ins[2]} must take both operands and its result on the stack (Top)")
        vm = a2v.get(ins[1])
        an = by.get(vm)
        if an is None:
            r.missing(key + ":vm-arm", VM)
            return
        so = semop(an)
        got = so[0] if so else None
        pos = [root_operand(a)[1] for a in so[1]] if so else []
        r.ob(got in spec and pos == [1, 2], key + ":operation", TB, line,
             f"`{sym}` on {ty} reaches VM arm {vm}, which computes `{got}` on operands {pos}; the reference prescribes {sorted(spec)} on (left, right)",
             sample=f"`{sym}` {ty} -> {ins[1]} -> {vm} -> {got}")

    for sym in sorted(OP_NAMES):
        tok = lex.get(sym)
        bop = pb.get(tok) if tok else None
        if tok is None or bop is None:
            r.missing(f"chain:{sym}", PARSE, f"lexer gives {tok}, parse_binop gives {bop}")
            continue
        n_chain += 1
        key = f"translate_bytecode.rs:translate_expr:BinOp:{sym}"
        if sym in ("and", "or"):
            seq = short.get(bop)
            if seq is None:
                r.find(key + ":no-short-circuit", TB, binarm["l"], f"`{sym}`: the right operand is not translated inside a conditional jump")
                continue
            ok, why = short_circuit_ok(sym, seq, right)
            r.ob(ok, key + ":short-circuit", TB, binarm["l"], f"`{sym}` lowering {seq}: {why}", sample=f"`{sym}` short-circuits: {seq}")
            continue
        if sym == "..":
            acts = ops.get(bop, {}).get("types", {}).get("_", [])
            r.ob(("C", "handle_func_call") in acts, key + ":format", TB, binarm["l"], f"`..` must call prelude.format_append; actions {acts}", sample="`..` -> prelude.format_append")
            continue
        ent = ops.get(bop)
        if ent is None:
            r.find(key + ":untranslated", TB, binarm["l"], f"`{sym}` ({bop}) has no translation arm")
            continue
        types = ent["types"]
        for ty in ("Int", "Float", "Bool", "String"):
            spec_has = sym in {"Int": INT_SPEC, "Float": FLOAT_SPEC, "Bool": BOOL_SPEC, "String": {"<", "<=", ">", ">=", "==", "!="}}[ty]
            acts = types.get(ty)
            if acts is None:
                acts = types.get("_") if spec_has and ty in ("Int",) and "_" in types and sym == "%" else None
            if acts is None:
                if spec_has and ty in ("Int", "Float") and sym != "%":
                    r.find(key + f":{ty}:missing", TB, binarm["l"], f"`{sym}` has no inline translation for {ty}")
                continue
            if not spec_has:
                continue
            check_instr(sym, ty, acts, ent["after"], key + ":" + ty, binarm["l"])
        # fallback for other types
        fb = types.get("_")
        if fb is not None and sym in IFACE_SPEC and sym != "%":
            names = [a[1] for a in fb if a[0] == "H"]
            if fb == [("X", "unreachable")] or any(a[0] == "X" for a in fb):
                r.notes.append(f"`{sym}`: fallback for non-primitive operands diverges (covered by VISIT-TOTAL typed fallbacks)")
            else:
                r.ob(names == [IFACE_SPEC[sym]], key + ":interface-method", TB, binarm["l"], f"`{sym}` on other types dispatches to {names}; expected {IFACE_SPEC[sym]}", sample=f"`{sym}` other -> {names}")
        # != is == followed by Not
        if sym in ("==", "!="):
            nots = [(c, a) for c, a in ent["after"] if any(x[0] == "E" and x[1] == "Not" for x in a)]
            ok = len(nots) == 1 and "NotEqual" in nots[0][0] and "==" in nots[0][0]
            r.ob(ok, key + ":negation", TB, binarm["l"], f"`!=` must be `==` followed by Not exactly when the operator is NotEqual; trailing actions {ent['after']}", sample="`!=` = `==` ; Not")
    r.count("binary operator chains", n_chain, 15, PARSE)
    # unary minus
    sub = ops.get(pb.get(lex.get("-")), {}).get("types", {})
    ptok = pp.get(lex.get("-"))
    if ptok is None or ptok not in pre:
        r.missing("chain:unary-minus", PARSE)
    else:
        for ty, zero in (("Int", "PushInt"), ("Float", "PushFloat")):
            acts = pre[ptok].get(ty, [])
            sube = [a for a in sub.get(ty, []) if a[0] == "E"]
            shape = [(a[0], a[1]) for a in acts]
            ok = len(shape) == 3 and shape[0] == ("E", zero) and shape[1][0] == "T" and sube and shape[2] == ("E", sube[0][1]) and acts[0][2] in (["0"], ["'0.0'.into()"], ['"0.0".into()'])
            r.ob(ok, f"translate_bytecode.rs:translate_expr:Unop:minus:{ty}", TB, unarm["l"],
                 f"unary `-` on {ty} must be `0 - x` with the checked subtraction of binary `-` ({sube[0][1] if sube else '?'}); actions {acts}", sample=f"unary - {ty}: {shape}")
    ntok = pp.get(lex.get("not"))
    if ntok is None or ntok not in pre:
        r.missing("chain:not", PARSE)
    else:
        acts = pre[ntok].get("_", [])
        r.ob([(a[0], a[1]) for a in acts] == [("T", acts[0][1] if acts else None), ("E", "Not")], "translate_bytecode.rs:translate_expr:Unop:not", TB, unarm["l"], f"`not` must be operand ; Not, got {acts}", sample="not -> Not")
    # compound assignment
    at = assign_tables(ctx, r)
    if at is None:
        return
    per_op, forms = at
    n_assign = 0
    for sym, base in COMPOUND.items():
        tok = lex.get(sym)
        aop = pa.get(tok) if tok else None
        if aop is None:
            r.missing(f"chain:{sym}", PARSE, f"lexer gives {tok}")
            continue
        n_assign += 1
        bin_types = ops.get(pb.get(lex.get(base)), {}).get("types", {})
        for ty in ("Int", "Float"):
            want = [a for a in (bin_types.get(ty) or (bin_types.get("_") if base == "%" and ty == "Int" else []) or []) if a[0] == "E"]
            got = [a for a in (per_op.get(aop, {}).get(ty) or (per_op.get(aop, {}).get("_") if base == "%" and ty == "Int" else []) or []) if a[0] == "E"]
            if not want and not got:
                continue
            r.ob(want == got, f"translate_bytecode.rs:translate_stmt:Assign:{sym}:{ty}", TB, 0, f"`{sym}` on {ty} emits {got}; binary `{base}` emits {want}", sample=f"`{sym}` {ty} = `{base}`: {[g[1] for g in got]}")
        # operands of any other type go through the operator's interface method: the same one as the binary operator
        other = [a[1] for a in (per_op.get(aop, {}).get("_") or []) if a[0] == "H" and a[1]]
        if other or base in IFACE_SPEC and base != "%":
            r.ob(other == [IFACE_SPEC.get(base)], f"translate_bytecode.rs:translate_stmt:Assign:{sym}:interface-method", TB, 0,
                 f"`{sym}` on a user-defined number type dispatches to {other}; binary `{base}` uses {IFACE_SPEC.get(base)}: `x {sym} y` then stores the result of another operation",
                 sample=f"`{sym}` other types -> {other}")
    r.count("compound assignment chains", n_assign, 5, PARSE)
    r.ob(lex.get("=") is not None and pa.get(lex.get("=")) == "Equal", "parse.rs:parse_assign_op:=", PARSE, 0, "`=` must parse as plain assignment")
    for form, acts in sorted(forms.items()):
        n = sum(1 for a in acts if a[0] == "P")
        diverges = any(a[0] == "X" for a in acts)
        r.ob(n >= 1 or diverges, f"translate_bytecode.rs:translate_stmt:Assign:compound:{form}", TB, 0, f"compound assignment to {form} never applies the operator", sample=f"compound {form}: operator applied {n}x")
    r.count("compound assignment left-hand forms", len(forms), 3, TB)


def short_circuit_ok(sym, seq, right):
    """Abstractly run the emitted sequence for both values of the left operand."""
    # expected: jump over the right operand with the short-circuit result
    jump = "JumpIf" if sym == "or" else "JumpIfFalse"
    for leftv in (True, False):
        pc = 0
        stack = [leftv]
        evaluated_right = False
        steps = 0
        labels = {a[1]: i for i, a in enumerate(seq) if a[0] == "L"}
        while pc < len(seq) and steps < 50:
            steps += 1
            a = seq[pc]
            if a[0] == "E" and a[1] in ("JumpIf", "JumpIfFalse"):
                v = stack.pop()
                tgt = a[2][0].replace(".clone()", "")
                if (a[1] == "JumpIf") == bool(v):
                    if tgt not in labels:
                        return False, f"jump target {tgt} is not emitted"
                    pc = labels[tgt]
                    continue
            elif a[0] == "E" and a[1] == "Jump":
                tgt = a[2][0].replace(".clone()", "")
                if tgt not in labels:
                    return False, f"jump target {tgt} is not emitted"
                pc = labels[tgt]
                continue
            elif a[0] == "E" and a[1] == "PushBool":
                stack.append(a[2][0] == "true")
            elif a[0] == "T":
                if a[1] != right:
                    return False, f"translates {a[1]} instead of the right operand"
                evaluated_right = True
                stack.append("R")
            elif a[0] == "R":
                break
            pc += 1
        want_eval = (not leftv) if sym == "or" else leftv
        want_res = (True if leftv else "R") if sym == "or" else ("R" if leftv else False)
        if evaluated_right != want_eval:
            return False, f"with left={leftv} the right operand is {'evaluated' if evaluated_right else 'skipped'}"
        if stack != [want_res]:
            return False, f"with left={leftv} the result stack is {stack}, expected [{want_res}]"
    return True, ""

//! absyn: Rust source -> JSON syntax facts (parsed with syn; no execution, no name resolution).
//!
//! usage: absyn <out.json> <root-dir-or-file>...
//! Every `*.rs` under each root is parsed.  Output: {"files": {path: {"items": [...]}} , "errors": [...]}.
use proc_macro2::{Delimiter, Spacing, TokenStream, TokenTree};
use quote::ToTokens;
use serde_json::{json, Map, Value};
use std::path::{Path, PathBuf};
use syn::spanned::Spanned;
use syn::*;

fn line_of<T: Spanned>(t: &T) -> usize {
    t.span().start().line
}
fn end_line_of<T: Spanned>(t: &T) -> usize {
    t.span().end().line
}

fn toks(ts: TokenStream) -> String {
    let mut out = String::new();
    let mut prev_word = false;
    fn go(ts: TokenStream, out: &mut String, prev_word: &mut bool) {
        for tt in ts {
            match tt {
                TokenTree::Group(g) => {
                    let (o, c) = match g.delimiter() {
                        Delimiter::Parenthesis => ("(", ")"),
                        Delimiter::Brace => ("{", "}"),
                        Delimiter::Bracket => ("[", "]"),
                        Delimiter::None => ("", ""),
                    };
                    out.push_str(o);
                    *prev_word = false;
                    go(g.stream(), out, prev_word);
                    out.push_str(c);
                    *prev_word = false;
                }
                TokenTree::Ident(i) => {
                    if *prev_word {
                        out.push(' ');
                    }
                    out.push_str(&i.to_string());
                    *prev_word = true;
                }
                TokenTree::Literal(l) => {
                    if *prev_word {
                        out.push(' ');
                    }
                    out.push_str(&l.to_string());
                    *prev_word = true;
                }
                TokenTree::Punct(p) => {
                    let c = p.as_char();
                    if c == ',' {
                        out.push_str(", ");
                    } else if c == '\'' {
                        if *prev_word {
                            out.push(' ');
                        }
                        out.push(c);
                    } else {
                        out.push(c);
                        let _ = p.spacing() == Spacing::Joint;
                    }
                    *prev_word = false;
                }
            }
        }
    }
    go(ts, &mut out, &mut prev_word);
    out.trim().to_string()
}

fn ty_s(t: &Type) -> String {
    toks(t.to_token_stream())
}
fn path_s(p: &syn::Path) -> String {
    // path without generic arguments
    let mut s = String::new();
    if p.leading_colon.is_some() {
        s.push_str("::");
    }
    for (i, seg) in p.segments.iter().enumerate() {
        if i > 0 {
            s.push_str("::");
        }
        s.push_str(&seg.ident.to_string());
    }
    s
}
fn path_full(p: &syn::Path) -> String {
    toks(p.to_token_stream())
}

fn attrs_v(attrs: &[Attribute]) -> Value {
    let v: Vec<Value> = attrs
        .iter()
        .filter(|a| !a.path().is_ident("doc"))
        .map(|a| Value::String(toks(a.meta.to_token_stream())))
        .collect();
    Value::Array(v)
}

fn node(k: &str, l: usize) -> Map<String, Value> {
    let mut m = Map::new();
    m.insert("k".into(), Value::String(k.into()));
    m.insert("l".into(), json!(l));
    m
}

fn block_v(b: &Block) -> Value {
    let mut m = node("Block", line_of(b));
    m.insert("el".into(), json!(end_line_of(b)));
    m.insert("stmts".into(), Value::Array(b.stmts.iter().map(stmt_v).collect()));
    Value::Object(m)
}

fn stmt_v(s: &Stmt) -> Value {
    match s {
        Stmt::Local(l) => {
            let mut m = node("Local", line_of(l));
            m.insert("pat".into(), pat_v(&l.pat));
            if let Some(init) = &l.init {
                m.insert("init".into(), expr_v(&init.expr));
                if let Some((_, d)) = &init.diverge {
                    m.insert("else".into(), expr_v(d));
                }
            }
            Value::Object(m)
        }
        Stmt::Item(i) => {
            let mut m = node("ItemStmt", line_of(i));
            m.insert("item".into(), item_v(i));
            Value::Object(m)
        }
        Stmt::Expr(e, semi) => {
            let mut m = node("ExprStmt", line_of(e));
            m.insert("e".into(), expr_v(e));
            m.insert("semi".into(), json!(semi.is_some()));
            Value::Object(m)
        }
        Stmt::Macro(mac) => {
            let mut m = node("ExprStmt", line_of(mac));
            m.insert("e".into(), macro_v(&mac.mac, line_of(mac)));
            m.insert("semi".into(), json!(mac.semi_token.is_some()));
            Value::Object(m)
        }
    }
}

struct CommaExprs(Vec<Expr>);
impl syn::parse::Parse for CommaExprs {
    fn parse(input: syn::parse::ParseStream) -> Result<Self> {
        let p = punctuated::Punctuated::<Expr, Token![,]>::parse_terminated(input)?;
        Ok(CommaExprs(p.into_iter().collect()))
    }
}
struct MatchesArgs(Expr, Pat, Option<Expr>);
impl syn::parse::Parse for MatchesArgs {
    fn parse(input: syn::parse::ParseStream) -> Result<Self> {
        let e: Expr = input.parse()?;
        let _: Token![,] = input.parse()?;
        let p = Pat::parse_multi_with_leading_vert(input)?;
        let g = if input.peek(Token![if]) {
            let _: Token![if] = input.parse()?;
            Some(input.parse::<Expr>()?)
        } else {
            None
        };
        let _ = input.parse::<Option<Token![,]>>();
        Ok(MatchesArgs(e, p, g))
    }
}

fn macro_v(mac: &Macro, l: usize) -> Value {
    let mut m = node("Macro", l);
    let name = path_s(&mac.path);
    m.insert("name".into(), Value::String(name.clone()));
    m.insert("tokens".into(), Value::String(toks(mac.tokens.clone())));
    if name == "matches" {
        if let Ok(ma) = syn::parse2::<MatchesArgs>(mac.tokens.clone()) {
            m.insert("args".into(), Value::Array(vec![expr_v(&ma.0)]));
            m.insert("pat".into(), pat_v(&ma.1));
            if let Some(g) = ma.2 {
                m.insert("guard".into(), expr_v(&g));
            }
        }
    } else if let Ok(ce) = syn::parse2::<CommaExprs>(mac.tokens.clone()) {
        m.insert("args".into(), Value::Array(ce.0.iter().map(expr_v).collect()));
    }
    Value::Object(m)
}

fn lit_v(l: &Lit, line: usize) -> Value {
    let mut m = node("Lit", line);
    let (t, v) = match l {
        Lit::Str(s) => ("str", s.value()),
        Lit::Int(i) => ("int", i.base10_digits().to_string()),
        Lit::Float(f) => ("float", f.base10_digits().to_string()),
        Lit::Bool(b) => ("bool", b.value.to_string()),
        Lit::Char(c) => ("char", c.value().to_string()),
        Lit::Byte(b) => ("byte", b.value().to_string()),
        Lit::ByteStr(b) => ("bytestr", String::from_utf8_lossy(&b.value()).to_string()),
        other => ("other", toks(other.to_token_stream())),
    };
    m.insert("t".into(), Value::String(t.into()));
    m.insert("v".into(), Value::String(v));
    if let Lit::Int(i) = l {
        if !i.suffix().is_empty() {
            m.insert("suffix".into(), Value::String(i.suffix().into()));
        }
    }
    Value::Object(m)
}

fn opt_expr(e: &Option<Box<Expr>>) -> Value {
    match e {
        Some(e) => expr_v(e),
        None => Value::Null,
    }
}

fn expr_v(e: &Expr) -> Value {
    let l = line_of(e);
    match e {
        Expr::Paren(p) => expr_v(&p.expr),
        Expr::Group(g) => expr_v(&g.expr),
        Expr::Lit(x) => lit_v(&x.lit, l),
        Expr::Path(p) => {
            let mut m = node("Path", l);
            m.insert("p".into(), Value::String(path_s(&p.path)));
            let full = path_full(&p.path);
            if full != path_s(&p.path) {
                m.insert("full".into(), Value::String(full));
            }
            Value::Object(m)
        }
        Expr::Call(c) => {
            let mut m = node("Call", l);
            m.insert("f".into(), expr_v(&c.func));
            m.insert("args".into(), Value::Array(c.args.iter().map(expr_v).collect()));
            Value::Object(m)
        }
        Expr::MethodCall(c) => {
            let mut m = node("MethodCall", l);
            m.insert("recv".into(), expr_v(&c.receiver));
            m.insert("m".into(), Value::String(c.method.to_string()));
            m.insert("ml".into(), json!(line_of(&c.method)));
            if let Some(t) = &c.turbofish {
                m.insert("turbofish".into(), Value::String(toks(t.to_token_stream())));
            }
            m.insert("args".into(), Value::Array(c.args.iter().map(expr_v).collect()));
            Value::Object(m)
        }
        Expr::Field(f) => {
            let mut m = node("Field", l);
            m.insert("e".into(), expr_v(&f.base));
            let name = match &f.member {
                Member::Named(i) => i.to_string(),
                Member::Unnamed(i) => i.index.to_string(),
            };
            m.insert("f".into(), Value::String(name));
            Value::Object(m)
        }
        Expr::Index(i) => {
            let mut m = node("Index", l);
            m.insert("e".into(), expr_v(&i.expr));
            m.insert("i".into(), expr_v(&i.index));
            Value::Object(m)
        }
        Expr::Binary(b) => {
            let mut m = node("Binary", l);
            m.insert("op".into(), Value::String(toks(b.op.to_token_stream())));
            m.insert("a".into(), expr_v(&b.left));
            m.insert("b".into(), expr_v(&b.right));
            Value::Object(m)
        }
        Expr::Unary(u) => {
            let mut m = node("Unary", l);
            m.insert("op".into(), Value::String(toks(u.op.to_token_stream())));
            m.insert("e".into(), expr_v(&u.expr));
            Value::Object(m)
        }
        Expr::Assign(a) => {
            let mut m = node("Assign", l);
            m.insert("a".into(), expr_v(&a.left));
            m.insert("b".into(), expr_v(&a.right));
            Value::Object(m)
        }
        Expr::Cast(c) => {
            let mut m = node("Cast", l);
            m.insert("e".into(), expr_v(&c.expr));
            m.insert("ty".into(), Value::String(ty_s(&c.ty)));
            Value::Object(m)
        }
        Expr::If(i) => {
            let mut m = node("If", l);
            m.insert("c".into(), expr_v(&i.cond));
            m.insert("t".into(), block_v(&i.then_branch));
            m.insert(
                "e".into(),
                match &i.else_branch {
                    Some((_, e)) => expr_v(e),
                    None => Value::Null,
                },
            );
            Value::Object(m)
        }
        Expr::Let(x) => {
            let mut m = node("Let", l);
            m.insert("pat".into(), pat_v(&x.pat));
            m.insert("e".into(), expr_v(&x.expr));
            Value::Object(m)
        }
        Expr::Match(x) => {
            let mut m = node("Match", l);
            m.insert("el".into(), json!(end_line_of(x)));
            m.insert("e".into(), expr_v(&x.expr));
            let arms: Vec<Value> = x
                .arms
                .iter()
                .map(|a| {
                    let mut am = node("Arm", line_of(a));
                    am.insert("el".into(), json!(end_line_of(a)));
                    am.insert("pat".into(), pat_v(&a.pat));
                    am.insert(
                        "guard".into(),
                        match &a.guard {
                            Some((_, g)) => expr_v(g),
                            None => Value::Null,
                        },
                    );
                    am.insert("body".into(), expr_v(&a.body));
                    am.insert("attrs".into(), attrs_v(&a.attrs));
                    Value::Object(am)
                })
                .collect();
            m.insert("arms".into(), Value::Array(arms));
            Value::Object(m)
        }
        Expr::Block(b) => {
            let mut v = block_v(&b.block);
            if let Some(lbl) = &b.label {
                v.as_object_mut().unwrap().insert("label".into(), Value::String(lbl.name.ident.to_string()));
            }
            v
        }
        Expr::Unsafe(b) => {
            let mut v = block_v(&b.block);
            v.as_object_mut().unwrap().insert("unsafe".into(), json!(true));
            v
        }
        Expr::Const(b) => block_v(&b.block),
        Expr::Loop(x) => {
            let mut m = node("Loop", l);
            m.insert("body".into(), block_v(&x.body));
            Value::Object(m)
        }
        Expr::While(x) => {
            let mut m = node("While", l);
            m.insert("c".into(), expr_v(&x.cond));
            m.insert("body".into(), block_v(&x.body));
            Value::Object(m)
        }
        Expr::ForLoop(x) => {
            let mut m = node("For", l);
            m.insert("pat".into(), pat_v(&x.pat));
            m.insert("e".into(), expr_v(&x.expr));
            m.insert("body".into(), block_v(&x.body));
            Value::Object(m)
        }
        Expr::Return(r) => {
            let mut m = node("Return", l);
            m.insert("e".into(), opt_expr(&r.expr));
            Value::Object(m)
        }
        Expr::Break(r) => {
            let mut m = node("Break", l);
            m.insert("e".into(), opt_expr(&r.expr));
            if let Some(lbl) = &r.label {
                m.insert("label".into(), Value::String(lbl.ident.to_string()));
            }
            Value::Object(m)
        }
        Expr::Continue(_) => Value::Object(node("Continue", l)),
        Expr::Closure(c) => {
            let mut m = node("Closure", l);
            m.insert("params".into(), Value::Array(c.inputs.iter().map(pat_v).collect()));
            m.insert("body".into(), expr_v(&c.body));
            m.insert("move".into(), json!(c.capture.is_some()));
            Value::Object(m)
        }
        Expr::Macro(mac) => macro_v(&mac.mac, l),
        Expr::Reference(r) => {
            let mut m = node("Ref", l);
            m.insert("mut".into(), json!(r.mutability.is_some()));
            m.insert("e".into(), expr_v(&r.expr));
            Value::Object(m)
        }
        Expr::RawAddr(r) => {
            let mut m = node("RawAddr", l);
            m.insert("e".into(), expr_v(&r.expr));
            Value::Object(m)
        }
        Expr::Tuple(t) => {
            let mut m = node("Tuple", l);
            m.insert("elems".into(), Value::Array(t.elems.iter().map(expr_v).collect()));
            Value::Object(m)
        }
        Expr::Array(t) => {
            let mut m = node("Array", l);
            m.insert("elems".into(), Value::Array(t.elems.iter().map(expr_v).collect()));
            Value::Object(m)
        }
        Expr::Repeat(t) => {
            let mut m = node("Repeat", l);
            m.insert("e".into(), expr_v(&t.expr));
            m.insert("len".into(), expr_v(&t.len));
            Value::Object(m)
        }
        Expr::Struct(s) => {
            let mut m = node("Struct", l);
            m.insert("p".into(), Value::String(path_s(&s.path)));
            let fields: Vec<Value> = s
                .fields
                .iter()
                .map(|f| {
                    let name = match &f.member {
                        Member::Named(i) => i.to_string(),
                        Member::Unnamed(i) => i.index.to_string(),
                    };
                    json!({"name": name, "e": expr_v(&f.expr), "l": line_of(f)})
                })
                .collect();
            m.insert("fields".into(), Value::Array(fields));
            m.insert("rest".into(), opt_expr(&s.rest));
            Value::Object(m)
        }
        Expr::Range(r) => {
            let mut m = node("Range", l);
            m.insert("a".into(), opt_expr(&r.start));
            m.insert("b".into(), opt_expr(&r.end));
            m.insert("incl".into(), json!(matches!(r.limits, RangeLimits::Closed(_))));
            Value::Object(m)
        }
        Expr::Try(t) => {
            let mut m = node("Try", l);
            m.insert("e".into(), expr_v(&t.expr));
            Value::Object(m)
        }
        Expr::Await(t) => {
            let mut m = node("Await", l);
            m.insert("e".into(), expr_v(&t.base));
            Value::Object(m)
        }
        Expr::Async(b) => {
            let mut m = node("Async", l);
            m.insert("body".into(), block_v(&b.block));
            Value::Object(m)
        }
        Expr::TryBlock(b) => {
            let mut m = node("TryBlock", l);
            m.insert("body".into(), block_v(&b.block));
            Value::Object(m)
        }
        Expr::Yield(y) => {
            let mut m = node("Yield", l);
            m.insert("e".into(), opt_expr(&y.expr));
            Value::Object(m)
        }
        Expr::Infer(_) => Value::Object(node("Infer", l)),
        other => {
            let mut m = node("Verbatim", l);
            m.insert("tokens".into(), Value::String(toks(other.to_token_stream())));
            Value::Object(m)
        }
    }
}

fn pat_v(p: &Pat) -> Value {
    let l = line_of(p);
    match p {
        Pat::Paren(x) => pat_v(&x.pat),
        Pat::Wild(_) => Value::Object(node("PWild", l)),
        Pat::Rest(_) => Value::Object(node("PRest", l)),
        Pat::Ident(i) => {
            let mut m = node("PIdent", l);
            m.insert("name".into(), Value::String(i.ident.to_string()));
            m.insert("by_ref".into(), json!(i.by_ref.is_some()));
            m.insert("mut".into(), json!(i.mutability.is_some()));
            if let Some((_, sub)) = &i.subpat {
                m.insert("sub".into(), pat_v(sub));
            }
            Value::Object(m)
        }
        Pat::Path(x) => {
            let mut m = node("PPath", l);
            m.insert("p".into(), Value::String(path_s(&x.path)));
            Value::Object(m)
        }
        Pat::TupleStruct(x) => {
            let mut m = node("PTupleStruct", l);
            m.insert("p".into(), Value::String(path_s(&x.path)));
            m.insert("elems".into(), Value::Array(x.elems.iter().map(pat_v).collect()));
            Value::Object(m)
        }
        Pat::Struct(x) => {
            let mut m = node("PStruct", l);
            m.insert("p".into(), Value::String(path_s(&x.path)));
            let fields: Vec<Value> = x
                .fields
                .iter()
                .map(|f| {
                    let name = match &f.member {
                        Member::Named(i) => i.to_string(),
                        Member::Unnamed(i) => i.index.to_string(),
                    };
                    json!({"name": name, "pat": pat_v(&f.pat)})
                })
                .collect();
            m.insert("fields".into(), Value::Array(fields));
            m.insert("rest".into(), json!(x.rest.is_some()));
            Value::Object(m)
        }
        Pat::Tuple(x) => {
            let mut m = node("PTuple", l);
            m.insert("elems".into(), Value::Array(x.elems.iter().map(pat_v).collect()));
            Value::Object(m)
        }
        Pat::Slice(x) => {
            let mut m = node("PSlice", l);
            m.insert("elems".into(), Value::Array(x.elems.iter().map(pat_v).collect()));
            Value::Object(m)
        }
        Pat::Or(x) => {
            let mut m = node("POr", l);
            m.insert("cases".into(), Value::Array(x.cases.iter().map(pat_v).collect()));
            Value::Object(m)
        }
        Pat::Lit(x) => {
            let mut v = lit_v(&x.lit, l);
            v.as_object_mut().unwrap().insert("k".into(), Value::String("PLit".into()));
            v
        }
        Pat::Reference(x) => {
            let mut m = node("PRef", l);
            m.insert("pat".into(), pat_v(&x.pat));
            Value::Object(m)
        }
        Pat::Type(x) => {
            let mut m = node("PType", l);
            m.insert("pat".into(), pat_v(&x.pat));
            m.insert("ty".into(), Value::String(ty_s(&x.ty)));
            Value::Object(m)
        }
        Pat::Range(x) => {
            let mut m = node("PRange", l);
            m.insert("tokens".into(), Value::String(toks(x.to_token_stream())));
            Value::Object(m)
        }
        Pat::Macro(x) => {
            let mut v = macro_v(&x.mac, l);
            v.as_object_mut().unwrap().insert("k".into(), Value::String("PMacro".into()));
            v
        }
        other => {
            let mut m = node("PVerbatim", l);
            m.insert("tokens".into(), Value::String(toks(other.to_token_stream())));
            Value::Object(m)
        }
    }
}

fn fields_v(f: &Fields) -> Value {
    let v: Vec<Value> = f
        .iter()
        .enumerate()
        .map(|(i, fl)| {
            let name = fl.ident.as_ref().map(|i| i.to_string()).unwrap_or_else(|| i.to_string());
            json!({
                "name": name,
                "named": fl.ident.is_some(),
                "ty": ty_s(&fl.ty),
                "vis": toks(fl.vis.to_token_stream()),
                "l": line_of(fl),
                "attrs": attrs_v(&fl.attrs),
            })
        })
        .collect();
    Value::Array(v)
}

fn sig_v(sig: &Signature, m: &mut Map<String, Value>) {
    m.insert("name".into(), Value::String(sig.ident.to_string()));
    let params: Vec<Value> = sig
        .inputs
        .iter()
        .map(|a| match a {
            FnArg::Receiver(r) => json!({"self": true, "mut": r.mutability.is_some(), "ref": r.reference.is_some(), "ty": ty_s(&r.ty)}),
            FnArg::Typed(t) => json!({"pat": pat_v(&t.pat), "ty": ty_s(&t.ty)}),
        })
        .collect();
    m.insert("params".into(), Value::Array(params));
    m.insert(
        "ret".into(),
        match &sig.output {
            ReturnType::Default => Value::Null,
            ReturnType::Type(_, t) => Value::String(ty_s(t)),
        },
    );
    m.insert("generics".into(), Value::String(toks(sig.generics.to_token_stream())));
    m.insert("unsafe".into(), json!(sig.unsafety.is_some()));
}

fn item_v(i: &Item) -> Value {
    let l = line_of(i);
    match i {
        Item::Fn(f) => {
            let mut m = node("Fn", l);
            m.insert("el".into(), json!(end_line_of(f)));
            sig_v(&f.sig, &mut m);
            m.insert("vis".into(), Value::String(toks(f.vis.to_token_stream())));
            m.insert("attrs".into(), attrs_v(&f.attrs));
            m.insert("body".into(), block_v(&f.block));
            Value::Object(m)
        }
        Item::Impl(x) => {
            let mut m = node("Impl", l);
            m.insert("self_ty".into(), Value::String(ty_s(&x.self_ty)));
            m.insert(
                "trait".into(),
                match &x.trait_ {
                    Some((_, p, _)) => Value::String(path_full(p)),
                    None => Value::Null,
                },
            );
            m.insert("generics".into(), Value::String(toks(x.generics.to_token_stream())));
            m.insert("unsafe".into(), json!(x.unsafety.is_some()));
            m.insert("attrs".into(), attrs_v(&x.attrs));
            let items: Vec<Value> = x
                .items
                .iter()
                .map(|ii| match ii {
                    ImplItem::Fn(f) => {
                        let mut fm = node("Fn", line_of(f));
                        fm.insert("el".into(), json!(end_line_of(f)));
                        sig_v(&f.sig, &mut fm);
                        fm.insert("vis".into(), Value::String(toks(f.vis.to_token_stream())));
                        fm.insert("attrs".into(), attrs_v(&f.attrs));
                        fm.insert("body".into(), block_v(&f.block));
                        Value::Object(fm)
                    }
                    ImplItem::Const(c) => {
                        let mut cm = node("Const", line_of(c));
                        cm.insert("name".into(), Value::String(c.ident.to_string()));
                        cm.insert("ty".into(), Value::String(ty_s(&c.ty)));
                        cm.insert("e".into(), expr_v(&c.expr));
                        Value::Object(cm)
                    }
                    ImplItem::Type(t) => {
                        let mut tm = node("TypeAlias", line_of(t));
                        tm.insert("name".into(), Value::String(t.ident.to_string()));
                        tm.insert("ty".into(), Value::String(ty_s(&t.ty)));
                        Value::Object(tm)
                    }
                    other => {
                        let mut om = node("Other", line_of(other));
                        om.insert("tokens".into(), Value::String(toks(other.to_token_stream())));
                        Value::Object(om)
                    }
                })
                .collect();
            m.insert("items".into(), Value::Array(items));
            Value::Object(m)
        }
        Item::Enum(x) => {
            let mut m = node("Enum", l);
            m.insert("name".into(), Value::String(x.ident.to_string()));
            m.insert("vis".into(), Value::String(toks(x.vis.to_token_stream())));
            m.insert("attrs".into(), attrs_v(&x.attrs));
            m.insert("generics".into(), Value::String(toks(x.generics.to_token_stream())));
            let vs: Vec<Value> = x
                .variants
                .iter()
                .map(|v| {
                    json!({
                        "name": v.ident.to_string(),
                        "fields": fields_v(&v.fields),
                        "style": match &v.fields { Fields::Named(_) => "named", Fields::Unnamed(_) => "tuple", Fields::Unit => "unit" },
                        "l": line_of(v),
                        "attrs": attrs_v(&v.attrs),
                        "disc": match &v.discriminant { Some((_, e)) => expr_v(e), None => Value::Null },
                    })
                })
                .collect();
            m.insert("variants".into(), Value::Array(vs));
            Value::Object(m)
        }
        Item::Struct(x) => {
            let mut m = node("StructDef", l);
            m.insert("name".into(), Value::String(x.ident.to_string()));
            m.insert("vis".into(), Value::String(toks(x.vis.to_token_stream())));
            m.insert("attrs".into(), attrs_v(&x.attrs));
            m.insert("generics".into(), Value::String(toks(x.generics.to_token_stream())));
            m.insert("fields".into(), fields_v(&x.fields));
            m.insert(
                "style".into(),
                Value::String(
                    match &x.fields {
                        Fields::Named(_) => "named",
                        Fields::Unnamed(_) => "tuple",
                        Fields::Unit => "unit",
                    }
                    .into(),
                ),
            );
            Value::Object(m)
        }
        Item::Mod(x) => {
            let mut m = node("Mod", l);
            m.insert("name".into(), Value::String(x.ident.to_string()));
            m.insert("attrs".into(), attrs_v(&x.attrs));
            m.insert("vis".into(), Value::String(toks(x.vis.to_token_stream())));
            match &x.content {
                Some((_, items)) => {
                    m.insert("items".into(), Value::Array(items.iter().map(item_v).collect()));
                }
                None => {
                    m.insert("items".into(), Value::Null);
                }
            }
            Value::Object(m)
        }
        Item::Trait(x) => {
            let mut m = node("Trait", l);
            m.insert("name".into(), Value::String(x.ident.to_string()));
            m.insert("vis".into(), Value::String(toks(x.vis.to_token_stream())));
            let items: Vec<Value> = x
                .items
                .iter()
                .map(|ti| match ti {
                    TraitItem::Fn(f) => {
                        let mut fm = node("Fn", line_of(f));
                        sig_v(&f.sig, &mut fm);
                        fm.insert(
                            "body".into(),
                            match &f.default {
                                Some(b) => block_v(b),
                                None => Value::Null,
                            },
                        );
                        Value::Object(fm)
                    }
                    other => {
                        let mut om = node("Other", line_of(other));
                        om.insert("tokens".into(), Value::String(toks(other.to_token_stream())));
                        Value::Object(om)
                    }
                })
                .collect();
            m.insert("items".into(), Value::Array(items));
            Value::Object(m)
        }
        Item::Use(x) => {
            let mut m = node("Use", l);
            m.insert("tokens".into(), Value::String(toks(x.tree.to_token_stream())));
            m.insert("vis".into(), Value::String(toks(x.vis.to_token_stream())));
            Value::Object(m)
        }
        Item::Const(x) => {
            let mut m = node("Const", l);
            m.insert("name".into(), Value::String(x.ident.to_string()));
            m.insert("ty".into(), Value::String(ty_s(&x.ty)));
            m.insert("e".into(), expr_v(&x.expr));
            m.insert("vis".into(), Value::String(toks(x.vis.to_token_stream())));
            Value::Object(m)
        }
        Item::Static(x) => {
            let mut m = node("Static", l);
            m.insert("name".into(), Value::String(x.ident.to_string()));
            m.insert("ty".into(), Value::String(ty_s(&x.ty)));
            m.insert("e".into(), expr_v(&x.expr));
            Value::Object(m)
        }
        Item::Type(x) => {
            let mut m = node("TypeAlias", l);
            m.insert("name".into(), Value::String(x.ident.to_string()));
            m.insert("ty".into(), Value::String(ty_s(&x.ty)));
            Value::Object(m)
        }
        Item::Macro(x) => {
            let mut v = macro_v(&x.mac, l);
            v.as_object_mut().unwrap().insert("k".into(), Value::String("ItemMacro".into()));
            v
        }
        other => {
            let mut m = node("OtherItem", l);
            m.insert("tokens".into(), Value::String(toks(other.to_token_stream())));
            Value::Object(m)
        }
    }
}

fn walk(dir: &Path, out: &mut Vec<PathBuf>) {
    if dir.is_file() {
        out.push(dir.to_path_buf());
        return;
    }
    let mut entries: Vec<_> = match std::fs::read_dir(dir) {
        Ok(rd) => rd.filter_map(|e| e.ok()).map(|e| e.path()).collect(),
        Err(_) => return,
    };
    entries.sort();
    for p in entries {
        if p.is_dir() {
            walk(&p, out);
        } else if p.extension().map(|e| e == "rs").unwrap_or(false) {
            out.push(p);
        }
    }
}

fn main() {
    let args: Vec<String> = std::env::args().collect();
    if args.len() < 3 {
        eprintln!("usage: absyn <out.json> <root>...");
        std::process::exit(2);
    }
    let mut files = Vec::new();
    for r in &args[2..] {
        walk(Path::new(r), &mut files);
    }
    let mut out = Map::new();
    let mut errors = Vec::new();
    for f in files {
        let name = f.to_string_lossy().to_string();
        let src = match std::fs::read_to_string(&f) {
            Ok(s) => s,
            Err(e) => {
                errors.push(json!({"file": name, "error": e.to_string()}));
                continue;
            }
        };
        match syn::parse_file(&src) {
            Ok(file) => {
                let items: Vec<Value> = file.items.iter().map(item_v).collect();
                out.insert(name, json!({"items": items, "lines": src.lines().count()}));
            }
            Err(e) => {
                errors.push(json!({"file": name, "error": e.to_string(), "line": e.span().start().line}));
            }
        }
    }
    let doc = json!({"files": out, "errors": errors});
    std::fs::write(&args[1], serde_json::to_vec(&doc).unwrap()).unwrap();
}
